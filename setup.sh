#!/bin/bash
# Build the framework from files on disk only (offline). Run once after a fresh restore.
set -u
ROOT=$(cd "$(dirname "$0")" && pwd)
export CARGO_NET_OFFLINE=true
cd "$ROOT/harness" || exit 1
[ -f Cargo.lock ] || cp /repo/Cargo.lock Cargo.lock
mkdir -p "$ROOT/evidence/tmp" "$ROOT/evidence/replay"
# one cargo invocation for all claimed checks' binaries (shared dependency build)
BINS=$(jq -r '.checks[].property_id' "$ROOT/MANIFEST.json" | tr 'A-Z' 'a-z' | sed 's/^/--bin /' | tr '\n' ' ')
cargo build --offline --release -p checks $BINS 2>&1 | tail -3
# packages with their own feature sets: separate invocations (no feature unification)
cargo build --offline --release -p c01cap 2>&1 | tail -1
cargo build --offline --release -p c01cap2 2>&1 | tail -1
cargo build --offline --release -p c18log 2>&1 | tail -1
if [ -x "$ROOT/harness/extra/setup.sh" ]; then "$ROOT/harness/extra/setup.sh"; fi
echo "setup done"
