// C15 part 3: the oracle — a history checker over the producers' call records, the underlying
// writer's call log, dropped_lines() and the guard-drop stamps.  Written against the property
// text, not against non_blocking.rs / worker.rs.

type Id = (usize, usize);

#[derive(Default)]
struct Judged {
    violations: Vec<(String, Value)>,
    findings: Vec<(&'static str, String, Value)>,
    inconclusive: Vec<String>,
    offered: u64,
    accepted: u64,
    refused: u64,
    written: u64,
    faulted: u64,
    retried_ok: u64,
    interrupted: u64,
    failed_flushes: u64,
    flushes: u64,
    dropped: u64,
    f9_lines: u64,
    f9_straddling: u64,
    f11: bool,
    blocked_writes: u64,
    overlap_lines: u64,
    multi_call_lines: u64,
    sure_lines: u64,
    room_certain_lines: u64,
    pre_drop_must: u64,
    slow_drop: bool,
    writer_released_before_drop: bool,
    pheno: u32,
}

struct WRec {
    id: Id,
    end_ret: u64,
    log_start: usize,
    log_end: usize,
}

fn call_str(c: &Call) -> String {
    match c {
        Call::Write { ord, call, ret, buf, res } => {
            let id = parse_header(buf)
                .map(|(t, s)| format!("<{t},{s}>"))
                .unwrap_or_else(|| format!("{:?}", String::from_utf8_lossy(&buf[..buf.len().min(12)])));
            format!("write#{ord} [{call},{ret}] {id} len={} -> {res:?}", buf.len())
        }
        Call::Flush { ord, call, ret, res, armed } => format!(
            "flush#{ord} [{call},{ret}] -> {}",
            match (res, armed) {
                (Res::Ok(_), _) => "ok",
                (_, true) => "FAIL (injected: armed fail-next-flush)",
                (_, false) => "FAIL (injected: scripted ordinal)",
            }
        ),
        Call::Drop { stamp } => format!("drop @{stamp}"),
    }
}

fn call_first_stamp(c: &Call) -> u64 {
    match c {
        Call::Write { call, .. } | Call::Flush { call, .. } => *call,
        Call::Drop { stamp } => *stamp,
    }
}

fn line_json(l: &LineRec) -> Value {
    json!({"id": format!("<{},{}>", l.t, l.seq), "phase": l.phase, "call": l.call, "ret": l.ret,
           "result": match l.ok { Some(n) => format!("Ok({n})"), None => "Err".into() }, "len": l.len,
           "dropped_lines_before": l.d_before, "dropped_lines_after": l.d_after,
           "outstanding_bound": l.outstanding_bound})
}

fn witness(cfg: &Cfg, h: &History, problems: &[String], focus: &[Id], extra: Value) -> Value {
    let focus_set: BTreeSet<Id> = focus.iter().copied().take(40).collect();
    let lines: Vec<Value> = if h.lines.len() <= 60 {
        h.lines.iter().map(line_json).collect()
    } else {
        h.lines.iter().filter(|l| focus_set.contains(&(l.t, l.seq))).map(line_json).collect()
    };
    let wl: Vec<String> = if h.wlog.len() <= 300 {
        h.wlog.iter().map(call_str).collect()
    } else {
        let mut v: Vec<String> = vec![format!("... {} earlier calls omitted ...", h.wlog.len() - 150)];
        v.extend(h.wlog[h.wlog.len() - 150..].iter().map(call_str));
        v
    };
    json!({
        "config": cfg.to_json(),
        "problems": problems,
        "guard_drop": {"call": h.drop.call, "ret": h.drop.ret, "took_us": h.drop.dur_us},
        "dropped_lines_final": h.dropped_final,
        "underlying_writer_dropped_at": h.writer_dropped,
        "lines_offered": h.lines.len(),
        "focus_ids": focus.iter().take(40).map(|(t, s)| format!("<{t},{s}>")).collect::<Vec<_>>(),
        "producer_records": lines,
        "underlying_call_log": wl,
        "detail": extra,
    })
}

fn judge(cfg: &Cfg, h: &History) -> Judged {
    let mut j = Judged::default();
    let d = &h.drop;
    let slow = d.dur_us >= SLOW_DROP_US;
    j.slow_drop = slow;
    let mut problems: Vec<String> = vec![];
    let mut focus: Vec<Id> = vec![];

    if h.gate_timeouts > 0 {
        j.inconclusive.push(format!("{}: the scripted writer's gate wait timed out (harness pacing problem)", cfg.label));
        return j;
    }

    for p in &h.panics {
        problems.push(format!("a producer thread panicked inside NonBlocking::write: {p}"));
    }
    let mut off: HashMap<Id, &LineRec> = HashMap::new();
    for l in &h.lines {
        if off.insert((l.t, l.seq), l).is_some() {
            panic!("HARNESS: duplicate offered id <{},{}>", l.t, l.seq);
        }
    }
    j.offered = h.lines.len() as u64;

    // ---- the underlying byte stream ----
    let mut written: Vec<WRec> = vec![];
    let mut faulted: HashMap<Id, u64> = HashMap::new();
    let mut owner: Vec<Option<Id>> = vec![None; h.wlog.len()];
    let mut cur: Vec<u8> = vec![];
    let mut cur_start = 0usize;
    let mut unattributable = false;
    let mut last_ok_write: Option<(usize, u64)> = None; // (log idx, ret) before d.ret
    for (li, c) in h.wlog.iter().enumerate() {
        match c {
            Call::Write { ret, buf, res, .. } => match res {
                Res::Ok(n) => {
                    if *ret < d.ret {
                        last_ok_write = Some((li, *ret));
                    }
                    for &byte in &buf[..(*n).min(buf.len())] {
                        if cur.is_empty() {
                            cur_start = li;
                        }
                        cur.push(byte);
                        if byte == b'\n' {
                            let rec = std::mem::take(&mut cur);
                            match parse_header(&rec) {
                                Some(id) if off.contains_key(&id) && rec == make_line(cfg.salt, id.0, id.1, cfg.long_lines) => {
                                    for o in owner[cur_start..=li].iter_mut() {
                                        if o.is_none() {
                                            *o = Some(id);
                                        }
                                    }
                                    if li > cur_start {
                                        j.multi_call_lines += 1;
                                    }
                                    written.push(WRec { id, end_ret: *ret, log_start: cur_start, log_end: li });
                                }
                                Some(id) if !off.contains_key(&id) => {
                                    problems.push(format!("the underlying log contains a line <{},{}> that no producer offered", id.0, id.1));
                                }
                                other => {
                                    problems.push(format!(
                                        "torn or corrupt line in the underlying log (header {:?}, {} bytes, starts {:?})",
                                        other,
                                        rec.len(),
                                        String::from_utf8_lossy(&rec[..rec.len().min(24)])
                                    ));
                                    if let Some(id) = other {
                                        focus.push(id);
                                    }
                                }
                            }
                        }
                    }
                }
                Res::Fail => match parse_header(buf) {
                    Some(id) if off.contains_key(&id) && *buf == make_line(cfg.salt, id.0, id.1, cfg.long_lines) => {
                        faulted.insert(id, li as u64);
                        owner[li] = Some(id);
                    }
                    _ => unattributable = true,
                },
                Res::Interrupted => {
                    j.interrupted += 1;
                    owner[li] = parse_header(buf).filter(|id| off.contains_key(id));
                }
            },
            Call::Flush { res, .. } => {
                j.flushes += 1;
                if *res != Res::Ok(0) {
                    j.failed_flushes += 1;
                }
            }
            Call::Drop { .. } => {}
        }
    }
    if !cur.is_empty() {
        problems.push(format!(
            "the underlying log ends with a torn line ({} bytes without terminator, starts {:?})",
            cur.len(),
            String::from_utf8_lossy(&cur[..cur.len().min(24)])
        ));
    }
    if unattributable {
        j.inconclusive.push(format!("{}: an injected write failure hit a buffer that is not one whole line; cannot attribute it", cfg.label));
        return j;
    }
    j.written = written.len() as u64;
    j.faulted = faulted.len() as u64;

    // ---- exactly once, per-producer order, one total order ----
    let mut count: HashMap<Id, u32> = HashMap::new();
    for w in &written {
        *count.entry(w.id).or_insert(0) += 1;
    }
    for (id, n) in &count {
        if *n > 1 {
            problems.push(format!("line <{},{}> was written {} times", id.0, id.1, n));
            focus.push(*id);
        }
    }
    let mut last_seq: HashMap<usize, usize> = HashMap::new();
    let mut max_call: (u64, Id) = (0, (0, 0));
    for w in &written {
        let l = off[&w.id];
        if let Some(&p) = last_seq.get(&w.id.0) {
            if w.id.1 < p {
                problems.push(format!("producer {} out of order: <{},{}> written after <{},{}>", w.id.0, w.id.0, w.id.1, w.id.0, p));
                focus.push(w.id);
                focus.push((w.id.0, p));
            }
        }
        last_seq.insert(w.id.0, w.id.1);
        // one total order: a write that returned before another was called must come first
        if l.ret < max_call.0 {
            problems.push(format!(
                "order across producers: <{},{}> (write returned at {}) is written after <{},{}> (write called at {})",
                w.id.0, w.id.1, l.ret, max_call.1 .0, max_call.1 .1, max_call.0
            ));
            focus.push(w.id);
            focus.push(max_call.1);
        }
        if l.call > max_call.0 {
            max_call = (l.call, w.id);
        }
    }

    // ---- acceptance ----
    let fast_window = |l: &LineRec| l.ret > d.call && (slow || l.call < d.ret);
    for l in &h.lines {
        match l.ok {
            Some(n) => {
                j.accepted += 1;
                if n != l.len {
                    problems.push(format!("write of <{},{}> returned Ok({n}) for a {}-byte line (torn acceptance)", l.t, l.seq, l.len));
                    focus.push((l.t, l.seq));
                }
            }
            None => {
                j.refused += 1;
                if !cfg.lossy && l.ret < d.call {
                    problems.push(format!(
                        "non-lossy: write of <{},{}> returned an error while the guard was alive (ret {} < drop call {}); producers must wait instead",
                        l.t, l.seq, l.ret, d.call
                    ));
                    focus.push((l.t, l.seq));
                }
            }
        }
        if l.call < d.ret && l.ret > d.call {
            j.overlap_lines += 1;
        }
        if !cfg.lossy && h.opens.iter().any(|&o| l.call < o && o < l.ret) {
            j.blocked_writes += 1;
        }
    }
    j.dropped = h.dropped_final;

    // ---- conservation: every accepted line is written, cost by an injected write failure,
    //      or (lossy) counted in dropped_lines() ----
    let sure = |l: &LineRec| -> bool {
        if !cfg.lossy {
            return true;
        }
        // the counter did not move during the call: this line was not the one dropped;
        // or the queue provably had room and the worker was still owed to be alive
        l.d_before == l.d_after || (l.outstanding_bound <= cfg.cap as u64 && l.ret < d.call)
    };
    let mut missing: Vec<&LineRec> = vec![];
    for l in &h.lines {
        if l.ok.is_none() {
            continue;
        }
        let id = (l.t, l.seq);
        if sure(l) {
            j.sure_lines += 1;
        }
        if cfg.lossy && l.outstanding_bound <= cfg.cap as u64 && l.ret < d.call {
            j.room_certain_lines += 1;
        }
        let w = count.contains_key(&id);
        let f = faulted.contains_key(&id);
        if w && f {
            j.retried_ok += 1;
        }
        if !w && !f {
            missing.push(l);
        }
    }
    let mut f9: Vec<&LineRec> = vec![];
    if cfg.lossy {
        let (s, p): (Vec<&LineRec>, Vec<&LineRec>) = missing.iter().copied().partition(|l| sure(l));
        let dcount = h.dropped_final as usize;
        if dcount > p.len() {
            problems.push(format!(
                "lossy conservation: dropped_lines() = {dcount} but only {} unwritten lines can have been dropped — the others were provably queued: the counter stood still during their call, or the queue had room while the guard was alive (accepted {}, written {}, cost by injected write failures {})",
                p.len(), j.accepted, count.len(), faulted.len()
            ));
        }
        let mut bad_sure = 0;
        for l in &s {
            if fast_window(l) {
                f9.push(l);
            } else {
                bad_sure += 1;
                if bad_sure <= 5 {
                    problems.push(format!(
                        "lossy: <{},{}> was accepted ({}) but never written and cannot be among the counted drops (call {}, ret {}, guard drop [{},{}])",
                        l.t, l.seq,
                        if l.d_before == l.d_after { "dropped_lines() did not move during the call" } else { "the queue provably had room" },
                        l.call, l.ret, d.call, d.ret
                    ));
                }
                focus.push((l.t, l.seq));
            }
        }
        if bad_sure > 5 {
            problems.push(format!("... and {} more accepted-but-lost lines", bad_sure - 5));
        }
        let p_out: Vec<&&LineRec> = p.iter().filter(|l| !fast_window(l)).collect();
        if p_out.len() > dcount {
            problems.push(format!(
                "lossy conservation: {} offered lines outside the guard-drop window are neither written nor cost by an injected failure, but dropped_lines() = {dcount} (offered {}, written {}, failed {})",
                p_out.len(), j.accepted, count.len(), faulted.len()
            ));
            for l in p_out.iter().take(10) {
                focus.push((l.t, l.seq));
            }
        } else if dcount <= p.len() {
            // unaccounted lines beyond the definite ones, all attributable to the drop window
            let u = (s.len() + p.len()).saturating_sub(dcount);
            let extra = u.saturating_sub(s.len());
            let mut cand: Vec<&LineRec> = p.iter().copied().filter(|l| fast_window(l)).collect();
            cand.sort_by_key(|l| std::cmp::Reverse(l.call));
            if bad_sure == 0 {
                f9.extend(cand.into_iter().take(extra));
            }
        }
    } else {
        if h.dropped_final != 0 {
            problems.push(format!("non-lossy: dropped_lines() = {}", h.dropped_final));
        }
        let mut bad = 0;
        for l in &missing {
            if fast_window(l) {
                f9.push(l);
            } else {
                bad += 1;
                if bad <= 5 {
                    problems.push(format!(
                        "non-lossy: write of <{},{}> returned Ok but the line was never written (call {}, ret {}, guard drop [{},{}])",
                        l.t, l.seq, l.call, l.ret, d.call, d.ret
                    ));
                }
                focus.push((l.t, l.seq));
            }
        }
        if bad > 5 {
            problems.push(format!("... and {} more accepted-but-lost lines", bad - 5));
        }
    }

    // ---- what drop(guard) owes: accepted-before-drop written, flushed, writer released ----
    let wrec_of: HashMap<Id, &WRec> = written.iter().map(|w| (w.id, w)).collect();
    let must_before: Vec<&LineRec> = h
        .lines
        .iter()
        .filter(|l| l.ok.is_some() && l.ret < d.call && sure(l) && !faulted.contains_key(&(l.t, l.seq)))
        .collect();
    j.pre_drop_must = must_before.len() as u64;
    let released_by_ret = h.writer_dropped.map_or(false, |s| s < d.ret);
    j.writer_released_before_drop = h.writer_dropped.map_or(false, |s| s < d.call);
    if !slow {
        let mut late = 0;
        for l in &must_before {
            if let Some(w) = wrec_of.get(&(l.t, l.seq)) {
                if w.end_ret > d.ret {
                    late += 1;
                    if late <= 3 {
                        problems.push(format!(
                            "<{},{}> was accepted before the guard drop (ret {} < {}) but only written at {} — after drop(guard) returned at {}",
                            l.t, l.seq, l.ret, d.call, w.end_ret, d.ret
                        ));
                    }
                    focus.push((l.t, l.seq));
                }
            }
        }
        if let Some((li, wret)) = last_ok_write {
            // a flush that the fault script made fail costs exactly that flush: the appender
            // did flush, the underlying writer refused (injected) - nothing more is owed
            let flushed = h.wlog[li + 1..].iter().any(|c| matches!(c, Call::Flush { call, ret, res: Res::Ok(_) | Res::Fail, .. } if *call > wret && *ret < d.ret));
            if !flushed {
                problems.push(format!(
                    "no flush of the underlying writer (successful, or failed only by an injected fault) between its last write (ret {wret}) and the return of drop(guard) at {}",
                    d.ret
                ));
            }
        }
        if !released_by_ret {
            problems.push(format!(
                "drop(guard) returned at {} after {} us but the underlying writer had not been dropped (writer drop stamp: {:?})",
                d.ret, d.dur_us, h.writer_dropped
            ));
        }
    } else {
        // F11: slow drop / writer not released, and the script failed exactly the flush that
        // follows the batch carrying Shutdown
        let mut m: Option<Value> = None;
        if d.dur_us >= F11_DROP_US {
            for (i, c) in h.wlog.iter().enumerate() {
                let Call::Flush { ord, call, ret, res: Res::Fail, armed } = c else { continue };
                if !(*call > d.call && *ret < d.ret) {
                    continue;
                }
                // up to the return of the drop the worker did nothing, or only handled lines
                // that were offered after the drop began
                let after_ok = h.wlog[i + 1..]
                    .iter()
                    .take_while(|c| call_first_stamp(c) < d.ret)
                    .enumerate()
                    .all(|(k, c)| match c {
                        Call::Write { .. } => owner[i + 1 + k].and_then(|id| off.get(&id)).map_or(false, |l| l.ret > d.call),
                        Call::Flush { .. } => true,
                        // (after the timeout the guard's own sender goes away; if every handle is gone
                        // too the worker sees Disconnected and may release the writer just before our ret stamp)
                        Call::Drop { .. } => true,
                    });
                let pre_ok = must_before.iter().all(|l| wrec_of.get(&(l.t, l.seq)).map_or(false, |w| w.log_end < i));
                if after_ok && pre_ok {
                    m = Some(json!({"writer_released_when_drop_returned": released_by_ret, "failed_flush": call_str(c), "flush_ordinal": ord, "armed": armed,
                                    "calls_between_failed_flush_and_drop_return": h.wlog[i + 1..].iter().take_while(|c| call_first_stamp(c) < d.ret).count()}));
                    break;
                }
            }
        }
        match m {
            Some(detail) => {
                j.f11 = true;
                j.findings.push((
                    "F11",
                    "the flush following the batch that carries Shutdown failed (injected): the worker forgot the shutdown, drop(guard) ran into its 1 s rendezvous timeout and the writer was not released by the shutdown path".into(),
                    witness(cfg, h, &[format!("drop(guard) took {} us; writer dropped at {:?}, drop returned at {}", d.dur_us, h.writer_dropped, d.ret)], &[], detail),
                ));
            }
            None => j.inconclusive.push(format!(
                "{}: drop(guard) took {} ms (>= 100 ms, no injected failure of the shutdown flush): flush-on-drop clause not judged",
                cfg.label,
                d.dur_us / 1000
            )),
        }
    }
    if h.writer_dropped.is_none() && (slow || problems.is_empty()) {
        j.inconclusive.push(format!("{}: the underlying writer was not released within 5 s after the guard and every handle were gone", cfg.label));
    }

    if slow && h.writer_dropped.is_none() && (!problems.is_empty() || !f9.is_empty()) {
        // the worker may still have been running when the log was collected: not judged
        j.inconclusive.push(format!(
            "{}: slow drop and writer not released at collection time; {} divergence(s) / {} unaccounted line(s) not judged{}",
            cfg.label,
            problems.len(),
            f9.len(),
            problems.first().map(|p| format!(" (first: {p})")).unwrap_or_default()
        ));
        problems.clear();
        f9.clear();
    }
    // ---- F9: everything unaccounted lies in the guard-drop window ----
    if !f9.is_empty() {
        j.f9_lines = f9.len() as u64;
        j.f9_straddling = f9.iter().filter(|l| l.call < d.call).count() as u64;
        let ids: Vec<Id> = f9.iter().map(|l| (l.t, l.seq)).collect();
        let what = "lines accepted (write returned Ok) while WorkerGuard::drop was in progress were never written and, in lossy mode, are not counted in dropped_lines()";
        let detail = json!({
            "unaccounted": f9.iter().take(40).map(|l| line_json(l)).collect::<Vec<_>>(),
            "unaccounted_count": f9.len(),
            "mode": if cfg.lossy { "lossy" } else { "non-lossy" },
            "signature": "every unaccounted line's write was not complete before the guard drop was called (ret > drop.call) and began before it returned",
            "accepted": j.accepted, "written": count.len(), "cost_by_injected_write_failure": faulted.len(), "dropped_lines": h.dropped_final,
        });
        j.findings.push(("F9", what.into(), witness(cfg, h, &[format!("{} unaccounted line(s)", f9.len())], &ids, detail)));
    }

    if !problems.is_empty() {
        let what = problems[0].clone();
        j.violations.push((what, witness(cfg, h, &problems, &focus, json!({}))));
    }

    // ---- what this run exercised ----
    let mut ph = 0u32;
    if cfg.lossy && h.dropped_final > 0 {
        ph |= 1;
    }
    if j.blocked_writes > 0 {
        ph |= 2;
    }
    if j.faulted > 0 {
        ph |= 4;
    }
    if j.failed_flushes > 0 {
        ph |= 8;
    }
    if j.interrupted > 0 {
        ph |= 16;
    }
    if j.f9_lines > 0 {
        ph |= 32;
    }
    if j.f11 {
        ph |= 64;
    }
    if h.stalls > 0 {
        ph |= 128;
    }
    if j.overlap_lines > 0 {
        ph |= 256;
    }
    if j.multi_call_lines > 0 {
        ph |= 512;
    }
    if j.refused > 0 {
        ph |= 1024;
    }
    j.pheno = ph;
    j
}
