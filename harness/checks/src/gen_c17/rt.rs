// C17 runtime support (HAND-WRITTEN, not generated): effect log, sentinels, probes, the type zoo
// used by the generated twins, the recording / disabling collectors and the descriptor types.
//
// Everything that happens on a thread goes to ONE thread-local timeline (body effects, harness
// markers and the collector's callbacks), so "effect X happened while span S was entered on this
// thread" is a statement about the order of entries in that timeline.
#![allow(dead_code)]

use std::cell::RefCell;
use std::collections::HashMap;
use std::fmt;
use std::future::Future;
use std::pin::Pin;
use std::rc::Rc;
use std::sync::Mutex;
use std::task::{Context, Poll};
use tracing::span::{Attributes, Id, Record};
use tracing_core::span::Current;
use tracing::{Collect, Event, Metadata};
use tracing_core::collect::Interest;
use tracing_core::field::{Field, Visit};

// ---------------------------------------------------------------------------------------------
// field values as seen by a Visit

#[derive(Clone, Debug, PartialEq)]
pub enum FV {
    I64(i64),
    U64(u64),
    I128(i128),
    U128(u128),
    F64(f64),
    Bool(bool),
    Str(String),
    Dbg(String),
    Bytes(Vec<u8>),
    Err(String),
}

pub fn fv_json(v: &FV) -> String {
    format!("{v:?}")
}

#[derive(Default)]
pub struct FieldVisit(pub Vec<(String, FV)>);
impl Visit for FieldVisit {
    fn record_f64(&mut self, f: &Field, v: f64) {
        self.0.push((f.name().to_string(), FV::F64(v)));
    }
    fn record_i64(&mut self, f: &Field, v: i64) {
        self.0.push((f.name().to_string(), FV::I64(v)));
    }
    fn record_u64(&mut self, f: &Field, v: u64) {
        self.0.push((f.name().to_string(), FV::U64(v)));
    }
    fn record_i128(&mut self, f: &Field, v: i128) {
        self.0.push((f.name().to_string(), FV::I128(v)));
    }
    fn record_u128(&mut self, f: &Field, v: u128) {
        self.0.push((f.name().to_string(), FV::U128(v)));
    }
    fn record_bool(&mut self, f: &Field, v: bool) {
        self.0.push((f.name().to_string(), FV::Bool(v)));
    }
    fn record_str(&mut self, f: &Field, v: &str) {
        self.0.push((f.name().to_string(), FV::Str(v.to_string())));
    }
    fn record_bytes(&mut self, f: &Field, v: &[u8]) {
        self.0.push((f.name().to_string(), FV::Bytes(v.to_vec())));
    }
    fn record_error(&mut self, f: &Field, v: &(dyn std::error::Error + 'static)) {
        self.0.push((f.name().to_string(), FV::Err(v.to_string())));
    }
    fn record_debug(&mut self, f: &Field, v: &dyn fmt::Debug) {
        self.0.push((f.name().to_string(), FV::Dbg(format!("{v:?}"))));
    }
}

// ---------------------------------------------------------------------------------------------
// the timeline

#[derive(Clone, Debug, PartialEq)]
pub enum Par {
    Contextual,
    Root,
    Explicit(u64),
}

#[derive(Clone, Debug, PartialEq)]
pub enum Ev {
    // ---- body effects (identical in both twins)
    Fx(u32),
    FxV(u32, i64),
    /// a `yield_n` future was polled (k, polls left)
    YieldPoll(u32, i64),
    /// probe k saw `tracing::Span::current()` = (id, name)
    Probe(u32, Option<u64>, Option<&'static str>),
    /// the body emitted `body_event(k)` (marker written by the body itself, before the macro)
    BodyEv(u32),
    /// the body called `Span::current().record("late", v)`
    RecLate(i64),
    DropLocal(u32),
    DropArg(u32),
    /// statement executed before the `Box::pin(async move ..)` of a boxed-future twin
    PreFx(u32),
    // ---- call site / attribute-only effects
    ArgEval(u32),
    /// a `fields(..)` expression with a counting side effect was evaluated
    FieldEval(u32),
    // ---- harness markers
    CallStart,
    CallEnd,
    /// async twins: the call returned its future (nothing has polled it yet)
    FutMade,
    CreateStart(usize),
    CreateEnd(usize),
    PollStart(usize),
    PollEnd(usize, bool),
    DropStart(usize),
    DropEnd(usize),
    // ---- collector callbacks
    NewSpan {
        id: u64,
        name: &'static str,
        level: u8,
        target: String,
        fields: Vec<(String, FV)>,
        declared: Vec<&'static str>,
        parent: Par,
        cur_top: Option<u64>,
    },
    Enter(u64),
    Exit(u64),
    Close(u64),
    Record(u64, Vec<(String, FV)>),
    Follows(u64, u64),
    Event {
        level: u8,
        target: String,
        fields: Vec<(String, FV)>,
        parent: Par,
        cur_top: Option<u64>,
    },
}

thread_local! {
    static TL: RefCell<Vec<Ev>> = const { RefCell::new(Vec::new()) };
}
pub fn log(e: Ev) {
    TL.with(|t| t.borrow_mut().push(e));
}
pub fn take_log() -> Vec<Ev> {
    TL.with(|t| std::mem::take(&mut *t.borrow_mut()))
}

/// 1 = TRACE .. 5 = ERROR (the numbering the attribute documents for numeric levels)
pub fn lvl(l: &tracing::Level) -> u8 {
    match *l {
        tracing::Level::TRACE => 1,
        tracing::Level::DEBUG => 2,
        tracing::Level::INFO => 3,
        tracing::Level::WARN => 4,
        _ => 5,
    }
}

// ---------------------------------------------------------------------------------------------
// body primitives

pub fn fx(k: u32) {
    log(Ev::Fx(k));
}
pub fn fx_v(k: u32, v: i64) {
    log(Ev::FxV(k, v));
}
pub fn pre_fx(k: u32) {
    log(Ev::PreFx(k));
}
pub fn probe(k: u32) {
    let s = tracing::Span::current();
    let id = s.id().map(|i| i.into_u64());
    let name = s.metadata().map(|m| m.name());
    drop(s);
    log(Ev::Probe(k, id, name));
}
pub fn body_event(k: u32) {
    log(Ev::BodyEv(k));
    tracing::info!(target: "c17body", n = k);
}
pub fn rec_late(v: i64) {
    log(Ev::RecLate(v));
    tracing::Span::current().record("late", v);
}
pub fn arg_eval<T>(k: u32, v: T) -> T {
    log(Ev::ArgEval(k));
    v
}
/// used inside `fields(..)` expressions: counts the evaluation
pub fn count_eval(k: u32, v: i64) -> i64 {
    log(Ev::FieldEval(k));
    v
}
pub fn may_fail(k: u32, x: i64) -> Result<i64, MyErr> {
    log(Ev::FxV(k, x));
    if x.rem_euclid(4) == 3 {
        Err(MyErr { code: x })
    } else {
        Ok(x + 1)
    }
}

pub struct YieldN {
    k: u32,
    left: i64,
}
/// a future that is `Pending` `n` times (n clamped to 0..=3) and logs every poll
pub fn yield_n(k: u32, n: i64) -> YieldN {
    YieldN { k, left: n.rem_euclid(4) }
}
impl Future for YieldN {
    type Output = ();
    fn poll(mut self: Pin<&mut Self>, cx: &mut Context<'_>) -> Poll<()> {
        log(Ev::YieldPoll(self.k, self.left));
        if self.left > 0 {
            self.left -= 1;
            cx.waker().wake_by_ref();
            Poll::Pending
        } else {
            Poll::Ready(())
        }
    }
}

// ---------------------------------------------------------------------------------------------
// the type zoo

pub struct Sent {
    pub tag: u32,
    arg: bool,
}
impl Sent {
    pub fn arg(tag: u32) -> Sent {
        Sent { tag, arg: true }
    }
    pub fn local(tag: u32) -> Sent {
        Sent { tag, arg: false }
    }
}
impl Drop for Sent {
    fn drop(&mut self) {
        log(if self.arg { Ev::DropArg(self.tag) } else { Ev::DropLocal(self.tag) });
    }
}
impl fmt::Debug for Sent {
    fn fmt(&self, f: &mut fmt::Formatter<'_>) -> fmt::Result {
        write!(f, "Sent({})", self.tag)
    }
}

#[derive(Clone, Copy, Debug, PartialEq)]
pub struct Pt {
    pub x: i64,
    pub y: i64,
}
#[derive(Debug)]
pub struct Pair(pub i64, pub Sent);

#[derive(Clone, Copy, PartialEq)]
pub struct Wrap(pub i64);
impl fmt::Debug for Wrap {
    fn fmt(&self, f: &mut fmt::Formatter<'_>) -> fmt::Result {
        write!(f, "Wrap({})", self.0)
    }
}
impl fmt::Display for Wrap {
    fn fmt(&self, f: &mut fmt::Formatter<'_>) -> fmt::Result {
        write!(f, "w<{}>", self.0)
    }
}

#[derive(Clone, PartialEq)]
pub struct MyErr {
    pub code: i64,
}
impl fmt::Debug for MyErr {
    fn fmt(&self, f: &mut fmt::Formatter<'_>) -> fmt::Result {
        write!(f, "MyErr {{ code: {} }}", self.code)
    }
}
impl fmt::Display for MyErr {
    fn fmt(&self, f: &mut fmt::Formatter<'_>) -> fmt::Result {
        write!(f, "E{}!", self.code)
    }
}
impl std::error::Error for MyErr {}

pub struct Pay(pub i64);

pub trait Tr {
    fn val(&self) -> i64;
}
impl Tr for Wrap {
    fn val(&self) -> i64 {
        self.0
    }
}
impl Tr for Pt {
    fn val(&self) -> i64 {
        self.x + self.y
    }
}

pub struct Obj {
    pub k: i64,
    pub s: Sent,
    pub span: tracing::Span,
}
impl Obj {
    pub fn new(k: i64, tag: u32, span: tracing::Span) -> Obj {
        Obj { k, s: Sent::arg(tag), span }
    }
}
impl fmt::Debug for Obj {
    fn fmt(&self, f: &mut fmt::Formatter<'_>) -> fmt::Result {
        write!(f, "Obj {{ k: {} }}", self.k)
    }
}

pub const NAME_C: &str = "const_span_name";
pub const TARGET_C: &str = "c17t::from_const";

// ---------------------------------------------------------------------------------------------
// inputs, context, outcome, descriptor

#[derive(Clone, Debug)]
pub struct Inp {
    pub v: [i64; 8],
    pub s: [String; 3],
    pub b: [bool; 3],
    /// harness enters the ambient span around the call / every poll
    pub ambient: bool,
    /// async only: drop the future after this many polls (if it is still pending)
    pub drop_after: Option<u32>,
}

pub struct Cx {
    /// candidate explicit parent (never entered by the harness)
    pub outer: tracing::Span,
    /// entered by the harness when `inp.ambient`
    pub ambient: tracing::Span,
    pub cause_spans: Vec<tracing::Span>,
    pub cause_ids: Vec<Id>,
}

#[derive(Clone, Debug, Default, PartialEq)]
pub struct RetR {
    pub is_result: bool,
    pub whole_dbg: Option<String>,
    pub whole_disp: Option<String>,
    /// Some((dbg, disp)) when the plain value is Ok(x)
    pub ok: Option<(Option<String>, Option<String>)>,
    /// Some((dbg, disp)) when the plain value is Err(e)
    pub err: Option<(String, String)>,
}

#[derive(Clone, Debug, Default, PartialEq)]
pub struct Out1 {
    /// rendering of the returned value ("R:..") or of the panic payload ("P:..")
    pub ret: String,
    /// rendering of everything reachable through `&mut` arguments after the call
    pub post: String,
    pub rr: RetR,
}

pub fn payload(p: &(dyn std::any::Any + Send)) -> String {
    if let Some(s) = p.downcast_ref::<&str>() {
        format!("P:str:{s}")
    } else if let Some(s) = p.downcast_ref::<String>() {
        format!("P:string:{s}")
    } else if let Some(s) = p.downcast_ref::<Pay>() {
        format!("P:pay:{}", s.0)
    } else {
        "P:other".to_string()
    }
}

pub type SyncRun = fn(bool, &Inp, &Cx) -> Out1;
pub type AsyncRun = fn(bool, &Inp, Rc<Cx>) -> Pin<Box<dyn Future<Output = Out1>>>;

pub enum Run {
    Sync(SyncRun),
    Async(AsyncRun),
}

#[derive(Clone, Copy, Debug, PartialEq)]
pub enum ParExp {
    Contextual,
    Root,
    /// explicit parent = cx.outer
    Outer,
}
#[derive(Clone, Copy, Debug, PartialEq)]
pub enum Mode {
    Dbg,
    Disp,
}
#[derive(Clone, Copy, Debug)]
pub struct EvExp {
    pub level: u8,
    pub mode: Mode,
}

/// expected value of one field: any of `ok` is accepted; empty `ok` = present, value not judged
pub struct FExp {
    pub name: &'static str,
    pub ok: Vec<FV>,
    /// 0 = not applicable; a parameter of a primitive / String type whose type is written
    /// plainly (1) or as a qualified path (2): both spellings must be recorded the same way
    pub spelled: u8,
}
impl FExp {
    pub fn spelled(mut self, how: u8) -> FExp {
        self.spelled = how;
        self
    }
}
pub struct Exp {
    pub fields: Vec<FExp>,
    /// declared with `fields(name)` (= Empty): may be absent from the recorded values
    pub empty: Vec<&'static str>,
}

pub struct Desc {
    pub id: u32,
    pub kind: &'static str,
    pub shape: &'static str,
    pub attr: &'static str,
    pub span_name: &'static str,
    pub level: u8,
    pub target: &'static str,
    pub parent: ParExp,
    /// 0 = none, 1 = `[one span]`, 2 = all of cx.cause_ids
    pub follows: u8,
    pub ret: Option<EvExp>,
    pub err: Option<EvExp>,
    /// FieldEval ids expected exactly once when the span is enabled
    pub field_evals: &'static [u32],
    pub run: Run,
    pub exp: fn(&Inp, &Cx) -> Exp,
}

pub fn f_int(name: &'static str, v: i64) -> FExp {
    let mut ok = vec![FV::I64(v), FV::Dbg(v.to_string())];
    if v >= 0 {
        ok.push(FV::U64(v as u64));
    }
    FExp { name, ok, spelled: 0 }
}
pub fn f_bool(name: &'static str, v: bool) -> FExp {
    FExp { name, ok: vec![FV::Bool(v), FV::Dbg(v.to_string())], spelled: 0 }
}
pub fn f_str(name: &'static str, v: &str) -> FExp {
    FExp { name, ok: vec![FV::Str(v.to_string()), FV::Dbg(format!("{v:?}"))], spelled: 0 }
}
pub fn f_dbg(name: &'static str, v: String) -> FExp {
    FExp { name, ok: vec![FV::Dbg(v)], spelled: 0 }
}
pub fn f_any(name: &'static str) -> FExp {
    FExp { name, ok: vec![], spelled: 0 }
}
/// either expectation is fine (empty = anything)
pub fn f_or(a: FExp, b: FExp) -> FExp {
    if a.ok.is_empty() || b.ok.is_empty() {
        return FExp { name: a.name, ok: vec![], spelled: 0 };
    }
    let mut ok = a.ok;
    ok.extend(b.ok);
    FExp { name: a.name, ok, spelled: 0 }
}

// ---------------------------------------------------------------------------------------------
// collectors

#[derive(Default)]
struct RecState {
    next: u64,
    rc: HashMap<u64, (usize, &'static Metadata<'static>)>,
}

/// Records everything into the calling thread's timeline.
pub struct RecCollector {
    st: Mutex<RecState>,
    /// answer `sometimes` instead of `always` from register_callsite
    pub sometimes: bool,
    /// accept only levels >= this (1 = TRACE .. 5 = ERROR): 1 accepts everything, 3 = INFO and more severe
    pub min_level: u8,
    /// announce the level threshold through max_level_hint
    pub hint: bool,
}

thread_local! {
    static STACK: RefCell<Vec<u64>> = const { RefCell::new(Vec::new()) };
}
pub fn stack_top() -> Option<u64> {
    STACK.with(|s| s.borrow().last().copied())
}
pub fn stack_snapshot() -> Vec<u64> {
    STACK.with(|s| s.borrow().clone())
}

impl RecCollector {
    pub fn new(sometimes: bool) -> Self {
        RecCollector { st: Mutex::new(RecState { next: 1, rc: HashMap::new() }), sometimes, min_level: 1, hint: false }
    }
    /// accepts spans and events at INFO and more severe only
    pub fn info_and_up(sometimes: bool, hint: bool) -> Self {
        RecCollector { st: Mutex::new(RecState { next: 1, rc: HashMap::new() }), sometimes, min_level: 3, hint }
    }
}

fn par_of(parent: Option<&Id>, root: bool, ctx: bool) -> Par {
    if let Some(p) = parent {
        Par::Explicit(p.into_u64())
    } else if root {
        Par::Root
    } else if ctx {
        Par::Contextual
    } else {
        Par::Root
    }
}

impl Collect for RecCollector {
    fn register_callsite(&self, m: &'static Metadata<'static>) -> Interest {
        if self.sometimes {
            Interest::sometimes()
        } else if lvl(m.level()) >= self.min_level {
            Interest::always()
        } else {
            Interest::never()
        }
    }
    fn enabled(&self, m: &Metadata<'_>) -> bool {
        lvl(m.level()) >= self.min_level
    }
    fn max_level_hint(&self) -> Option<tracing_core::LevelFilter> {
        if self.hint && self.min_level == 3 {
            Some(tracing_core::LevelFilter::INFO)
        } else {
            None
        }
    }
    fn new_span(&self, a: &Attributes<'_>) -> Id {
        let mut v = FieldVisit::default();
        a.record(&mut v);
        let id = {
            let mut st = self.st.lock().unwrap();
            let id = st.next;
            st.next += 1;
            st.rc.insert(id, (1, a.metadata()));
            id
        };
        let m = a.metadata();
        log(Ev::NewSpan {
            id,
            name: m.name(),
            level: lvl(m.level()),
            target: m.target().to_string(),
            fields: v.0,
            declared: m.fields().iter().map(|f| f.name()).collect(),
            parent: par_of(a.parent(), a.is_root(), a.is_contextual()),
            cur_top: stack_top(),
        });
        Id::from_u64(id)
    }
    fn record(&self, s: &Id, r: &Record<'_>) {
        let mut v = FieldVisit::default();
        r.record(&mut v);
        log(Ev::Record(s.into_u64(), v.0));
    }
    fn record_follows_from(&self, s: &Id, f: &Id) {
        log(Ev::Follows(s.into_u64(), f.into_u64()));
    }
    fn event(&self, e: &Event<'_>) {
        let mut v = FieldVisit::default();
        e.record(&mut v);
        let m = e.metadata();
        log(Ev::Event {
            level: lvl(m.level()),
            target: m.target().to_string(),
            fields: v.0,
            parent: par_of(e.parent(), e.is_root(), e.is_contextual()),
            cur_top: stack_top(),
        });
    }
    fn enter(&self, s: &Id) {
        STACK.with(|st| st.borrow_mut().push(s.into_u64()));
        log(Ev::Enter(s.into_u64()));
    }
    fn exit(&self, s: &Id) {
        STACK.with(|st| {
            let mut st = st.borrow_mut();
            if let Some(p) = st.iter().rposition(|x| *x == s.into_u64()) {
                st.remove(p);
            }
        });
        log(Ev::Exit(s.into_u64()));
    }
    fn clone_span(&self, s: &Id) -> Id {
        if let Some(e) = self.st.lock().unwrap().rc.get_mut(&s.into_u64()) {
            e.0 += 1;
        }
        s.clone()
    }
    fn try_close(&self, s: Id) -> bool {
        let mut st = self.st.lock().unwrap();
        let Some(e) = st.rc.get_mut(&s.into_u64()) else {
            return false;
        };
        e.0 -= 1;
        if e.0 == 0 {
            st.rc.remove(&s.into_u64());
            drop(st);
            log(Ev::Close(s.into_u64()));
            true
        } else {
            false
        }
    }
    fn current_span(&self) -> Current {
        match stack_top() {
            None => Current::none(),
            Some(id) => match self.st.lock().unwrap().rc.get(&id) {
                Some((_, m)) => Current::new(Id::from_u64(id), m),
                None => Current::none(),
            },
        }
    }
}

/// Disables spans.  `never`: answers Interest::never for everything.  Otherwise answers
/// `sometimes` and rejects spans in `enabled` while accepting events (so `ret`/`err` events of a
/// disabled span are still delivered).
pub struct DisCollector {
    pub never: bool,
}
impl Collect for DisCollector {
    fn register_callsite(&self, _: &'static Metadata<'static>) -> Interest {
        if self.never {
            Interest::never()
        } else {
            Interest::sometimes()
        }
    }
    fn enabled(&self, m: &Metadata<'_>) -> bool {
        !self.never && !m.is_span()
    }
    fn new_span(&self, a: &Attributes<'_>) -> Id {
        // must not happen (enabled() rejects spans); recorded so that the check can count it
        log(Ev::NewSpan {
            id: 0xdead,
            name: a.metadata().name(),
            level: lvl(a.metadata().level()),
            target: a.metadata().target().to_string(),
            fields: vec![],
            declared: vec![],
            parent: Par::Root,
            cur_top: None,
        });
        Id::from_u64(0xdead)
    }
    fn record(&self, _: &Id, _: &Record<'_>) {}
    fn record_follows_from(&self, _: &Id, _: &Id) {}
    fn event(&self, e: &Event<'_>) {
        let mut v = FieldVisit::default();
        e.record(&mut v);
        let m = e.metadata();
        log(Ev::Event {
            level: lvl(m.level()),
            target: m.target().to_string(),
            fields: v.0,
            parent: par_of(e.parent(), e.is_root(), e.is_contextual()),
            cur_top: None,
        });
    }
    fn enter(&self, s: &Id) {
        log(Ev::Enter(s.into_u64()));
    }
    fn exit(&self, s: &Id) {
        log(Ev::Exit(s.into_u64()));
    }
    fn current_span(&self) -> Current {
        Current::none()
    }
}
