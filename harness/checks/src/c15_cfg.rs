// C15 part 1: imports, scenario configuration, generators (random and enumerated).

use std::collections::{BTreeSet, HashMap};
use std::io::Write as _;
use std::sync::atomic::{AtomicBool, AtomicU64, AtomicUsize, Ordering};
use std::sync::{Arc, Mutex};
use std::time::{Duration, Instant};
use tracing_appender::non_blocking::{ErrorCounter, NonBlocking, NonBlockingBuilder, WorkerGuard};
use tracing_subscriber::fmt::MakeWriter;
use vlib::run::{self, Finish};
use vlib::scripted_writer::{Call, Ctl, Pace, Res, Script, ScriptedWriter};
use vlib::stamps::stamp;
use vlib::{json, Args, ChildSpec, Map, Mode, Out, Rng, Value};

const ID: &str = "C15";
const CAPS: [usize; 4] = [1, 2, 8, 64];
/// the guard's own first timeout (sending Shutdown); a drop that took at least this long
/// makes the flush-on-drop clause inconclusive (DESIGN 5/C15)
const SLOW_DROP_US: u64 = 100_000;
/// F11: the rendezvous timeout is 1 s
const F11_DROP_US: u64 = 900_000;

#[derive(Clone, Debug, PartialEq, Eq)]
enum DropPoint {
    /// guard dropped before any producer starts
    Before,
    /// phase A, join, drop, phase B
    Between,
    /// all producers joined, then drop (handles still alive)
    After,
    /// all producers joined, every `NonBlocking` handle dropped, then the guard
    AfterHandles,
    /// drop while producers run, once `after` writes have been started
    Concurrent { after: u64 },
}
impl DropPoint {
    fn name(&self) -> &'static str {
        match self {
            DropPoint::Before => "before",
            DropPoint::Between => "between",
            DropPoint::After => "after",
            DropPoint::AfterHandles => "after_handles",
            DropPoint::Concurrent { .. } => "concurrent",
        }
    }
}

#[derive(Clone, Debug)]
struct Cfg {
    label: String,
    nprod: usize,
    /// lines per producer in phase A / phase B (B only used by `Between`)
    a: Vec<usize>,
    b: Vec<usize>,
    cap: usize,
    lossy: bool,
    drop: DropPoint,
    script: Script,
    /// producers call `make_writer()` for every line instead of keeping one clone
    per_line_clone: bool,
    /// 0 none, 1 yield between lines, 2 lock-step with the writer (queue never full)
    prod_pace: u8,
    /// 0 no; 1 wait until the worker is idle, then arm "fail the next flush", then drop
    /// (fails exactly the flush of the batch that carries Shutdown); 2 arm without waiting
    f11: u8,
    salt: u64,
    long_lines: bool,
}

impl Cfg {
    fn total_a(&self) -> usize {
        self.a.iter().sum()
    }
    fn total(&self) -> usize {
        self.total_a() + self.b.iter().sum::<usize>()
    }
    fn to_json(&self) -> Value {
        json!({
            "label": self.label, "producers": self.nprod, "lines_phase_a": self.a, "lines_phase_b": self.b,
            "capacity": self.cap, "lossy": self.lossy, "drop_point": format!("{:?}", self.drop),
            "fail_write_ordinals": self.script.fail_writes, "interrupt_write_ordinals": self.script.interrupt_writes,
            "fail_flush_ordinals": self.script.fail_flushes, "chunk": self.script.chunk,
            "stall_at_write_ordinals": self.script.stall_at, "writer_pace": format!("{:?}", self.script.pace),
            "per_line_clone": self.per_line_clone, "producer_pace": self.prod_pace,
            "fail_shutdown_flush_mode": self.f11, "salt": self.salt, "long_lines": self.long_lines,
        })
    }
}

/// The bytes of line (t, seq): `<t,seq>` + deterministic filler + `\n`.
fn make_line(salt: u64, t: usize, seq: usize, long: bool) -> Vec<u8> {
    let mut r = Rng::derive(salt, t as u64, seq as u64);
    let len = match r.below(16) {
        0 => 0,
        1 if long => 1000 + r.usize(3000),
        2..=4 => r.usize(200),
        _ => r.usize(40),
    };
    let mut v = format!("<{t},{seq}>").into_bytes();
    for _ in 0..len {
        // printable, never '\n', never '<'
        v.push(b'a' + r.below(26) as u8);
    }
    v.push(b'\n');
    v
}

/// Parse the `<t,seq>` header of a record.
fn parse_header(b: &[u8]) -> Option<(usize, usize)> {
    if b.first() != Some(&b'<') {
        return None;
    }
    let end = b.iter().position(|&c| c == b'>')?;
    let s = std::str::from_utf8(&b[1..end]).ok()?;
    let (t, q) = s.split_once(',')?;
    Some((t.parse().ok()?, q.parse().ok()?))
}

fn split_lines(rng: &mut Rng, total: usize, nprod: usize) -> Vec<usize> {
    let mut v = vec![0usize; nprod];
    if total == 0 {
        return v;
    }
    let base = total / nprod;
    for x in v.iter_mut() {
        *x = if base == 0 { rng.usize(2) } else { base / 2 + rng.usize(base + 1) };
    }
    if v.iter().all(|&x| x == 0) {
        v[0] = 1;
    }
    v
}

fn pick_set(rng: &mut Rng, k: usize, universe: u64) -> BTreeSet<u64> {
    let mut s = BTreeSet::new();
    for _ in 0..k {
        s.insert(rng.below(universe.max(1)));
    }
    s
}

fn gen_random(seed: u64, shard: u64, idx: u64) -> Cfg {
    let mut rng = Rng::derive(seed ^ 0xC15, shard, idx);
    let nprod = 1 + rng.usize(8);
    let total = match rng.below(10) {
        0..=2 => 1 + rng.usize(20),
        3..=7 => 20 + rng.usize(280),
        _ => 300 + rng.usize(1000),
    };
    let cap = *rng.pick(&CAPS);
    let lossy = rng.bool();
    let drop = match rng.weighted(&[1, 3, 4, 2, 6]) {
        0 => DropPoint::Before,
        1 => DropPoint::Between,
        2 => DropPoint::After,
        3 => DropPoint::AfterHandles,
        _ => DropPoint::Concurrent { after: rng.below(total as u64 + 1) },
    };
    let (a, b) = if drop == DropPoint::Between {
        let ta = rng.usize(total + 1);
        (split_lines(&mut rng, ta.max(1), nprod), split_lines(&mut rng, (total - ta).max(1), nprod))
    } else {
        (split_lines(&mut rng, total, nprod), vec![0; nprod])
    };
    let total: usize = a.iter().sum::<usize>() + b.iter().sum::<usize>();
    let mut script = Script::default();
    if rng.bool() {
        let kw = rng.usize(4);
        script.fail_writes = pick_set(&mut rng, kw, total as u64);
        let ki = rng.usize(3);
        script.interrupt_writes = pick_set(&mut rng, ki, total as u64);
        script.interrupt_writes.retain(|o| !script.fail_writes.contains(o));
        let kf = rng.usize(3);
        script.fail_flushes = pick_set(&mut rng, kf, (total as u64 / 4).max(3));
    }
    if script.fail_writes.is_empty() && script.interrupt_writes.is_empty() && rng.chance(1, 6) {
        script.chunk = Some(1 + rng.usize(24));
    }
    if rng.bool() {
        let ks = 1 + rng.usize(4);
        script.stall_at = pick_set(&mut rng, ks, total as u64);
    }
    script.pace = match rng.weighted(&[4, 2, 2, if total <= 300 { 1 } else { 0 }]) {
        0 => Pace::None,
        1 => Pace::Yield,
        2 => Pace::Spin(200 + rng.below(5000) as u32),
        _ => Pace::SleepUs(20 + rng.below(80) as u32),
    };
    let concurrent = matches!(drop, DropPoint::Concurrent { .. });
    let f11 = match rng.below(40) {
        0 if !concurrent => 1,
        1 => 2,
        _ => 0,
    };
    let prod_pace = match rng.below(8) {
        0 | 1 => 1,
        2 => 2,
        _ => 0,
    };
    Cfg {
        label: format!("rand:{shard}:{idx}"),
        nprod,
        a,
        b,
        cap,
        lossy,
        drop,
        script,
        per_line_clone: rng.chance(1, 5),
        prod_pace,
        f11,
        salt: rng.next_u64(),
        long_lines: rng.chance(1, 8),
    }
}

// ---- enumerated small runs: every (fault subset <= k, drop point, capacity, mode) ----

const ENUM_WRITES: u64 = 6; // 2 producers x 3 lines
const ENUM_FLUSHES: u64 = 4;

/// all subsets of {w0..w5, f0..f3} of size <= k, in a fixed order
fn enum_subsets(k: usize) -> Vec<Vec<u64>> {
    let n = ENUM_WRITES + ENUM_FLUSHES;
    let mut out: Vec<Vec<u64>> = vec![vec![]];
    let mut frontier: Vec<Vec<u64>> = vec![vec![]];
    for _ in 0..k {
        let mut next = vec![];
        for s in &frontier {
            let lo = s.last().map(|x| x + 1).unwrap_or(0);
            for e in lo..n {
                let mut t = s.clone();
                t.push(e);
                next.push(t);
            }
        }
        out.extend(next.iter().cloned());
        frontier = next;
    }
    out
}

fn enum_space(thorough: bool) -> (Vec<Vec<u64>>, Vec<usize>) {
    (enum_subsets(if thorough { 3 } else { 2 }), if thorough { CAPS.to_vec() } else { vec![1, 8] })
}

fn enum_count(thorough: bool) -> u64 {
    let (subs, caps) = enum_space(thorough);
    (subs.len() * caps.len() * 2 * 5) as u64
}

fn gen_enum(seed: u64, idx: u64, thorough: bool) -> Cfg {
    let (subs, caps) = enum_space(thorough);
    let mut i = idx as usize;
    let dp = i % 5;
    i /= 5;
    let lossy = i % 2 == 0;
    i /= 2;
    let cap = caps[i % caps.len()];
    i /= caps.len();
    let sub = &subs[i % subs.len()];
    let mut rng = Rng::derive(seed ^ 0xE15, 0, idx);
    let drop = match dp {
        0 => DropPoint::Before,
        1 => DropPoint::Between,
        2 => DropPoint::After,
        3 => DropPoint::AfterHandles,
        _ => DropPoint::Concurrent { after: 1 + rng.below(4) },
    };
    let (a, b) = if drop == DropPoint::Between { (vec![2, 1], vec![1, 2]) } else { (vec![3, 3], vec![0, 0]) };
    let mut script = Script::default();
    for &e in sub {
        if e < ENUM_WRITES {
            script.fail_writes.insert(e);
        } else {
            script.fail_flushes.insert(e - ENUM_WRITES);
        }
    }
    script.pace = if rng.bool() { Pace::None } else { Pace::Yield };
    Cfg {
        label: format!("enum:{idx}"),
        nprod: 2,
        a,
        b,
        cap,
        lossy,
        drop,
        script,
        per_line_clone: false,
        prod_pace: rng.below(3) as u8,
        f11: 0,
        salt: rng.next_u64(),
        long_lines: false,
    }
}
