// C15 part 2: executing one scenario against the real NonBlocking / WorkerGuard and recording
// the history at the API boundary.

#[derive(Clone, Debug)]
struct LineRec {
    t: usize,
    seq: usize,
    phase: u8,
    len: usize,
    call: u64,
    ret: u64,
    /// Some(n) = write returned Ok(n)
    ok: Option<usize>,
    /// dropped_lines() read before the call stamp / after the ret stamp
    d_before: u64,
    d_after: u64,
    /// upper bound on the number of lines that can have been in the queue at any moment of
    /// this call (this one included): writes started by `ret` minus lines the underlying
    /// writer had finished before `call`
    outstanding_bound: u64,
}

#[derive(Clone, Debug)]
struct DropRec {
    call: u64,
    ret: u64,
    dur_us: u64,
}

struct History {
    lines: Vec<LineRec>,
    drop: DropRec,
    wlog: Vec<Call>,
    dropped_final: u64,
    /// stamp of the underlying writer's Drop, if it happened within the end-of-run wait
    writer_dropped: Option<u64>,
    gate_timeouts: u64,
    stalls: u64,
    opens: Vec<u64>,
    /// mode-1 F11 arming gave up waiting for an idle worker
    idle_wait_failed: bool,
    armed: bool,
    /// panics that escaped a producer's `write` call
    panics: Vec<String>,
}

struct Shared {
    ctl: Ctl,
    counter: ErrorCounter,
    started: AtomicU64,
    finished: AtomicUsize,
    lockstep_off: AtomicBool,
}

fn producer(
    cfg: &Cfg,
    sh: &Shared,
    mut h: NonBlocking,
    t: usize,
    from: usize,
    to: usize,
    phase: u8,
) -> Vec<LineRec> {
    struct Fin<'a>(&'a AtomicUsize);
    impl Drop for Fin<'_> {
        fn drop(&mut self) {
            self.0.fetch_add(1, Ordering::SeqCst);
        }
    }
    let _fin = Fin(&sh.finished);
    let mut recs = Vec::with_capacity(to - from);
    for seq in from..to {
        let line = make_line(cfg.salt, t, seq, cfg.long_lines);
        let done_before = sh.ctl.lines_done();
        let d_before = sh.counter.dropped_lines() as u64;
        sh.started.fetch_add(1, Ordering::SeqCst);
        let call = stamp();
        let r = if cfg.per_line_clone {
            let mut w = h.make_writer();
            w.write(&line)
        } else {
            h.write(&line)
        };
        let ret = stamp();
        let d_after = sh.counter.dropped_lines() as u64;
        let started_after = sh.started.load(Ordering::SeqCst);
        let ok = r.as_ref().ok().copied();
        recs.push(LineRec {
            t,
            seq,
            phase,
            len: line.len(),
            call,
            ret,
            ok,
            d_before,
            d_after,
            outstanding_bound: started_after.saturating_sub(done_before),
        });
        match cfg.prod_pace {
            1 => std::thread::yield_now(),
            2 if ok.is_some() && !sh.lockstep_off.load(Ordering::Relaxed) => {
                // wait (orchestration only) until everything started so far has been
                // finished by the writer or counted as dropped
                let t0 = Instant::now();
                loop {
                    let resolved = sh.ctl.lines_done() + sh.counter.dropped_lines() as u64;
                    if resolved >= sh.started.load(Ordering::SeqCst) {
                        break;
                    }
                    if t0.elapsed() > Duration::from_millis(3) {
                        sh.lockstep_off.store(true, Ordering::Relaxed);
                        break;
                    }
                    std::thread::yield_now();
                }
            }
            _ => {}
        }
    }
    recs
}

fn do_drop(ctl: &Ctl, guard: &mut Option<WorkerGuard>) -> DropRec {
    // the gate is never closed across a guard drop
    ctl.seal_open();
    let g = guard.take().expect("HARNESS: guard dropped twice");
    let t0 = Instant::now();
    let call = stamp();
    drop(g);
    let ret = stamp();
    DropRec { call, ret, dur_us: t0.elapsed().as_micros() as u64 }
}

/// mode 1: wait until the worker is idle (everything started is resolved and the last
/// underlying call was a flush), then arm the one-shot flush failure.
fn arm_f11(cfg: &Cfg, sh: &Shared, idle_wait_failed: &mut bool) -> bool {
    if cfg.f11 == 0 {
        return false;
    }
    // the drop is imminent: no more stalls from here on
    sh.ctl.seal_open();
    if cfg.f11 == 1 {
        let t0 = Instant::now();
        loop {
            let resolved = sh.ctl.lines_done() + sh.counter.dropped_lines() as u64;
            let idle = resolved >= sh.started.load(Ordering::SeqCst)
                && (sh.ctl.last_was_flush() || sh.ctl.writes() == 0);
            if idle {
                break;
            }
            if t0.elapsed() > Duration::from_millis(500) {
                *idle_wait_failed = true;
                return false;
            }
            std::thread::yield_now();
        }
        // let the worker get from the flush back into recv()
        std::thread::sleep(Duration::from_micros(200));
    }
    sh.ctl.arm_fail_next_flush();
    true
}

/// Run one phase: producers write lines [from, to) each; the controller services writer
/// stalls and, if `drop_after` is set, drops the guard once that many writes were started.
#[allow(clippy::too_many_arguments)]
fn run_phase(
    cfg: &Arc<Cfg>,
    sh: &Arc<Shared>,
    nb: &NonBlocking,
    ranges: &[(usize, usize)],
    phase: u8,
    drop_after: Option<u64>,
    guard: &mut Option<WorkerGuard>,
    drop_rec: &mut Option<DropRec>,
    armed: &mut bool,
    lines: &mut Vec<LineRec>,
    panics: &mut Vec<String>,
) {
    sh.finished.store(0, Ordering::SeqCst);
    let n = ranges.len();
    let base = sh.started.load(Ordering::SeqCst);
    let mut hs = vec![];
    for (t, &(from, to)) in ranges.iter().enumerate() {
        let (cfg, sh, h) = (cfg.clone(), sh.clone(), nb.clone());
        hs.push(
            std::thread::Builder::new()
                .name(format!("p{t}"))
                .spawn(move || producer(&cfg, &sh, h, t, from, to, phase))
                .expect("HARNESS: spawn producer"),
        );
    }
    let mut spins = 0u32;
    loop {
        let done = sh.finished.load(Ordering::SeqCst) == n;
        if let Some(th) = drop_after {
            if drop_rec.is_none() && (sh.started.load(Ordering::SeqCst) - base >= th || done) {
                if cfg.f11 == 2 {
                    sh.ctl.arm_fail_next_flush();
                    *armed = true;
                }
                *drop_rec = Some(do_drop(&sh.ctl, guard));
            }
        }
        if sh.ctl.is_stalled() {
            // keep the gate closed until the queue has filled up (orchestration only)
            let t0 = Instant::now();
            loop {
                let out = sh.started.load(Ordering::SeqCst).saturating_sub(sh.ctl.lines_done());
                if out >= cfg.cap as u64 + 2
                    || sh.finished.load(Ordering::SeqCst) == n
                    || t0.elapsed() > Duration::from_millis(20)
                {
                    break;
                }
                std::thread::yield_now();
            }
            sh.ctl.open();
        }
        if done {
            break;
        }
        spins += 1;
        if spins % 64 == 0 {
            std::thread::sleep(Duration::from_micros(20));
        } else {
            std::thread::yield_now();
        }
    }
    for h in hs {
        match h.join() {
            Ok(v) => lines.extend(v),
            Err(p) => panics.push(run::panic_msg(&p)),
        }
    }
}

fn execute(cfg: &Arc<Cfg>) -> History {
    let (ctl, w) = ScriptedWriter::new(cfg.script.clone());
    let (nb, guard) = NonBlockingBuilder::default()
        .buffered_lines_limit(cfg.cap)
        .lossy(cfg.lossy)
        .thread_name("c15-worker")
        .finish(w);
    let sh = Arc::new(Shared {
        ctl: ctl.clone(),
        counter: nb.error_counter(),
        started: AtomicU64::new(0),
        finished: AtomicUsize::new(0),
        lockstep_off: AtomicBool::new(false),
    });
    let mut guard = Some(guard);
    let mut nb = Some(nb);
    let mut drop_rec: Option<DropRec> = None;
    let mut lines = vec![];
    let mut idle_wait_failed = false;
    let mut armed = false;
    let mut panics: Vec<String> = vec![];
    let ra: Vec<(usize, usize)> = cfg.a.iter().map(|&n| (0, n)).collect();
    let rb: Vec<(usize, usize)> = cfg.a.iter().zip(cfg.b.iter()).map(|(&a, &b)| (a, a + b)).collect();

    match cfg.drop.clone() {
        DropPoint::Before => {
            armed = arm_f11(cfg, &sh, &mut idle_wait_failed);
            drop_rec = Some(do_drop(&ctl, &mut guard));
            run_phase(cfg, &sh, nb.as_ref().unwrap(), &ra, 0, None, &mut guard, &mut drop_rec, &mut armed, &mut lines, &mut panics);
        }
        DropPoint::Between => {
            run_phase(cfg, &sh, nb.as_ref().unwrap(), &ra, 0, None, &mut guard, &mut drop_rec, &mut armed, &mut lines, &mut panics);
            armed = arm_f11(cfg, &sh, &mut idle_wait_failed);
            drop_rec = Some(do_drop(&ctl, &mut guard));
            run_phase(cfg, &sh, nb.as_ref().unwrap(), &rb, 1, None, &mut guard, &mut drop_rec, &mut armed, &mut lines, &mut panics);
        }
        DropPoint::After | DropPoint::AfterHandles => {
            run_phase(cfg, &sh, nb.as_ref().unwrap(), &ra, 0, None, &mut guard, &mut drop_rec, &mut armed, &mut lines, &mut panics);
            if cfg.drop == DropPoint::AfterHandles {
                drop(nb.take());
            }
            armed = arm_f11(cfg, &sh, &mut idle_wait_failed);
            drop_rec = Some(do_drop(&ctl, &mut guard));
        }
        DropPoint::Concurrent { after } => {
            run_phase(cfg, &sh, nb.as_ref().unwrap(), &ra, 0, Some(after), &mut guard, &mut drop_rec, &mut armed, &mut lines, &mut panics);
        }
    }
    let drop_rec = match drop_rec {
        Some(d) => d,
        None => do_drop(&ctl, &mut guard),
    };
    drop(nb.take());
    // quiescence: with the guard and every handle gone the worker must wind down
    let writer_dropped = ctl.wait_dropped(Duration::from_secs(5));
    ctl.disarm_fail_next_flush();
    History {
        lines,
        drop: drop_rec,
        wlog: ctl.log(),
        dropped_final: sh.counter.dropped_lines() as u64,
        writer_dropped,
        gate_timeouts: ctl.gate_timeouts(),
        stalls: ctl.stalls(),
        opens: ctl.opens(),
        idle_wait_failed,
        armed,
        panics,
    }
}
