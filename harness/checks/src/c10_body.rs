// C10 driver, included by checks/src/bin/c10.rs (committed corpus) and by the throw-away
// crate the thorough tier builds around a second, seed-derived corpus.
//
// Every generated case (macro x syntactic form x value-type vector) is called with boundary
// and seeded random values under five recording collectors, each in its own child process
// (per-callsite interest is cached process-wide):
//   a  Interest::always                         a2 Interest::sometimes + enabled()==true
//   b  Interest::never                          c  Interest::sometimes + enabled()==false
//   d  accepts everything, max_level_hint one step below the callsite's level
// Oracle: enabled => the typed visitor's list == the generated expectation (order,
// multiplicity, visitor method, value / Display / Debug text, "message" first), Empty and
// undeclared / foreign fields never visited, every evaluation counter == 1;
// disabled => nothing delivered, every counter == 0, span handle disabled, enabled! false.

use std::sync::Arc;
use std::time::Instant;
use support::*;
use tracing_core::dispatch::Dispatch;
use vlib::run::{self, Finish};
use vlib::{json, Args, ChildSpec, Map, Mode, Out, Value};

const ID: &str = "C10";
const NCFG: u64 = 5;

fn main() {
    let args = run::parse_args();
    match args.mode.clone() {
        Mode::Parent => parent(&args),
        Mode::Child(_) => child(&args),
        Mode::Replay(p) => run::replay(ID, &p),
    }
}

fn default_vectors(args: &Args) -> u64 {
    // 24 boundary vectors (every boundary value of every parameter slot), the rest seeded random
    args.tier.pick(1000, 10000)
}

fn vectors_of(args: &Args) -> u64 {
    args.get_u64("vectors", default_vectors(args))
}

fn parent(args: &Args) {
    let t0 = Instant::now();
    let mut out = Out::new();
    let parts = args.get_u64("parts", args.tier.pick(3, 13));
    let spec = ChildSpec::new("cfg", NCFG * parts)
        .arg("vectors", vectors_of(args))
        .timeout(900);
    let ends = run::run_children(args, &spec, &mut out);
    run::classify_ends(&ends, &mut out, true);
    if args.get("merged") == Some("1") {
        // second-corpus build: hand the merged result to the driving process
        out.emit();
        std::process::exit(0);
    }
    let mut extra = Map::new();
    extra.insert("corpus_cases".into(), json!(corpus::all().len()));
    extra.insert("corpus_seed".into(), json!(corpus::CORPUS_SEED));
    extra.insert("vectors_per_case".into(), json!(vectors_of(args)));
    if args.tier == run::Tier::Thorough && args.get("second") != Some("0") {
        second_corpus(args, &mut out, &mut extra);
    }
    let n = corpus::all().len() as u64;
    run::finish(
        Finish {
            id: ID,
            args,
            t0,
            rule: "evaluations = (generated case x value vector x collector configuration) judged; \
                   every case exercises the mechanism (a real macro invocation with >= 1 field / message / probe); \
                   distinct = distinct (macro, syntactic form signature, value-type vector, collector configuration) cells \
                   (form signature = prefixes + per-field name syntax and value syntax + message form + trailing comma + later record ops)",
            assumptions: vec![
                "harness built without tracing's `log` feature (with it, disabled macros evaluate their fields while no dispatcher exists)".into(),
                "one collector configuration per child process, collectors installed with with_default only; in (d) one collector per level, earlier ones dropped first".into(),
                "shorthand `ident` fields are plain variable reads: their evaluation is not observable and not counted; dotted shorthands are counted through Deref".into(),
                "arguments of Span::record / record_all! are ordinary call arguments (always evaluated) and are not part of the evaluation-count clause".into(),
                "raw-identifier names (r#type) are accepted under either spelling".into(),
                "record_all! is judged for its documented use (all fields, declaration order); naming a subset is an observation only (VERIF_C10_STRICT_RECORD_ALL=1 makes it a verdict)".into(),
                "forms the pinned macros do not parse (see fixup() in harness/gen/c10.py) are not generated; compile-time behaviour is not judged".into(),
            ],
            min_evals: n * (default_vectors(args) / 4) * NCFG,
            min_distinct: n * NCFG / 4,
            exhaustive: false,
            extra,
        },
        out,
    );
}

// ---------------------------------------------------------------------------------- child

fn child(args: &Args) {
    let mut out = Out::new();
    let nparts = (args.nshards / NCFG).max(1);
    let cfg_ix = args.shard % NCFG;
    let part = args.shard / NCFG;
    let only = args.get("only").and_then(|s| s.parse::<u32>().ok());
    let only_vec = args.get("vec").and_then(|s| s.parse::<usize>().ok());
    let vectors = vectors_of(args) as usize;
    let all = corpus::all();
    if all.is_empty() {
        panic!("HARNESS: empty corpus");
    }
    let mine: Vec<&'static Case> = all
        .iter()
        .copied()
        .enumerate()
        .filter(|(i, c)| match only {
            Some(id) => c.id == id,
            None => (*i as u64) % nparts == part,
        })
        .map(|(_, c)| c)
        .collect();
    let run = Run { args, vectors, only_vec, reported: Default::default() };
    match cfg_ix {
        0 => run.group(Cfg::Always, &mine, &mut out),
        1 => run.group(Cfg::DynOn, &mine, &mut out),
        2 => run.group(Cfg::Never, &mine, &mut out),
        3 => run.group(Cfg::DynOff, &mine, &mut out),
        _ => {
            // one capping collector per callsite level; the hint is one step less verbose
            for level in 1..=5usize {
                let g: Vec<&'static Case> = mine.iter().copied().filter(|c| c.level == level).collect();
                if !g.is_empty() {
                    run.group(Cfg::Cap(level - 1), &g, &mut out);
                }
            }
        }
    }
    out.emit();
}

struct Run<'a> {
    args: &'a Args,
    vectors: usize,
    only_vec: Option<usize>,
    /// cases that already have a witness in this child (further violating vectors of the
    /// same case are only counted, so that the witness slots show different cases)
    reported: std::cell::RefCell<std::collections::HashSet<u32>>,
}

/// `recording an undeclared field is ignored`: value sets built by hand (`FieldSet::value_set`)
/// whose keys come from two callsites, handed to `Span::new`, `Span::record_all` and
/// `Event::dispatch`.  Every position of the foreign key (first, middle, last, all).
fn mixed_value_sets(col: &Arc<RecCollector>, out: &mut Out) -> Result<(), Value> {
    use tracing::field::Empty;
    let sa = tracing::span!(tracing::Level::ERROR, "c10_mix_a", foo = Empty, bar = Empty, baz = Empty);
    let sb = tracing::span!(tracing::Level::ERROR, "c10_mix_b", foo = Empty, bar = Empty, baz = Empty);
    col.take();
    let (Some(ma), Some(mb)) = (sa.metadata(), sb.metadata()) else {
        return Ok(());
    };
    let names = ["foo", "bar", "baz"];
    let fa: Vec<tracing_core::Field> = names.iter().map(|n| ma.fields().field(n).expect("HARNESS: field")).collect();
    let fb: Vec<tracing_core::Field> = names.iter().map(|n| mb.fields().field(n).expect("HARNESS: field")).collect();
    let vals: [u64; 3] = [11, 22, 33];
    // bit i of `mask` set = key i is taken from the OTHER callsite
    for mask in 0u8..8 {
        let keys: Vec<&tracing_core::Field> = (0..3).map(|i| if mask >> i & 1 == 1 { &fb[i] } else { &fa[i] }).collect();
        let arr = [
            (keys[0], Some(&vals[0] as &dyn tracing::field::Value)),
            (keys[1], Some(&vals[1] as &dyn tracing::field::Value)),
            (keys[2], Some(&vals[2] as &dyn tracing::field::Value)),
        ];
        let vs = ma.fields().value_set(&arr);
        let want: Vec<(String, u64)> = (0..3).filter(|i| mask >> i & 1 == 0).map(|i| (names[i].to_string(), vals[i])).collect();
        let seen = |fields: &Vec<Seen>| -> Vec<(String, u64)> {
            fields.iter().map(|s| (s.name.clone(), if let Rec::U64(v) = &s.rec { *v } else { u64::MAX })).collect()
        };
        let mut check = |what: &str, got: Vec<Got>, pick: &dyn Fn(&Got) -> Option<Vec<(String, u64)>>| -> Result<(), Value> {
            out.evals += 1;
            out.count("mixed_callsite_value_sets_judged", 1);
            let visited: Vec<Vec<(String, u64)>> = got.iter().filter_map(pick).collect();
            if visited.len() != 1 || visited[0] != want {
                return Err(json!({"through": what, "keys_from_the_other_callsite(bitmask foo,bar,baz)": mask,
                                  "expected_visits": format!("{want:?}"), "observed": format!("{visited:?}"),
                                  "ValueSet::len": vs.len(), "ValueSet::is_empty": vs.is_empty()}));
            }
            Ok(())
        };
        if vs.len() != want.len() || vs.is_empty() != want.is_empty() {
            return Err(json!({"through": "ValueSet::len / is_empty", "mask": mask, "len": vs.len(), "is_empty": vs.is_empty(), "declared_keys_with_values": want.len()}));
        }
        let s = tracing::Span::new(ma, &vs);
        check("Span::new", col.take(), &|g| if let Got::NewSpan { fields, .. } = g { Some(seen(fields)) } else { None })?;
        sa.record_all(&vs);
        check("Span::record_all", col.take(), &|g| if let Got::Record { fields, .. } = g { Some(seen(fields)) } else { None })?;
        tracing::Event::dispatch(ma, &vs);
        check("Event::dispatch", col.take(), &|g| if let Got::Event { fields, .. } = g { Some(seen(fields)) } else { None })?;
        drop(s);
        col.take();
    }
    // `Span::record` with a `Field` key taken from ANOTHER callsite that declares a field of the
    // same name: an undeclared field for this span, ignored (also: `has_field`, `field`)
    for (i, name) in names.iter().enumerate() {
        sa.record(&fb[i], 77u64);
        out.evals += 1;
        out.count("record_calls_with_a_foreign_callsites_field_key", 1);
        let visited: Vec<Vec<Seen>> = col.take().into_iter().filter_map(|g| if let Got::Record { fields, .. } = g { Some(fields) } else { None }).collect();
        if visited.iter().any(|f| !f.is_empty()) {
            return Err(json!({"through": "Span::record(&Field of another callsite, value)", "field_name": name,
                              "visited": visited.iter().map(|f| f.iter().map(|s| s.to_json()).collect::<Vec<_>>()).collect::<Vec<_>>(), "expected": "nothing visited"}));
        }
        if sa.has_field(&fb[i]) {
            return Err(json!({"through": "Span::has_field(&Field of another callsite)", "field_name": name, "answer": true}));
        }
        // its own key still works
        sa.record(&fa[i], 78u64);
        let visited: Vec<Vec<(String, u64)>> = col.take().into_iter().filter_map(|g| if let Got::Record { fields, .. } = g { Some(fields.iter().map(|s| (s.name.clone(), if let Rec::U64(v) = &s.rec { *v } else { u64::MAX })).collect()) } else { None }).collect();
        if visited != vec![vec![(name.to_string(), 78u64)]] {
            return Err(json!({"through": "Span::record(&own Field, value)", "field_name": name, "visited": format!("{visited:?}")}));
        }
    }
    Ok(())
}

impl Run<'_> {
    fn group(&self, cfg: Cfg, cases: &[&'static Case], out: &mut Out) {
        let col = Arc::new(RecCollector::new(cfg));
        // the collector reaches Dispatch::new as itself, or behind tracing-core's `Box<dyn Collect>`
        // / `Arc<C>` implementations (which must forward every method, `register_callsite` included)
        let how = ((self.args.shard / NCFG + self.args.seed) % 3) as usize;
        let disp = match how {
            0 => Dispatch::new(Shared(col.clone())),
            1 => {
                let b: Box<dyn tracing_core::Collect + Send + Sync> = Box::new(Shared(col.clone()));
                Dispatch::new(b)
            }
            _ => Dispatch::new(Arc::new(Shared(col.clone()))),
        };
        out.count(["groups_collector_as_itself", "groups_collector_behind_Box_dyn", "groups_collector_behind_Arc"][how], 1);
        tracing_core::dispatch::with_default(&disp, || {
            let p = tracing::span!(tracing::Level::ERROR, "c10_parent");
            col.take();
            if matches!(cfg, Cfg::Always) {
                if let Err(w) = mixed_value_sets(&col, out) {
                    out.violation("a hand-built value set whose keys mix two callsites: the keys of the other callsite are undeclared fields and must be ignored, the declared ones visited once each in order", w);
                    return;
                }
            }
            for case in cases {
                let mut forms_done = false;
                for j in 0..self.vectors {
                    if let Some(v) = self.only_vec {
                        if v != j {
                            continue;
                        }
                    }
                    // the two `sometimes` collectors change their mind between invocations of one
                    // callsite (every second vector runs under the opposite answer): each
                    // invocation is judged by the answer in force when it is made
                    let eff = match cfg {
                        Cfg::DynOn if j % 2 == 1 => Cfg::DynOff,
                        Cfg::DynOff if j % 2 == 1 => Cfg::DynOn,
                        c => c,
                    };
                    col.dyn_on.store(matches!(eff, Cfg::DynOn), std::sync::atomic::Ordering::SeqCst);
                    self.one(eff, &col, &p, case, j, out);
                    if !forms_done {
                        forms_done = true;
                        out.distinct_str(&format!("{}|{}|{}|{}", case.mac, case.form, case.types, cfg.name()));
                        out.set("macros", case.mac);
                        for t in case.types.split(',') {
                            out.set("value_kinds", t);
                        }
                        // form signature: mac | prefixes | fields | [msg:..] | [trailing-comma] | [later:..]
                        let parts: Vec<&str> = case.form.split(" | ").collect();
                        out.set("prefix_combinations", format!("{} {}", if case.kind == Kind::Span { "span" } else if case.kind == Kind::Event { "event" } else { "enabled" }, parts.get(1).copied().unwrap_or("")));
                        for f in parts.get(2).copied().unwrap_or("").split(';').filter(|f| !f.is_empty()) {
                            out.set("field_syntax(name=value)", f);
                        }
                        for p in parts.iter().skip(3) {
                            if let Some(m) = p.strip_prefix("msg:") {
                                out.set("message_forms", m);
                            } else if let Some(l) = p.strip_prefix("later:") {
                                for op in l.split(',') {
                                    out.set("later_ops", op);
                                }
                            } else {
                                out.set("other_form_flags", *p);
                            }
                        }
                        out.count(
                            match case.kind {
                                Kind::Event => "cells_event",
                                Kind::Span => "cells_span",
                                Kind::Probe => "cells_probe",
                            },
                            1,
                        );
                    }
                }
            }
            drop(p);
            col.take();
        });
        out.count("callsite_registrations_seen", col.registrations.load(std::sync::atomic::Ordering::Relaxed));
        drop(disp);
    }

    fn one(&self, cfg: Cfg, col: &RecCollector, p: &tracing::Span, case: &'static Case, j: usize, out: &mut Out) {
        let seed = self.args.seed ^ (corpus::CORPUS_SEED << 40);
        let mut src = Src::new(seed, case.id as u64, j);
        let res = run::catch(|| {
            let o = (case.call)(&mut src, p);
            let t = ticks(o.nticks);
            (o, t)
        });
        let log = col.take();
        out.evals += 1;
        out.count(&format!("invocations[{}]", cfg.name()), 1);
        let (problems, o, t) = match res {
            Err(panic) => (vec![format!("panic inside the macro invocation: {panic}")], None, vec![]),
            Ok((o, t)) => {
                let pr = judge(case, cfg, &o, &t, &log, out);
                (pr, Some(o), t)
            }
        };
        // record_all! with only a SUBSET of the declared fields: record_all! is not among the
        // macros the property quantifies over and its documentation only shows the
        // all-fields-in-order use, so a mis-named record here is reported as an observation
        // (evidence: observed_sets.observations), not as a verdict, unless
        // VERIF_C10_STRICT_RECORD_ALL=1.
        let mut problems = problems;
        if !problems.is_empty()
            && case.form.contains("record_all_subset")
            && cfg.enables()
            && problems.iter().all(|p| p.starts_with("record call #"))
            && std::env::var("VERIF_C10_STRICT_RECORD_ALL").ok().as_deref() != Some("1")
        {
            out.count("observation[record_all! with a subset of the fields records under another field's name]", 1);
            let seen: Vec<String> = log
                .iter()
                .filter_map(|g| match g {
                    Got::Record { fields, .. } => Some(fields.iter().map(|s| s.name.clone()).collect::<Vec<_>>().join(",")),
                    _ => None,
                })
                .collect();
            let want: Vec<String> = o
                .as_ref()
                .map(|o| o.later.iter().map(|l| l.iter().map(|e| e.name.to_string()).collect::<Vec<_>>().join(",")).collect())
                .unwrap_or_default();
            if self.reported.borrow_mut().insert(case.id) {
                out.set(
                    "observations",
                    format!(
                        "case {} `{}`: record_all! named field(s) [{}], the collector's visitor was shown field(s) [{}] (values are assigned to the span's fields by position)",
                        case.id,
                        case.src,
                        want.join(" | "),
                        seen.join(" | ")
                    ),
                );
            }
            problems.clear();
        }
        let want_sample = problems.is_empty() && cfg == Cfg::Always && out.samples.len() < 2 && j == 3 && case.id % 389 == 7;
        if problems.is_empty() && !want_sample {
            return;
        }
        if !problems.is_empty() {
            out.count("violating_invocations", 1);
            if !self.reported.borrow_mut().insert(case.id) {
                return;
            }
            out.count("violating_cells", 1);
        }
        // printable inputs: same values again (same seed), this time with `show`
        let mut s2 = Src::new(seed, case.id as u64, j);
        s2.show = true;
        let inputs = run::catch(|| (case.call)(&mut s2, p)).map(|o| o.inputs).unwrap_or_default();
        col.take();
        let exp = o.as_ref().map(|o| {
            json!({
                "first": o.first.iter().map(|e| e.to_json()).collect::<Vec<_>>(),
                "later_records": o.later.iter().map(|l| l.iter().map(|e| e.to_json()).collect::<Vec<_>>()).collect::<Vec<_>>(),
            })
        });
        let w = json!({
            "case": case.id, "corpus_seed": corpus::CORPUS_SEED, "macro": case.mac, "form": case.form, "value_types": case.types,
            "invocation": case.src, "collector": cfg.name(), "collector_detail": format!("{cfg:?}"),
            "vector": j, "inputs": inputs,
            "expected_if_enabled": exp,
            "observed_log": log.iter().map(|g| g.to_json()).collect::<Vec<_>>(),
            "evaluation_counters": t,
            "span_disabled": o.as_ref().and_then(|o| o.span_disabled),
            "enabled_macro_result": o.as_ref().and_then(|o| o.probe),
            "problems": problems,
        });
        if problems.is_empty() {
            out.sample(w);
            return;
        }
        let mut w = w;
        let mut ca = run::raw_argv();
        ca.retain(|a| !a.starts_with("only=") && !a.starts_with("vec="));
        ca.push(format!("only={}", case.id));
        ca.push(format!("vec={j}"));
        if corpus::CORPUS_SEED == 0 {
            w["child_args"] = json!(ca);
        } else {
            // second corpus: the case lives in the throw-away binary, `c10 --replay` cannot re-execute it
            w["rerun_cmd"] = json!(format!(
                "{} {}",
                std::env::current_exe().map(|p| p.display().to_string()).unwrap_or_default(),
                ca.join(" ")
            ));
            w["child_args"] = json!(["second-corpus witness: re-execute with rerun_cmd (regenerate with harness/gen/c10.py --seed <corpus_seed> --random 700 if the crate is gone)"]);
        }
        out.violation(format!("{} [{}] {}: {}", case.mac, cfg.name(), case.form, problems[0]), w);
    }
}

// ---------------------------------------------------------------------------------- oracle

fn cmp_fields(what: &str, exp: &[E], seen: &[Seen]) -> Option<String> {
    let name_ok = |e: &E, s: &Seen| s.name == e.name || e.alt.map(|a| a == s.name).unwrap_or(false);
    if exp.len() == seen.len() && exp.iter().zip(seen).all(|(e, s)| name_ok(e, s) && e.rec.same(&s.rec)) {
        return None;
    }
    // classify the first deviation
    for (i, e) in exp.iter().enumerate() {
        match seen.get(i) {
            None => {
                return Some(format!("{what}: field `{}` (#{i}) was not visited ({} of {} expected visits seen)", e.name, seen.len(), exp.len()));
            }
            Some(s) if !name_ok(e, s) => {
                let elsewhere = seen.iter().filter(|x| name_ok(e, x)).count();
                return Some(if elsewhere == 1 && exp.len() == seen.len() {
                    format!("{what}: order differs: position {i} expected `{}`, visited `{}`", e.name, s.name)
                } else if elsewhere > 1 {
                    format!("{what}: field `{}` visited {elsewhere} times", e.name)
                } else {
                    format!("{what}: position {i} expected field `{}`, visited `{}`", e.name, s.name)
                });
            }
            Some(s) if e.rec.method() != s.rec.method() => {
                return Some(format!(
                    "{what}: field `{}` went through {} instead of {}",
                    e.name,
                    s.rec.method(),
                    e.rec.method()
                ));
            }
            Some(s) if !e.rec.same(&s.rec) => {
                return Some(format!("{what}: field `{}` ({}) carries a different value / text", e.name, e.rec.method()));
            }
            _ => {}
        }
    }
    let extra = &seen[exp.len()..];
    Some(format!(
        "{what}: {} unexpected extra visit(s), first `{}` via {}",
        extra.len(),
        extra[0].name,
        extra[0].rec.method()
    ))
}

fn judge(case: &Case, cfg: Cfg, o: &Outcome, t: &[u32], log: &[Got], out: &mut Out) -> Vec<String> {
    let mut pr = vec![];
    // auxiliary spans (second callsite of the foreign-field forms) are not the case's own
    let aux_ids: Vec<u64> = log
        .iter()
        .filter_map(|g| match g {
            Got::NewSpan { id, name, .. } if name.ends_with("_aux") => Some(*id),
            _ => None,
        })
        .collect();
    let deliveries: Vec<&Got> = log
        .iter()
        .filter(|g| match g {
            Got::EnabledQ { .. } => false,
            Got::NewSpan { id, .. } | Got::Record { id, .. } => !cfg.enables() || !aux_ids.contains(id),
            _ => true,
        })
        .collect();
    out.count("evaluation_counters_judged", t.len() as u64);
    if cfg.enables() {
        for (k, &n) in t.iter().enumerate() {
            if n != 1 {
                pr.push(format!("expression #{k} was evaluated {n} times although the callsite is enabled"));
                break;
            }
        }
        match case.kind {
            Kind::Event => {
                match deliveries.as_slice() {
                    [Got::Event { fields, level, .. }] => {
                        if *level != case.level {
                            pr.push(format!("the delivered event's metadata level is {} (1 = ERROR .. 5 = TRACE), the macro form says {}", level, case.level));
                        }
                        count_visits(fields, out);
                        note_alt(&o.first, fields, out);
                        if let Some(p) = cmp_fields("event", &o.first, fields) {
                            pr.push(p);
                        }
                    }
                    [] => pr.push("no event was delivered although the callsite is enabled".into()),
                    _ => pr.push(format!("expected exactly one event, the collector saw {} deliveries", deliveries.len())),
                }
            }
            Kind::Span => {
                if o.span_disabled != Some(false) {
                    pr.push("the macro returned a disabled span although the callsite is enabled".into());
                }
                match deliveries.split_first() {
                    Some((Got::NewSpan { id, fields, level, .. }, rest)) => {
                        if *level != case.level {
                            pr.push(format!("the new span's metadata level is {} (1 = ERROR .. 5 = TRACE), the macro form says {}", level, case.level));
                        }
                        count_visits(fields, out);
                        note_alt(&o.first, fields, out);
                        if let Some(p) = cmp_fields("new_span", &o.first, fields) {
                            pr.push(p);
                        }
                        let mut later_seen: Vec<&Vec<Seen>> = vec![];
                        for g in rest {
                            match g {
                                Got::Record { id: rid, fields } if rid == id => {
                                    out.count("record_calls_seen", 1);
                                    if fields.is_empty() {
                                        out.count("record_calls_visiting_nothing", 1);
                                    } else {
                                        count_visits(fields, out);
                                        later_seen.push(fields);
                                    }
                                }
                                other => {
                                    pr.push(format!("unexpected delivery after new_span: {}", other.to_json()));
                                }
                            }
                        }
                        if later_seen.len() != o.later.len() {
                            pr.push(format!(
                                "{} later record call(s) visited something, expected {} (Empty values and undeclared / foreign fields must not be visited)",
                                later_seen.len(),
                                o.later.len()
                            ));
                        } else {
                            for (i, (e, s)) in o.later.iter().zip(&later_seen).enumerate() {
                                if let Some(p) = cmp_fields(&format!("record call #{i}"), e, s) {
                                    pr.push(p);
                                }
                            }
                        }
                    }
                    _ => pr.push("no new_span was delivered first although the callsite is enabled".into()),
                }
            }
            Kind::Probe => {
                if o.probe != Some(true) {
                    pr.push(format!("enabled! returned {:?} under an enabling collector", o.probe));
                }
                if !deliveries.is_empty() {
                    pr.push("enabled! caused a delivery".into());
                }
            }
        }
    } else {
        if let Some((k, n)) = t.iter().enumerate().find(|(_, &n)| n != 0) {
            pr.push(format!("expression #{k} was evaluated {n} time(s) although the callsite is disabled ({})", cfg.name()));
        }
        if let Some(g) = deliveries.first() {
            pr.push(format!("delivered although the callsite is disabled ({}): {}", cfg.name(), g.to_json()));
        }
        match case.kind {
            Kind::Span if o.span_disabled != Some(true) => {
                pr.push("the macro returned an enabled span although the callsite is disabled".into())
            }
            Kind::Probe if o.probe != Some(false) => {
                pr.push(format!("enabled! returned {:?} under a disabling collector", o.probe))
            }
            _ => {}
        }
    }
    pr
}

fn note_alt(exp: &[E], seen: &[Seen], out: &mut Out) {
    for (e, s) in exp.iter().zip(seen) {
        if e.alt.is_some() {
            out.set("raw_identifier_names_seen_as", s.name.clone());
        }
    }
}

fn count_visits(fields: &[Seen], out: &mut Out) {
    for s in fields {
        out.count(&format!("visits[{}]", s.rec.method()), 1);
    }
}

// ---------------------------------------------------------------------------------- second corpus

/// Thorough tier: a second corpus generated from VERIF_SEED, compiled into a throw-away
/// crate (same driver, same support module) and run the same way.  Needs python3 and
/// cargo; when either is missing this part is reported as inconclusive, never as a verdict.
fn second_corpus(args: &Args, out: &mut Out, extra: &mut Map<String, Value>) {
    use std::path::PathBuf;
    use std::process::Command;
    let checks_dir = PathBuf::from(env!("CARGO_MANIFEST_DIR"));
    let harness = checks_dir.parent().expect("HARNESS: checks dir has no parent").to_path_buf();
    let gen = harness.join("gen").join("c10.py");
    let dir = run::verif_root().join("evidence").join("tmp").join("c10x");
    let src = dir.join("src");
    let gen_out = src.join("gen_c10");
    let _ = std::fs::remove_dir_all(&dir);
    if let Err(e) = std::fs::create_dir_all(&gen_out) {
        out.inconclusive(format!("second corpus: cannot create {dir:?}: {e}"));
        return;
    }
    let corpus_seed = 1 + args.seed % 1_000_000;
    let g = Command::new("python3")
        .arg(&gen)
        .args(["--seed", &corpus_seed.to_string(), "--random", "700", "--out"])
        .arg(&gen_out)
        .output();
    match g {
        Ok(o) if o.status.success() => {}
        Ok(o) => {
            out.inconclusive(format!("second corpus: generator failed: {}", String::from_utf8_lossy(&o.stderr)));
            return;
        }
        Err(e) => {
            out.inconclusive(format!("second corpus: python3 not runnable: {e}"));
            return;
        }
    }
    // tracing paths: the ones this binary was built against
    let manifest = std::fs::read_to_string(checks_dir.join("Cargo.toml")).unwrap_or_default();
    let dep_line = |name: &str| -> Option<String> {
        manifest.lines().find(|l| l.starts_with(&format!("{name} ="))).map(|l| l.to_string())
    };
    let (Some(tr), Some(tc)) = (dep_line("tracing"), dep_line("tracing-core")) else {
        out.harness_errors.push("second corpus: cannot find the tracing dependencies in checks/Cargo.toml".into());
        return;
    };
    let cargo_toml = format!(
        "[package]\nname = \"c10x\"\nversion = \"0.0.0\"\nedition = \"2021\"\npublish = false\n\n[workspace]\n\n[dependencies]\nvlib = {{ path = {:?} }}\nserde_json = \"1\"\n{tr}\n{tc}\n\n[profile.release]\nopt-level = 2\ndebug = 1\ndebug-assertions = false\noverflow-checks = false\nincremental = false\ncodegen-units = 16\n",
        harness.join("vlib").display().to_string()
    );
    let main_rs = format!(
        "#[path = {:?}]\nmod support;\n#[path = \"gen_c10/mod.rs\"]\nmod corpus;\ninclude!({:?});\n",
        checks_dir.join("src").join("c10_support.rs").display().to_string(),
        checks_dir.join("src").join("c10_body.rs").display().to_string()
    );
    let ok = std::fs::write(dir.join("Cargo.toml"), cargo_toml).is_ok()
        && std::fs::write(src.join("main.rs"), main_rs).is_ok()
        && std::fs::copy(harness.join("Cargo.lock"), dir.join("Cargo.lock")).is_ok();
    if !ok {
        out.inconclusive("second corpus: cannot write the throw-away crate".to_string());
        return;
    }
    let target = harness.join("target-c10x");
    let tb = Instant::now();
    let b = Command::new("cargo")
        .args(["build", "--offline", "--release"])
        .current_dir(&dir)
        .env("CARGO_TARGET_DIR", &target)
        .env("CARGO_NET_OFFLINE", "true")
        .output();
    match b {
        Ok(o) if o.status.success() => {}
        Ok(o) => {
            let e = String::from_utf8_lossy(&o.stderr).to_string();
            let tail: String = e.lines().filter(|l| l.starts_with("error")).take(8).collect::<Vec<_>>().join(" | ");
            // a generated form the pinned macros do not parse is the generator's problem, not a verdict
            out.inconclusive(format!("second corpus (seed {corpus_seed}) did not build: {tail}"));
            return;
        }
        Err(e) => {
            out.inconclusive(format!("second corpus: cargo not runnable: {e}"));
            return;
        }
    }
    let build_s = tb.elapsed().as_secs_f64();
    let exe = target.join("release").join("c10x");
    let r = Command::new(&exe)
        .args([
            args.tier.name(),
            "--seed",
            &args.seed.to_string(),
            "merged=1",
            &format!("vectors={}", args.get_u64("vectors2", 1000)),
            &format!("parts={}", args.get_u64("parts", 13)),
        ])
        .env("VERIF_ROOT", run::verif_root())
        .output();
    let mut o2 = Out::new();
    match r {
        Ok(o) => {
            let so = String::from_utf8_lossy(&o.stdout);
            let mut got = false;
            for l in so.lines() {
                if let Some(js) = l.strip_prefix("RESULT ") {
                    if let Ok(v) = serde_json::from_str::<Value>(js) {
                        o2.merge_json(&v);
                        got = true;
                    }
                }
            }
            if !got {
                out.harness_errors.push(format!("second corpus produced no result: {}", String::from_utf8_lossy(&o.stderr)));
                return;
            }
        }
        Err(e) => {
            out.harness_errors.push(format!("second corpus: cannot run {exe:?}: {e}"));
            return;
        }
    }
    extra.insert(
        "second_corpus".into(),
        json!({"corpus_seed": corpus_seed, "build_s": build_s, "evaluations": o2.evals, "distinct": o2.distinct.len(),
               "violations": o2.viols.len(), "crate": dir.display().to_string()}),
    );
    out.merge(o2);
}
