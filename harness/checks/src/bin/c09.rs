//! C09 — every layer sees every notification exactly once; wrappers are transparent
//! (DESIGN.md 5/C09).
//!
//! Recorders: `RecLayer` (a `Subscribe<C>` for every `C`), `RecFilter` (a `Filter<C>`), `IdBase`
//! (a base collector whose `clone_span` returns a NEW id, so `on_id_change` is exercised).  All
//! recorders of one stack push into one shared, globally ordered log; the driver pushes an `Op`
//! marker before every client operation, so the log is cut into per-operation segments.
//!
//! Oracles:
//!  (1) exactly-once / order automaton on all-bare unfiltered stacks (`oracle1`);
//!  (2) differential: log(reference stack) == log(variant stack) where the variant differs only by
//!      pass-through wrappers (around a layer, a per-layer filter, the whole collector) or by an
//!      inserted `None` / empty `Vec` element (`compare`).
//! Every (method x wrapper) pair is a *cell* with its own verdict.

use std::collections::{BTreeMap, BTreeSet, HashMap, HashSet};
use std::sync::{Arc, Mutex};
use std::time::Instant;
use tracing::Span;
use tracing_core::dispatch::{self, Dispatch};
use tracing_core::field::{Field, Visit};
use tracing_core::span::{Attributes, Current, Id, Record};
use tracing_core::{Collect, Event, Interest, LevelFilter, Metadata};
use tracing_subscriber::filter::Filtered;
use tracing_subscriber::registry::{LookupSpan, Registry};
use tracing_subscriber::reload;
use tracing_subscriber::subscribe::{CollectExt, Context, Filter, Identity, Subscribe};
use vcs::{Cs, Emitted, Fresh, Kind};
use vlib::run::{self, Finish};
use vlib::{json, Args, ChildSpec, Map, Mode, Out, Rng, Value};

const ID: &str = "C09";
/// maximum number of stack elements (real layers + inserted absent elements)
const MAXD: usize = 6;

// ------------------------------------------------------------------------------------------
// log
// ------------------------------------------------------------------------------------------

#[derive(Clone, Copy, Debug, PartialEq, Eq, Hash, PartialOrd, Ord)]
enum Who {
    Driver,
    Base,
    Layer(u8),
    Filter(u8),
}
impl Who {
    fn show(self) -> String {
        match self {
            Who::Driver => "driver".into(),
            Who::Base => "base".into(),
            Who::Layer(i) => format!("L{i}"),
            Who::Filter(i) => format!("F{i}"),
        }
    }
}

#[derive(Clone, Copy, Debug, PartialEq, Eq, Hash, PartialOrd, Ord)]
enum M {
    RegDispatch,
    OnSubscribe,
    RegCallsite,
    Enabled,
    Hint,
    NewSpan,
    Record,
    Follows,
    EvEnabled,
    Event,
    Enter,
    Exit,
    Close,
    IdChange,
    CloneSpan,
    TryClose,
    CurrentSpan,
    Op,
    Obs,
}
impl M {
    /// the trait-method name as seen by `who`
    fn name(self, who: Who) -> &'static str {
        let base = matches!(who, Who::Base);
        let filt = matches!(who, Who::Filter(_));
        match self {
            M::RegDispatch => "on_register_dispatch",
            M::OnSubscribe => "on_subscribe",
            M::RegCallsite => {
                if filt {
                    "callsite_enabled"
                } else {
                    "register_callsite"
                }
            }
            M::Enabled => "enabled",
            M::Hint => "max_level_hint",
            M::NewSpan => {
                if base {
                    "new_span"
                } else {
                    "on_new_span"
                }
            }
            M::Record => {
                if base {
                    "record"
                } else {
                    "on_record"
                }
            }
            M::Follows => {
                if base {
                    "record_follows_from"
                } else {
                    "on_follows_from"
                }
            }
            M::EvEnabled => "event_enabled",
            M::Event => {
                if base {
                    "event"
                } else {
                    "on_event"
                }
            }
            M::Enter => {
                if base {
                    "enter"
                } else {
                    "on_enter"
                }
            }
            M::Exit => {
                if base {
                    "exit"
                } else {
                    "on_exit"
                }
            }
            M::Close => "on_close",
            M::IdChange => "on_id_change",
            M::CloneSpan => "clone_span",
            M::TryClose => "try_close",
            M::CurrentSpan => "current_span",
            M::Op => "op",
            M::Obs => "obs",
        }
    }
}

/// raw entry: callsites by address, span ids as the collector gave them
#[derive(Clone, Debug)]
struct Entry {
    who: Who,
    m: M,
    cs: Option<usize>,
    s1: Option<u64>,
    s2: Option<u64>,
    v: Option<u64>,
    ret: Option<u8>,
    txt: Option<String>,
}
impl Entry {
    fn new(who: Who, m: M) -> Self {
        Entry { who, m, cs: None, s1: None, s2: None, v: None, ret: None, txt: None }
    }
    fn cs(mut self, meta: &Metadata<'_>) -> Self {
        self.cs = Some(cs_addr(meta));
        self
    }
    fn s1(mut self, id: &Id) -> Self {
        self.s1 = Some(id.into_u64());
        self
    }
    fn s2(mut self, id: &Id) -> Self {
        self.s2 = Some(id.into_u64());
        self
    }
    fn v(mut self, v: Option<u64>) -> Self {
        self.v = v;
        self
    }
    fn ret(mut self, r: u8) -> Self {
        self.ret = Some(r);
        self
    }
}

fn cs_addr(meta: &Metadata<'_>) -> usize {
    meta.callsite().0 as *const _ as *const () as usize
}

struct Log {
    e: Mutex<Vec<Entry>>,
    /// callsites of earlier runs of this process (they are re-registered with every new
    /// `Dispatch`; those callbacks are not about this run's occurrences)
    retired: Arc<HashSet<usize>>,
}
impl Log {
    fn push(&self, e: Entry) {
        if let Some(a) = e.cs {
            if self.retired.contains(&a) {
                return;
            }
        }
        self.e.lock().unwrap().push(e);
    }
    fn op(&self, s: String) {
        let mut e = Entry::new(Who::Driver, M::Op);
        e.txt = Some(s);
        self.push(e);
    }
    fn obs(&self, s: String) {
        let mut e = Entry::new(Who::Driver, M::Obs);
        e.txt = Some(s);
        self.push(e);
    }
}

struct IdVisit(Option<u64>);
impl Visit for IdVisit {
    fn record_u64(&mut self, f: &Field, v: u64) {
        if f.name() == "id" {
            self.0 = Some(v);
        }
    }
    fn record_debug(&mut self, _: &Field, _: &dyn std::fmt::Debug) {}
}
fn id_of_attrs(a: &Attributes<'_>) -> Option<u64> {
    let mut v = IdVisit(None);
    a.record(&mut v);
    v.0
}
fn id_of_event(e: &Event<'_>) -> Option<u64> {
    let mut v = IdVisit(None);
    e.record(&mut v);
    v.0
}
fn id_of_record(r: &Record<'_>) -> Option<u64> {
    let mut v = IdVisit(None);
    r.record(&mut v);
    v.0
}

/// class bit of a callsite: ((level-1)*4 + target)*3 + kind  (kind: 0 event, 1 span, 2 probe)
fn class_bit(level: usize, target: usize, kind: usize) -> u32 {
    (((level - 1) * 4 + target) * 3 + kind) as u32
}
fn class_of(meta: &Metadata<'_>) -> u32 {
    let l = vcs::level_of(meta.level());
    let t = vcs::target_index(meta.target()).unwrap_or(0);
    let k = if meta.is_span() {
        1
    } else if meta.is_event() {
        0
    } else {
        2
    };
    class_bit(l, t, k)
}
fn class_name(bit: u32) -> String {
    let k = bit % 3;
    let t = (bit / 3) % 4;
    let l = bit / 12 + 1;
    format!("{}:{}:{}", ["event", "span", "probe"][k as usize], vcs::LEVEL_NAMES[l as usize], vcs::TARGETS[t as usize])
}
fn class_level(bit: u32) -> usize {
    (bit / 12 + 1) as usize
}

// ------------------------------------------------------------------------------------------
// scripts and recorders
// ------------------------------------------------------------------------------------------

/// Behaviour of a recording layer / filter.  Self-consistent by construction: a class in `rej`
/// is answered `int_rej` (never|sometimes) at registration and `false` in `enabled`; every other
/// class `int_other` (always|sometimes) and `true`; a hint `h` implies every class above `h` is in
/// `rej`.
#[derive(Clone, Debug, Default, PartialEq)]
struct Script {
    rej: u64,
    /// 2 = always, 1 = sometimes
    int_other: u8,
    /// 0 = never, 1 = sometimes
    int_rej: u8,
    /// veto in event_enabled when opid % ev_mod == ev_rem (ev_mod 0: never veto)
    ev_mod: u64,
    ev_rem: u64,
    hint: Option<usize>,
}
impl Script {
    fn plain() -> Self {
        Script { rej: 0, int_other: 2, int_rej: 0, ev_mod: 0, ev_rem: 0, hint: None }
    }
    fn with_hint(mut self, h: usize) -> Self {
        self.hint = Some(h);
        for b in 0..60u32 {
            if class_level(b) > h {
                self.rej |= 1 << b;
            }
        }
        self
    }
    /// oracle 1 stacks carry no hints (the macro-level MAX_LEVEL shortcut is C08's)
    fn without_hint(mut self) -> Self {
        self.hint = None;
        self
    }
    fn rejects(&self, class: u32) -> bool {
        self.rej >> class & 1 == 1
    }
    fn interest(&self, class: u32) -> u8 {
        if self.rejects(class) {
            self.int_rej
        } else {
            self.int_other
        }
    }
    fn vetoes_event(&self, opid: u64) -> bool {
        self.ev_mod != 0 && opid % self.ev_mod == self.ev_rem
    }
    /// compact description used in shapes / witnesses
    fn code(&self, used: &[u32]) -> String {
        let mut s = String::new();
        let nrej = used.iter().filter(|&&c| self.rejects(c)).count();
        if nrej > 0 {
            s.push_str(if self.int_rej == 0 { "N" } else { "D" });
        }
        if self.int_other == 1 {
            s.push('s');
        }
        if self.ev_mod != 0 {
            s.push('E');
        }
        if self.hint.is_some() {
            s.push('H');
        }
        if s.is_empty() {
            s.push('p');
        }
        s
    }
}
fn interest_of(code: u8) -> Interest {
    match code {
        0 => Interest::never(),
        1 => Interest::sometimes(),
        _ => Interest::always(),
    }
}
fn hint_code(h: Option<LevelFilter>) -> u8 {
    match h {
        None => 9,
        Some(f) => vcs::rank_of_filter(&f) as u8,
    }
}

struct RecLayer {
    who: Who,
    log: Arc<Log>,
    sc: Script,
}

impl<C: Collect> Subscribe<C> for RecLayer {
    fn on_register_dispatch(&self, _d: &Dispatch) {
        self.log.push(Entry::new(self.who, M::RegDispatch));
    }
    fn on_subscribe(&mut self, _c: &mut C) {
        self.log.push(Entry::new(self.who, M::OnSubscribe));
    }
    fn register_callsite(&self, meta: &'static Metadata<'static>) -> Interest {
        let r = self.sc.interest(class_of(meta));
        self.log.push(Entry::new(self.who, M::RegCallsite).cs(meta).ret(r));
        interest_of(r)
    }
    fn enabled(&self, meta: &Metadata<'_>, _: Context<'_, C>) -> bool {
        let r = !self.sc.rejects(class_of(meta));
        self.log.push(Entry::new(self.who, M::Enabled).cs(meta).ret(r as u8));
        r
    }
    fn max_level_hint(&self) -> Option<LevelFilter> {
        let h = self.sc.hint.map(vcs::filter_of);
        self.log.push(Entry::new(self.who, M::Hint).ret(hint_code(h)));
        h
    }
    fn on_new_span(&self, attrs: &Attributes<'_>, id: &Id, _: Context<'_, C>) {
        self.log.push(Entry::new(self.who, M::NewSpan).cs(attrs.metadata()).s1(id).v(id_of_attrs(attrs)));
    }
    fn on_record(&self, id: &Id, values: &Record<'_>, _: Context<'_, C>) {
        self.log.push(Entry::new(self.who, M::Record).s1(id).v(id_of_record(values)));
    }
    fn on_follows_from(&self, id: &Id, follows: &Id, _: Context<'_, C>) {
        self.log.push(Entry::new(self.who, M::Follows).s1(id).s2(follows));
    }
    fn event_enabled(&self, event: &Event<'_>, _: Context<'_, C>) -> bool {
        let opid = id_of_event(event);
        let r = !opid.map(|o| self.sc.vetoes_event(o)).unwrap_or(false);
        self.log.push(Entry::new(self.who, M::EvEnabled).cs(event.metadata()).v(opid).ret(r as u8));
        r
    }
    fn on_event(&self, event: &Event<'_>, _: Context<'_, C>) {
        self.log.push(Entry::new(self.who, M::Event).cs(event.metadata()).v(id_of_event(event)));
    }
    fn on_enter(&self, id: &Id, _: Context<'_, C>) {
        self.log.push(Entry::new(self.who, M::Enter).s1(id));
    }
    fn on_exit(&self, id: &Id, _: Context<'_, C>) {
        self.log.push(Entry::new(self.who, M::Exit).s1(id));
    }
    fn on_close(&self, id: Id, _: Context<'_, C>) {
        self.log.push(Entry::new(self.who, M::Close).s1(&id));
    }
    fn on_id_change(&self, old: &Id, new: &Id, _: Context<'_, C>) {
        self.log.push(Entry::new(self.who, M::IdChange).s1(old).s2(new));
    }
}

struct RecFilter {
    who: Who,
    log: Arc<Log>,
    sc: Script,
}

impl<C> Filter<C> for RecFilter {
    fn enabled(&self, meta: &Metadata<'_>, _: &Context<'_, C>) -> bool {
        let r = !self.sc.rejects(class_of(meta));
        self.log.push(Entry::new(self.who, M::Enabled).cs(meta).ret(r as u8));
        r
    }
    fn callsite_enabled(&self, meta: &'static Metadata<'static>) -> Interest {
        let r = self.sc.interest(class_of(meta));
        self.log.push(Entry::new(self.who, M::RegCallsite).cs(meta).ret(r));
        interest_of(r)
    }
    fn max_level_hint(&self) -> Option<LevelFilter> {
        let h = self.sc.hint.map(vcs::filter_of);
        self.log.push(Entry::new(self.who, M::Hint).ret(hint_code(h)));
        h
    }
    fn event_enabled(&self, event: &Event<'_>, _: &Context<'_, C>) -> bool {
        let opid = id_of_event(event);
        let r = !opid.map(|o| self.sc.vetoes_event(o)).unwrap_or(false);
        self.log.push(Entry::new(self.who, M::EvEnabled).cs(event.metadata()).v(opid).ret(r as u8));
        r
    }
    fn on_new_span(&self, attrs: &Attributes<'_>, id: &Id, _: Context<'_, C>) {
        self.log.push(Entry::new(self.who, M::NewSpan).cs(attrs.metadata()).s1(id).v(id_of_attrs(attrs)));
    }
    fn on_record(&self, id: &Id, values: &Record<'_>, _: Context<'_, C>) {
        self.log.push(Entry::new(self.who, M::Record).s1(id).v(id_of_record(values)));
    }
    fn on_enter(&self, id: &Id, _: Context<'_, C>) {
        self.log.push(Entry::new(self.who, M::Enter).s1(id));
    }
    fn on_exit(&self, id: &Id, _: Context<'_, C>) {
        self.log.push(Entry::new(self.who, M::Exit).s1(id));
    }
    fn on_close(&self, id: Id, _: Context<'_, C>) {
        self.log.push(Entry::new(self.who, M::Close).s1(&id));
    }
}

/// Base collector that hands out a NEW id from `clone_span` (all ids of one span are aliases).
struct IdBase {
    log: Arc<Log>,
    st: Mutex<IdState>,
}
#[derive(Default)]
struct IdState {
    next: u64,
    /// id -> span serial
    alias: HashMap<u64, u64>,
    refs: HashMap<u64, usize>,
    meta: HashMap<u64, &'static Metadata<'static>>,
    /// entered ids (the run is single-threaded)
    stack: Vec<u64>,
}
impl IdBase {
    fn new(log: Arc<Log>) -> Self {
        IdBase { log, st: Mutex::new(IdState { next: 1, ..Default::default() }) }
    }
}
impl Collect for IdBase {
    fn on_register_dispatch(&self, _d: &Dispatch) {
        self.log.push(Entry::new(Who::Base, M::RegDispatch));
    }
    fn register_callsite(&self, meta: &'static Metadata<'static>) -> Interest {
        self.log.push(Entry::new(Who::Base, M::RegCallsite).cs(meta).ret(2));
        Interest::always()
    }
    fn enabled(&self, meta: &Metadata<'_>) -> bool {
        self.log.push(Entry::new(Who::Base, M::Enabled).cs(meta).ret(1));
        true
    }
    fn max_level_hint(&self) -> Option<LevelFilter> {
        self.log.push(Entry::new(Who::Base, M::Hint).ret(9));
        None
    }
    fn new_span(&self, attrs: &Attributes<'_>) -> Id {
        let id = {
            let mut st = self.st.lock().unwrap();
            let id = st.next;
            st.next += 1;
            st.alias.insert(id, id);
            st.refs.insert(id, 1);
            st.meta.insert(id, attrs.metadata());
            id
        };
        let id = Id::from_u64(id);
        self.log.push(Entry::new(Who::Base, M::NewSpan).cs(attrs.metadata()).s1(&id).v(id_of_attrs(attrs)));
        id
    }
    fn record(&self, id: &Id, values: &Record<'_>) {
        self.log.push(Entry::new(Who::Base, M::Record).s1(id).v(id_of_record(values)));
    }
    fn record_follows_from(&self, id: &Id, follows: &Id) {
        self.log.push(Entry::new(Who::Base, M::Follows).s1(id).s2(follows));
    }
    fn event_enabled(&self, event: &Event<'_>) -> bool {
        self.log.push(Entry::new(Who::Base, M::EvEnabled).cs(event.metadata()).v(id_of_event(event)).ret(1));
        true
    }
    fn event(&self, event: &Event<'_>) {
        self.log.push(Entry::new(Who::Base, M::Event).cs(event.metadata()).v(id_of_event(event)));
    }
    fn enter(&self, id: &Id) {
        self.st.lock().unwrap().stack.push(id.into_u64());
        self.log.push(Entry::new(Who::Base, M::Enter).s1(id));
    }
    fn exit(&self, id: &Id) {
        {
            let mut st = self.st.lock().unwrap();
            if let Some(p) = st.stack.iter().rposition(|x| *x == id.into_u64()) {
                st.stack.remove(p);
            }
        }
        self.log.push(Entry::new(Who::Base, M::Exit).s1(id));
    }
    fn clone_span(&self, old: &Id) -> Id {
        let new = {
            let mut st = self.st.lock().unwrap();
            let new = st.next;
            st.next += 1;
            if let Some(&serial) = st.alias.get(&old.into_u64()) {
                st.alias.insert(new, serial);
                *st.refs.entry(serial).or_insert(0) += 1;
            }
            new
        };
        let new = Id::from_u64(new);
        self.log.push(Entry::new(Who::Base, M::CloneSpan).s1(old).s2(&new));
        new
    }
    fn try_close(&self, id: Id) -> bool {
        let closed = {
            let mut st = self.st.lock().unwrap();
            match st.alias.remove(&id.into_u64()) {
                None => false,
                Some(serial) => {
                    let r = st.refs.entry(serial).or_insert(1);
                    *r -= 1;
                    *r == 0
                }
            }
        };
        self.log.push(Entry::new(Who::Base, M::TryClose).s1(&id).ret(closed as u8));
        closed
    }
    fn current_span(&self) -> Current {
        let top = {
            let st = self.st.lock().unwrap();
            st.stack.last().and_then(|id| {
                let serial = st.alias.get(id)?;
                Some((*id, *st.meta.get(serial)?))
            })
        };
        self.log.push(Entry::new(Who::Base, M::CurrentSpan));
        match top {
            Some((id, meta)) => Current::new(Id::from_u64(id), meta),
            None => Current::none(),
        }
    }
}

// ------------------------------------------------------------------------------------------
// stack specifications
// ------------------------------------------------------------------------------------------

#[derive(Clone, Copy, Debug, PartialEq, Eq, Hash, PartialOrd, Ord)]
enum LW {
    BoxS,
    BoxDyn,
    Some,
    Vec1,
    Reload,
    /// `l.and_then(Identity::new())`
    IdOuter,
    /// `Identity::new().and_then(l)`
    IdInner,
}
const ALL_LW: [LW; 7] = [LW::BoxS, LW::BoxDyn, LW::Some, LW::Vec1, LW::Reload, LW::IdOuter, LW::IdInner];
impl LW {
    fn name(self) -> &'static str {
        match self {
            LW::BoxS => "Box<S>",
            LW::BoxDyn => "Box<dyn Subscribe>",
            LW::Some => "Some",
            LW::Vec1 => "Vec[1]",
            LW::Reload => "reload::Subscriber",
            LW::IdOuter => "and_then(Identity)",
            LW::IdInner => "Identity.and_then",
        }
    }
}
#[derive(Clone, Copy, Debug, PartialEq, Eq, Hash, PartialOrd, Ord)]
enum FW {
    BoxDyn,
    ArcDyn,
    Some,
    Reload,
}
const ALL_FW: [FW; 4] = [FW::BoxDyn, FW::ArcDyn, FW::Some, FW::Reload];
impl FW {
    fn name(self) -> &'static str {
        match self {
            FW::BoxDyn => "Box<dyn Filter>",
            FW::ArcDyn => "Arc<dyn Filter>",
            FW::Some => "Some(F)",
            FW::Reload => "reload::Subscriber(F)",
        }
    }
}
#[derive(Clone, Copy, Debug, PartialEq, Eq, Hash, PartialOrd, Ord)]
enum CW {
    BoxDyn,
    ArcDyn,
}
const ALL_CW: [CW; 2] = [CW::BoxDyn, CW::ArcDyn];
impl CW {
    fn name(self) -> &'static str {
        match self {
            CW::BoxDyn => "Box<dyn Collect>",
            CW::ArcDyn => "Arc<dyn Collect>",
        }
    }
}
#[derive(Clone, Copy, Debug, PartialEq, Eq, Hash, PartialOrd, Ord)]
enum Absent {
    NoneLayer,
    EmptyVec,
}
impl Absent {
    fn name(self) -> &'static str {
        match self {
            Absent::NoneLayer => "None::<L>",
            Absent::EmptyVec => "Vec::<L>::new()",
        }
    }
}

#[derive(Clone, Debug, PartialEq)]
struct FiltSpec {
    sc: Script,
    /// `None::<RecFilter>` instead of a filter
    none: bool,
    /// false: the filter is `Box<dyn Filter>`(RecFilter) with `nest` applied on top
    bare: bool,
    nest: Vec<FW>,
}

/// `inner.and_then(outer)` trees of recording layers, attached with ONE `.with()`.  Leaves are
/// numbered in the order the property demands for notifications (inner before outer).
#[derive(Clone, Debug, PartialEq)]
enum Tree {
    Leaf(u8, Script),
    /// Node(inner, outer) = `inner.and_then(outer)`
    Node(Box<Tree>, Box<Tree>),
}
impl Tree {
    fn leaves(&self, out: &mut Vec<(u8, Script)>) {
        match self {
            Tree::Leaf(i, s) => out.push((*i, s.clone())),
            Tree::Node(a, b) => {
                a.leaves(out);
                b.leaves(out);
            }
        }
    }
    fn show(&self, used: &[u32]) -> String {
        match self {
            Tree::Leaf(i, s) => format!("L{i}[{}]", s.code(used)),
            Tree::Node(a, b) => format!("({}).and_then({})", a.show(used), b.show(used)),
        }
    }
}

#[derive(Clone, Debug, PartialEq)]
struct Elem {
    /// index of the recording layer (and of its filter); absent elements carry 255
    idx: u8,
    sc: Script,
    /// statically typed `RecLayer` (requires: no nest, no filter, not absent)
    bare: bool,
    nest: Vec<LW>,
    filt: Option<FiltSpec>,
    absent: Option<Absent>,
    /// the element is an and_then tree of recording layers (idx/sc unused)
    tree: Option<Tree>,
}
impl Elem {
    fn layer(idx: u8, sc: Script) -> Self {
        Elem { idx, sc, bare: true, nest: vec![], filt: None, absent: None, tree: None }
    }
    fn absent(a: Absent) -> Self {
        Elem { idx: 255, sc: Script::plain(), bare: false, nest: vec![], filt: None, absent: Some(a), tree: None }
    }
    fn tree(t: Tree) -> Self {
        Elem { idx: 254, sc: Script::plain(), bare: false, nest: vec![], filt: None, absent: None, tree: Some(t) }
    }
    fn is_plain_bare(&self) -> bool {
        self.bare && self.nest.is_empty() && self.filt.is_none() && self.absent.is_none() && self.tree.is_none()
    }
    fn is_plain_tree(&self) -> bool {
        self.tree.is_some() && self.nest.is_empty() && self.filt.is_none() && self.absent.is_none()
    }
    fn show(&self, used: &[u32]) -> String {
        if let Some(a) = self.absent {
            return a.name().to_string();
        }
        if let Some(t) = &self.tree {
            return t.show(used);
        }
        let mut s = format!("L{}[{}]", self.idx, self.sc.code(used));
        if !self.bare {
            s = format!("dyn({s})");
        }
        if let Some(f) = &self.filt {
            let mut fs = if f.none { "None::<F>".to_string() } else { format!("F{}[{}]", self.idx, f.sc.code(used)) };
            if !f.bare && !f.none {
                fs = format!("dyn({fs})");
            }
            for w in &f.nest {
                fs = format!("{}({fs})", w.name());
            }
            s = format!("{s}.with_filter({fs})");
        }
        for w in &self.nest {
            s = format!("{}({s})", w.name());
        }
        s
    }
}

#[derive(Clone, Copy, Debug, PartialEq, Eq, Hash)]
enum BaseKind {
    Reg,
    Id,
}

/// pass-through wrapper around the BASE collector, underneath every layer
/// (`Box::new(Registry::default()).with(l0)...`)
#[derive(Clone, Copy, Debug, PartialEq, Eq, Hash, PartialOrd, Ord)]
enum BW {
    Box,
    Arc,
    BoxBox,
    ArcBox,
}
impl BW {
    fn name(self) -> &'static str {
        match self {
            BW::Box => "Box<base collector>",
            BW::Arc => "Arc<base collector>",
            BW::BoxBox => "Box<Box<base collector>>",
            BW::ArcBox => "Arc<Box<base collector>>",
        }
    }
}
const ALL_BW: [BW; 4] = [BW::Box, BW::Arc, BW::BoxBox, BW::ArcBox];

#[derive(Clone, Debug, PartialEq)]
struct StackSpec {
    base: BaseKind,
    /// innermost first (`base.with(elems[0]).with(elems[1])...`)
    elems: Vec<Elem>,
    cwrap: Vec<CW>,
    bwrap: Option<BW>,
}
impl StackSpec {
    fn show(&self, used: &[u32]) -> String {
        let mut s = match self.base {
            BaseKind::Reg => "Registry".to_string(),
            BaseKind::Id => "IdBase".to_string(),
        };
        match self.bwrap {
            None => {}
            Some(BW::Box) => s = format!("Box::new({s})"),
            Some(BW::Arc) => s = format!("Arc::new({s})"),
            Some(BW::BoxBox) => s = format!("Box::new(Box::new({s}))"),
            Some(BW::ArcBox) => s = format!("Arc::new(Box::new({s}))"),
        }
        for e in &self.elems {
            s.push_str(&format!(".with({})", e.show(used)));
        }
        for w in &self.cwrap {
            s = format!("{}({s})", w.name());
        }
        s
    }
    fn all_bare(&self) -> bool {
        self.bwrap.is_none() && self.cwrap.is_empty() && self.elems.iter().all(|e| e.is_plain_bare())
    }
    /// oracle 1 applies: bare layers and plain and_then trees only
    fn o1_shape(&self) -> bool {
        self.bwrap.is_none() && self.cwrap.is_empty() && self.elems.iter().all(|e| e.is_plain_bare() || e.is_plain_tree())
    }
    /// recording layers in the order notifications must reach them, with the index of the
    /// stack element they belong to
    fn layers(&self) -> Vec<(u8, Script, usize)> {
        let mut v = vec![];
        for (k, e) in self.elems.iter().enumerate() {
            match &e.tree {
                Some(t) => {
                    let mut l = vec![];
                    t.leaves(&mut l);
                    v.extend(l.into_iter().map(|(i, s)| (i, s, k)));
                }
                None if e.absent.is_none() => v.push((e.idx, e.sc.clone(), k)),
                None => {}
            }
        }
        v
    }
}

// ------------------------------------------------------------------------------------------
// building real stacks
// ------------------------------------------------------------------------------------------

type BoxDynL<C> = Box<dyn Subscribe<C> + Send + Sync + 'static>;
type BoxDynF<C> = Box<dyn Filter<C> + Send + Sync + 'static>;
type BoxDynC = Box<dyn Collect + Send + Sync + 'static>;

fn wrap_l<C: Collect + 'static>(l: BoxDynL<C>, w: LW) -> BoxDynL<C> {
    match w {
        LW::BoxS => {
            let b: Box<BoxDynL<C>> = Box::new(l);
            Box::new(b)
        }
        LW::BoxDyn => Box::new(l),
        LW::Some => Box::new(Some(l)),
        LW::Vec1 => Box::new(vec![l]),
        LW::Reload => Box::new(reload::Subscriber::new(l).0),
        LW::IdOuter => Box::new(Subscribe::<C>::and_then(l, Identity::new())),
        LW::IdInner => Box::new(Subscribe::<C>::and_then(Identity::new(), l)),
    }
}
fn wrap_f<C: Collect + 'static>(f: BoxDynF<C>, w: FW) -> BoxDynF<C> {
    match w {
        FW::BoxDyn => Box::new(f),
        FW::ArcDyn => {
            let a: Arc<dyn Filter<C> + Send + Sync + 'static> = Arc::new(f);
            Box::new(a)
        }
        FW::Some => Box::new(Some(f)),
        FW::Reload => Box::new(reload::Subscriber::new(f).0),
    }
}

/// what `finish` needs
struct Fin {
    log: Arc<Log>,
    cwrap: Vec<CW>,
}

fn mk_plain<C: Collect + 'static>(e: &Elem, fin: &Fin) -> BoxDynL<C> {
    if e.filt.is_some() {
        panic!("HARNESS: per-layer filter on a base without LookupSpan");
    }
    mk_common::<C>(e, fin, None)
}
fn mk_reg<C>(e: &Elem, fin: &Fin) -> BoxDynL<C>
where
    C: Collect + for<'a> LookupSpan<'a> + 'static,
{
    let filtered: Option<BoxDynL<C>> = e.filt.as_ref().map(|f| {
        let l: BoxDynL<C> = Box::new(RecLayer { who: Who::Layer(e.idx), log: fin.log.clone(), sc: e.sc.clone() });
        let rf = RecFilter { who: Who::Filter(e.idx), log: fin.log.clone(), sc: f.sc.clone() };
        let out: BoxDynL<C> = if f.none {
            Box::new(Filtered::new(l, None::<RecFilter>))
        } else if f.bare {
            Box::new(Filtered::new(l, rf))
        } else {
            let mut bf: BoxDynF<C> = Box::new(rf);
            for w in &f.nest {
                bf = wrap_f(bf, *w);
            }
            Box::new(Filtered::new(l, bf))
        };
        out
    });
    mk_common::<C>(e, fin, filtered)
}
fn mk_tree<C: Collect + 'static>(t: &Tree, fin: &Fin) -> BoxDynL<C> {
    match t {
        Tree::Leaf(i, sc) => Box::new(RecLayer { who: Who::Layer(*i), log: fin.log.clone(), sc: sc.clone() }),
        Tree::Node(a, b) => {
            let (inner, outer) = (mk_tree::<C>(a, fin), mk_tree::<C>(b, fin));
            Box::new(Subscribe::<C>::and_then(inner, outer))
        }
    }
}
fn mk_common<C: Collect + 'static>(e: &Elem, fin: &Fin, pre: Option<BoxDynL<C>>) -> BoxDynL<C> {
    if let Some(t) = &e.tree {
        let mut l = mk_tree::<C>(t, fin);
        for w in &e.nest {
            l = wrap_l(l, *w);
        }
        return l;
    }
    match e.absent {
        Some(Absent::NoneLayer) => return Box::new(None::<BoxDynL<C>>),
        Some(Absent::EmptyVec) => return Box::new(Vec::<BoxDynL<C>>::new()),
        None => {}
    }
    let mut l: BoxDynL<C> = match pre {
        Some(l) => l,
        None => Box::new(RecLayer { who: Who::Layer(e.idx), log: fin.log.clone(), sc: e.sc.clone() }),
    };
    for w in &e.nest {
        l = wrap_l(l, *w);
    }
    l
}

enum CWd {
    B(BoxDynC),
    A(Arc<dyn Collect + Send + Sync + 'static>),
}

fn observe_and_dispatch<C: Collect + Send + Sync + 'static>(c: C, fin: &Fin) -> Dispatch {
    fin.log.op("hint".into());
    let h = c.max_level_hint();
    fin.log.obs(format!("max_level_hint={}", hint_code(h)));
    fin.log.op("dispatch_new".into());
    Dispatch::new(c)
}

fn finish<C: Collect + Send + Sync + 'static>(c: C, fin: &Fin) -> Dispatch {
    if fin.cwrap.is_empty() {
        return observe_and_dispatch(c, fin);
    }
    let mut cur = match fin.cwrap[0] {
        CW::BoxDyn => CWd::B(Box::new(c)),
        CW::ArcDyn => CWd::A(Arc::new(c)),
    };
    for w in &fin.cwrap[1..] {
        cur = match (w, cur) {
            (CW::BoxDyn, CWd::B(b)) => CWd::B(Box::new(b)),
            (CW::BoxDyn, CWd::A(a)) => CWd::B(Box::new(a)),
            (CW::ArcDyn, CWd::B(b)) => CWd::A(Arc::new(b)),
            (CW::ArcDyn, CWd::A(a)) => CWd::A(Arc::new(a)),
        };
    }
    match cur {
        CWd::B(b) => observe_and_dispatch(b, fin),
        CWd::A(a) => observe_and_dispatch(a, fin),
    }
}

macro_rules! level {
    ($name:ident, $next:ident, $mk:ident, [$($b:tt)+]) => {
        fn $name<C>(c: C, mut it: std::vec::IntoIter<Elem>, fin: &Fin) -> Dispatch
        where
            C: $($b)+,
        {
            match it.next() {
                None => finish(c, fin),
                Some(e) if e.is_plain_bare() => {
                    $next(c.with(RecLayer { who: Who::Layer(e.idx), log: fin.log.clone(), sc: e.sc.clone() }), it, fin)
                }
                Some(e) => $next(c.with($mk::<C>(&e, fin)), it, fin),
            }
        }
    };
}
macro_rules! level_end {
    ($name:ident, [$($b:tt)+]) => {
        fn $name<C>(c: C, mut it: std::vec::IntoIter<Elem>, fin: &Fin) -> Dispatch
        where
            C: $($b)+,
        {
            if it.next().is_some() {
                panic!("HARNESS: stack deeper than MAXD");
            }
            finish(c, fin)
        }
    };
}
level!(r0, r1, mk_reg, [Collect + for<'a> LookupSpan<'a> + Send + Sync + 'static]);
level!(r1, r2, mk_reg, [Collect + for<'a> LookupSpan<'a> + Send + Sync + 'static]);
level!(r2, r3, mk_reg, [Collect + for<'a> LookupSpan<'a> + Send + Sync + 'static]);
level!(r3, r4, mk_reg, [Collect + for<'a> LookupSpan<'a> + Send + Sync + 'static]);
level!(r4, r5, mk_reg, [Collect + for<'a> LookupSpan<'a> + Send + Sync + 'static]);
level!(r5, r6, mk_reg, [Collect + for<'a> LookupSpan<'a> + Send + Sync + 'static]);
level_end!(r6, [Collect + for<'a> LookupSpan<'a> + Send + Sync + 'static]);
level!(i0, i1, mk_plain, [Collect + Send + Sync + 'static]);
level!(i1, i2, mk_plain, [Collect + Send + Sync + 'static]);
level!(i2, i3, mk_plain, [Collect + Send + Sync + 'static]);
level!(i3, i4, mk_plain, [Collect + Send + Sync + 'static]);
level!(i4, i5, mk_plain, [Collect + Send + Sync + 'static]);
level!(i5, i6, mk_plain, [Collect + Send + Sync + 'static]);
level_end!(i6, [Collect + Send + Sync + 'static]);

fn build(spec: &StackSpec, log: &Arc<Log>) -> Dispatch {
    assert!(spec.elems.len() <= MAXD, "HARNESS: too many elements");
    let fin = Fin { log: log.clone(), cwrap: spec.cwrap.clone() };
    log.op("build".into());
    let it = spec.elems.clone().into_iter();
    match (spec.base, spec.bwrap) {
        (BaseKind::Reg, None) => r0(Registry::default(), it, &fin),
        (BaseKind::Reg, Some(BW::Box)) => r0(Box::new(Registry::default()), it, &fin),
        (BaseKind::Reg, Some(BW::Arc)) => r0(Arc::new(Registry::default()), it, &fin),
        (BaseKind::Reg, Some(BW::BoxBox)) => r0(Box::new(Box::new(Registry::default())), it, &fin),
        (BaseKind::Reg, Some(BW::ArcBox)) => r0(Arc::new(Box::new(Registry::default())), it, &fin),
        (BaseKind::Id, None) => i0(IdBase::new(log.clone()), it, &fin),
        (BaseKind::Id, Some(BW::Box)) => i0(Box::new(IdBase::new(log.clone())), it, &fin),
        (BaseKind::Id, Some(BW::Arc)) => i0(Arc::new(IdBase::new(log.clone())), it, &fin),
        (BaseKind::Id, Some(BW::BoxBox)) => i0(Box::new(Box::new(IdBase::new(log.clone()))), it, &fin),
        (BaseKind::Id, Some(BW::ArcBox)) => i0(Arc::new(Box::new(IdBase::new(log.clone()))), it, &fin),
    }
}

// ------------------------------------------------------------------------------------------
// workloads
// ------------------------------------------------------------------------------------------

#[derive(Clone, Debug, PartialEq)]
enum Op {
    Span { cs: usize, h: usize, opid: u64 },
    Event { cs: usize, opid: u64 },
    Probe { cs: usize },
    Record { h: usize, v: u64 },
    Follows { a: usize, b: usize },
    Enter { h: usize },
    Exit { h: usize },
    Clone { h: usize, to: usize },
    Current { to: usize },
    Drop { h: usize },
    Rebuild,
}
impl Op {
    fn hits(&self) -> Option<usize> {
        match self {
            Op::Span { cs, .. } | Op::Event { cs, .. } | Op::Probe { cs } => Some(*cs),
            _ => None,
        }
    }
}

fn nhandles(ops: &[Op]) -> usize {
    let mut n = 0;
    for o in ops {
        let m = match o {
            Op::Span { h, .. } => *h,
            Op::Clone { to, .. } | Op::Current { to } => *to,
            _ => 0,
        };
        n = n.max(m + 1);
    }
    n
}

fn drive(d: &Dispatch, log: &Log, tab: &[&'static Cs], ops: &[Op]) {
    let _g = dispatch::set_default(d);
    let mut hs: Vec<Option<Span>> = (0..nhandles(ops)).map(|_| None).collect();
    // Half of the workloads run some of their operations while the thread is unwinding from a
    // panic (from a Drop impl; the panic is caught right away): notifications delivered while
    // `std::thread::panicking()` are notifications like any other. Which operations: a function
    // of the workload alone, so the reference and the variant stack get the same treatment.
    let sel = vlib::rng::hash_str(&format!("{ops:?}"));
    // (not on builds with debug assertions: there the known finding F3 is an assertion failure,
    // which inside a destructor that runs during unwinding aborts the process)
    let unwinding = |k: usize| !cfg!(debug_assertions) && sel % 2 == 0 && (sel >> 8).wrapping_add(k as u64).wrapping_mul(0x9E37_79B9_7F4A_7C15) >> 61 == 0;
    for (k, op) in ops.iter().enumerate() {
        log.op(format!("{k}:{op:?}"));
        if unwinding(k) {
            struct OnDrop<F: FnMut()>(F);
            impl<F: FnMut()> Drop for OnDrop<F> {
                fn drop(&mut self) {
                    (self.0)()
                }
            }
            let hs = &mut hs;
            let r = std::panic::catch_unwind(std::panic::AssertUnwindSafe(move || {
                let _g = OnDrop(move || {
                    assert!(std::thread::panicking(), "HARNESS: not unwinding");
                    exec_op(log, tab, hs, op)
                });
                std::panic::resume_unwind(Box::new("c09 unwinding op"));
            }));
            assert!(r.is_err(), "HARNESS: unwinding op did not unwind");
            UNWOUND_OPS.fetch_add(1, std::sync::atomic::Ordering::Relaxed);
        } else {
            exec_op(log, tab, &mut hs, op);
        }
    }
    log.op("teardown".into());
    drop(hs);
}

static UNWOUND_OPS: std::sync::atomic::AtomicU64 = std::sync::atomic::AtomicU64::new(0);

fn exec_op(log: &Log, tab: &[&'static Cs], hs: &mut [Option<Span>], op: &Op) {
    {
        match op {
            Op::Span { cs, h, opid } => match (tab[*cs].emit)(*opid) {
                Emitted::Span(s) => {
                    log.obs(format!("span disabled={}", s.is_disabled()));
                    hs[*h] = Some(s);
                }
                _ => panic!("HARNESS: callsite {cs} is not a span callsite"),
            },
            Op::Event { cs, opid } => {
                (tab[*cs].emit)(*opid);
            }
            Op::Probe { cs } => match (tab[*cs].emit)(0) {
                Emitted::Probe(b) => log.obs(format!("probe={b}")),
                _ => panic!("HARNESS: callsite {cs} is not a probe callsite"),
            },
            Op::Record { h, v } => {
                if let Some(s) = &hs[*h] {
                    s.record("id", *v);
                }
            }
            Op::Follows { a, b } => {
                if let (Some(x), Some(y)) = (&hs[*a], &hs[*b]) {
                    x.follows_from(y.id());
                }
            }
            Op::Enter { h } => {
                if let Some(s) = &hs[*h] {
                    s.with_collector(|(id, d)| d.enter(id));
                }
            }
            Op::Exit { h } => {
                if let Some(s) = &hs[*h] {
                    s.with_collector(|(id, d)| d.exit(id));
                }
            }
            Op::Clone { h, to } => {
                let c = hs[*h].clone();
                hs[*to] = c;
            }
            Op::Current { to } => {
                hs[*to] = Some(Span::current());
            }
            Op::Drop { h } => {
                hs[*h] = None;
            }
            Op::Rebuild => tracing_core::callsite::rebuild_interest_cache(),
        }
    }
}

/// Fixed rich workload over a table [span A, event X, span B, event Y, probe P]: touches every
/// notification kind (first-hit registration, new_span, record, follows_from,
/// event_enabled+event, enter, exit, clone (id change), current, close, rebuild).
fn rich_ops() -> Vec<Op> {
    vec![
        Op::Span { cs: 0, h: 0, opid: 1 },
        Op::Event { cs: 1, opid: 2 },
        Op::Enter { h: 0 },
        Op::Event { cs: 1, opid: 3 },
        Op::Span { cs: 2, h: 1, opid: 4 },
        Op::Record { h: 0, v: 5 },
        Op::Record { h: 1, v: 6 },
        Op::Follows { a: 1, b: 0 },
        Op::Clone { h: 0, to: 2 },
        Op::Enter { h: 1 },
        Op::Event { cs: 3, opid: 7 },
        Op::Event { cs: 1, opid: 8 },
        Op::Probe { cs: 4 },
        Op::Current { to: 3 },
        Op::Exit { h: 1 },
        Op::Drop { h: 1 },
        Op::Event { cs: 3, opid: 9 },
        Op::Exit { h: 0 },
        Op::Rebuild,
        Op::Event { cs: 1, opid: 10 },
        Op::Span { cs: 0, h: 4, opid: 11 },
        Op::Drop { h: 4 },
        Op::Drop { h: 0 },
        Op::Record { h: 2, v: 12 },
        Op::Drop { h: 2 },
        Op::Drop { h: 3 },
        Op::Event { cs: 1, opid: 13 },
    ]
}
const RICH_KINDS: [Kind; 5] = [Kind::Span, Kind::Event, Kind::Span, Kind::Event, Kind::Probe];

/// random well-formed workload over a table with the given kinds
fn gen_ops(rng: &mut Rng, kinds: &[Kind], len: usize) -> Vec<Op> {
    let of = |k: Kind| -> Vec<usize> { (0..kinds.len()).filter(|&i| kinds[i] == k).collect() };
    let (spans, events, probes) = (of(Kind::Span), of(Kind::Event), of(Kind::Probe));
    let mut ops = vec![];
    let mut live: Vec<usize> = vec![]; // handle slots holding a span handle
    let mut entered: Vec<usize> = vec![];
    let mut nh = 0usize;
    let mut opid = 1u64;
    for _ in 0..len {
        let can_drop: Vec<usize> = live.iter().copied().filter(|h| !entered.contains(h)).collect();
        let can_enter: Vec<usize> = live.iter().copied().filter(|h| !entered.contains(h)).collect();
        let w = [
            if spans.is_empty() || live.len() >= 6 { 0 } else { 6 }, // 0 span
            if events.is_empty() { 0 } else { 12 },                   // 1 event
            if probes.is_empty() { 0 } else { 2 },                    // 2 probe
            if live.is_empty() { 0 } else { 4 },                      // 3 record
            if live.len() < 2 { 0 } else { 3 },                       // 4 follows
            if can_enter.is_empty() || entered.len() >= 3 { 0 } else { 4 }, // 5 enter
            if entered.is_empty() { 0 } else { 4 },                   // 6 exit
            if live.is_empty() || live.len() >= 6 { 0 } else { 4 },   // 7 clone
            if live.len() >= 6 { 0 } else { 2 },                      // 8 current
            if can_drop.is_empty() { 0 } else { 5 },                  // 9 drop
            1,                                                        // 10 rebuild
        ];
        match rng.weighted(&w) {
            0 => {
                ops.push(Op::Span { cs: *rng.pick(&spans), h: nh, opid });
                live.push(nh);
                nh += 1;
                opid += 1;
            }
            1 => {
                ops.push(Op::Event { cs: *rng.pick(&events), opid });
                opid += 1;
            }
            2 => ops.push(Op::Probe { cs: *rng.pick(&probes) }),
            3 => {
                ops.push(Op::Record { h: *rng.pick(&live), v: opid });
                opid += 1;
            }
            4 => {
                let a = *rng.pick(&live);
                let b = *rng.pick(&live);
                ops.push(Op::Follows { a, b });
            }
            5 => {
                let h = *rng.pick(&can_enter);
                ops.push(Op::Enter { h });
                entered.push(h);
            }
            6 => {
                let h = entered.pop().unwrap();
                ops.push(Op::Exit { h });
            }
            7 => {
                ops.push(Op::Clone { h: *rng.pick(&live), to: nh });
                live.push(nh);
                nh += 1;
            }
            8 => {
                ops.push(Op::Current { to: nh });
                live.push(nh);
                nh += 1;
            }
            9 => {
                let h = *rng.pick(&can_drop);
                ops.push(Op::Drop { h });
                live.retain(|x| *x != h);
            }
            _ => ops.push(Op::Rebuild),
        }
    }
    while let Some(h) = entered.pop() {
        ops.push(Op::Exit { h });
    }
    for h in live {
        ops.push(Op::Drop { h });
    }
    ops
}

// ------------------------------------------------------------------------------------------
// running one stack, normalising its log
// ------------------------------------------------------------------------------------------

/// normalised entry: callsites as indices into the run's table, span ids by first appearance
#[derive(Clone, Debug, PartialEq, Eq, Hash)]
struct NE {
    who: Who,
    m: M,
    cs: Option<usize>,
    s1: Option<usize>,
    s2: Option<usize>,
    v: Option<u64>,
    ret: Option<u8>,
    txt: Option<String>,
}
impl NE {
    fn show(&self) -> String {
        if let Some(t) = &self.txt {
            return format!("{}: {}", self.m.name(self.who), t);
        }
        let mut a = vec![];
        if let Some(c) = self.cs {
            a.push(format!("cs{c}"));
        }
        if let Some(s) = self.s1 {
            a.push(format!("s{s}"));
        }
        if let Some(s) = self.s2 {
            a.push(format!("s{s}"));
        }
        if let Some(v) = self.v {
            a.push(format!("#{v}"));
        }
        let mut s = format!("{}.{}({})", self.who.show(), self.m.name(self.who), a.join(","));
        if let Some(r) = self.ret {
            s.push_str(&format!("->{r}"));
        }
        s
    }
}

#[derive(Clone, Copy, Debug, PartialEq)]
enum SegKind {
    Build,
    Hint,
    DispatchNew,
    Op(usize),
    Teardown,
}

#[derive(Clone, Debug)]
struct Seg {
    kind: SegKind,
    op: String,
    ents: Vec<NE>,
}

struct RunOut {
    segs: Vec<Seg>,
    /// callsite addresses learned for the table entries
    ids: Vec<Option<usize>>,
    stray: Vec<String>,
    foreign: u64,
    panic: Option<String>,
    raw_len: usize,
}

fn run_stack(
    spec: &StackSpec,
    tab: &[&'static Cs],
    pre: &[Option<usize>],
    ops: &[Op],
    retired: Arc<HashSet<usize>>,
) -> RunOut {
    let log = Arc::new(Log { e: Mutex::new(vec![]), retired });
    let (spec2, tab2, ops2, log2) = (spec.clone(), tab.to_vec(), ops.to_vec(), log.clone());
    // a fresh thread per run: thread-local filter state / span stacks never leak between runs
    let res = std::thread::Builder::new()
        .name("c09-run".into())
        .spawn(move || {
            run::catch(move || {
                let d = build(&spec2, &log2);
                drive(&d, &log2, &tab2, &ops2);
                drop(d);
            })
        })
        .expect("HARNESS: spawn run thread")
        .join();
    let panic = match res {
        Ok(Ok(())) => None,
        Ok(Err(p)) => Some(p),
        Err(_) => Some("run thread died".into()),
    };
    if let Some(p) = &panic {
        if p.starts_with("HARNESS:") {
            panic!("{p}");
        }
    }
    let raw = std::mem::take(&mut *log.e.lock().unwrap());
    let raw_len = raw.len();
    let mut ids: Vec<Option<usize>> = pre.to_vec();
    let mut by_addr: HashMap<usize, usize> = HashMap::new();
    for (i, a) in ids.iter().enumerate() {
        if let Some(a) = a {
            by_addr.insert(*a, i);
        }
    }
    let mut spans: HashMap<u64, usize> = HashMap::new();
    let mut segs: Vec<Seg> = vec![];
    let mut stray = vec![];
    let mut foreign = 0u64;
    let mut nseg = 0usize;
    for e in raw {
        if e.m == M::Op {
            let kind = match nseg {
                0 => SegKind::Build,
                1 => SegKind::Hint,
                2 => SegKind::DispatchNew,
                k if k - 3 < ops.len() => SegKind::Op(k - 3),
                _ => SegKind::Teardown,
            };
            nseg += 1;
            segs.push(Seg { kind, op: e.txt.clone().unwrap_or_default(), ents: vec![] });
            continue;
        }
        let Some(seg) = segs.last_mut() else {
            panic!("HARNESS: entry before the first op marker");
        };
        let cs = match e.cs {
            None => None,
            Some(a) => match by_addr.get(&a) {
                Some(i) => Some(*i),
                None => {
                    let hit = match seg.kind {
                        SegKind::Op(k) => ops[k].hits(),
                        _ => None,
                    };
                    match hit {
                        Some(ci) if ids[ci].is_none() => {
                            ids[ci] = Some(a);
                            by_addr.insert(a, ci);
                            Some(ci)
                        }
                        Some(_) => {
                            if stray.len() < 4 {
                                stray.push(format!("{} {} in op {}", e.who.show(), e.m.name(e.who), seg.op));
                            }
                            continue;
                        }
                        None => {
                            foreign += 1;
                            continue;
                        }
                    }
                }
            },
        };
        let mut sp = |x: Option<u64>| -> Option<usize> {
            x.map(|id| {
                let n = spans.len();
                *spans.entry(id).or_insert(n)
            })
        };
        let s1 = sp(e.s1);
        let s2 = sp(e.s2);
        seg.ents.push(NE { who: e.who, m: e.m, cs, s1, s2, v: e.v, ret: e.ret, txt: e.txt });
    }
    RunOut { segs, ids, stray, foreign, panic, raw_len }
}

// ------------------------------------------------------------------------------------------
// oracle 1: exactly-once / order automaton on an all-bare unfiltered stack
// ------------------------------------------------------------------------------------------

struct Problem {
    /// known-finding id if the divergence matches that finding's signature exactly
    fid: Option<&'static str>,
    cell: String,
    what: String,
    seg: usize,
}

#[derive(Default)]
struct Stats {
    evals: u64,
    distinct: HashSet<u64>,
    counters: BTreeMap<String, u64>,
    cells: BTreeSet<String>,
}
impl Stats {
    fn count(&mut self, k: &str, n: u64) {
        *self.counters.entry(k.to_string()).or_insert(0) += n;
    }
    fn sig(&mut self, s: &str) {
        self.distinct.insert(vlib::rng::hash_str(s));
    }
}

type Key = (M, Option<usize>, Option<usize>, Option<usize>, Option<u64>);

#[derive(Clone, Copy, Debug, PartialEq)]
enum H {
    No,
    Id(usize),
    Unknown,
}

const NOTIF: [M; 9] = [M::NewSpan, M::Record, M::Follows, M::Event, M::Enter, M::Exit, M::Close, M::IdChange, M::RegDispatch];

fn oracle1(spec: &StackSpec, classes: &[u32], ops: &[Op], run: &RunOut, st: &mut Stats) -> Vec<Problem> {
    let layers = spec.layers();
    let n = layers.len();
    let idb = spec.base == BaseKind::Id;
    let sc: Vec<&Script> = layers.iter().map(|l| &l.1).collect();
    let codes: Vec<String> = sc.iter().map(|s| s.code(classes)).collect();
    let has_tree = spec.elems.iter().any(|e| e.tree.is_some());
    let tree_shape = if has_tree { format!("|{}", spec.show(&[])) } else { String::new() };
    let shape = format!("{:?}|n{n}|{}{}", spec.base, codes.join(","), tree_shape);
    let mut expected_seq: Vec<Who> = vec![];
    if idb {
        expected_seq.push(Who::Base);
    }
    for l in &layers {
        expected_seq.push(Who::Layer(l.0));
    }
    // stack element each recorder belongs to (base: -1); a sequence "collapsed" to elements shows
    // whether a deviation is confined to the inside of and_then trees
    let elem_of = |w: &Who| -> i64 {
        match w {
            Who::Layer(i) => layers.iter().find(|l| l.0 == *i).map(|l| l.2 as i64).unwrap_or(-2),
            _ => -1,
        }
    };
    let collapse = |v: &[Who]| -> Vec<i64> {
        let mut out: Vec<i64> = vec![];
        for w in v {
            let e = elem_of(w);
            if out.last() != Some(&e) {
                out.push(e);
            }
        }
        out
    };
    let any_rej = |class: u32| sc.iter().any(|s| s.rejects(class));
    let any_never = |class: u32| sc.iter().any(|s| s.interest(class) == 0);
    let any_veto = |opid: u64| sc.iter().any(|s| s.vetoes_event(opid));

    let mut probs: Vec<Problem> = vec![];
    let mut f31: Vec<Problem> = vec![];
    let mut hid: Vec<H> = vec![H::No; nhandles(ops)];
    let mut entered: Vec<usize> = vec![];
    let mut spans_created = 0usize;
    let mut close_keys: Vec<Key> = vec![];

    for (si, seg) in run.segs.iter().enumerate() {
        // group entries by occurrence key
        let mut groups: Vec<(Key, Vec<(usize, Who)>)> = vec![];
        let mut obs: Vec<&str> = vec![];
        for (pos, e) in seg.ents.iter().enumerate() {
            if e.who == Who::Driver {
                if let Some(t) = &e.txt {
                    obs.push(t);
                }
                continue;
            }
            let (m, s2) = match (e.who, e.m) {
                (Who::Base, M::TryClose) => {
                    if e.ret == Some(1) {
                        (M::Close, None)
                    } else {
                        continue;
                    }
                }
                (Who::Base, M::CloneSpan) => {
                    if e.s1 != e.s2 {
                        (M::IdChange, e.s2)
                    } else {
                        continue;
                    }
                }
                (_, M::CurrentSpan | M::Hint | M::OnSubscribe) => continue,
                (_, m) => (m, e.s2),
            };
            let key: Key = (m, e.cs, e.s1, s2, e.v);
            match groups.iter_mut().find(|g| g.0 == key) {
                Some(g) => g.1.push((pos, e.who)),
                None => groups.push((key, vec![(pos, e.who)])),
            }
        }
        if seg.kind == SegKind::Build && has_tree {
            // on_subscribe is a build-time `&mut` callback outside the property's list: counted only
            let order: Vec<Who> = seg.ents.iter().filter(|e| e.m == M::OnSubscribe).map(|e| e.who).collect();
            let want: Vec<Who> = layers.iter().map(|l| Who::Layer(l.0)).collect();
            let k = if order == want {
                "tree_on_subscribe_inner_before_outer"
            } else if order.len() == want.len() && want.iter().all(|w| order.contains(w)) {
                "tree_on_subscribe_each_once_other_order"
            } else {
                "tree_on_subscribe_not_each_once"
            };
            st.count(k, 1);
        }
        let mut prob = |fid: Option<&'static str>, m: M, what: String| {
            probs.push(Problem { fid, cell: format!("(method={}, Layered stack)", m.name(Who::Layer(0))), what, seg: si });
        };
        // generic per-group rules
        for (key, members) in &groups {
            let m = key.0;
            let whos: Vec<Who> = members.iter().map(|x| x.1).collect();
            let cnt = |w: Who| whos.iter().filter(|x| **x == w).count();
            if NOTIF.contains(&m) {
                st.evals += 1;
                st.count(&format!("o1_occurrences_{}", m.name(Who::Layer(0))), 1);
                st.sig(&format!("o1|{m:?}|{shape}"));
                st.cells.insert(format!("{} x Layered", m.name(Who::Layer(0))));
                let all_once = expected_seq.iter().all(|w| cnt(*w) == 1) && whos.len() == expected_seq.len();
                if m == M::RegDispatch && has_tree && whos != expected_seq && all_once && collapse(&whos) == collapse(&expected_seq) {
                    // F31 (provisional): everybody is told exactly once and the stack elements are
                    // visited inner before outer, but INSIDE an and_then tree the outer subscriber
                    // is told before the inner one
                    st.count("tree_on_register_dispatch_outer_before_inner", 1);
                    f31.push(Problem {
                        fid: Some("F31"),
                        cell: "(method=on_register_dispatch, shape=and_then tree, clause=inner-before-outer)".into(),
                        what: format!(
                            "on_register_dispatch reached the layers in the order {} (the property demands inner before outer: {})",
                            whos.iter().map(|w| w.show()).collect::<Vec<_>>().join(" "),
                            expected_seq.iter().map(|w| w.show()).collect::<Vec<_>>().join(" ")
                        ),
                        seg: si,
                    });
                } else if whos != expected_seq {
                    let bad_count = expected_seq.iter().find(|w| cnt(**w) != 1);
                    let what = match bad_count {
                        Some(w) => format!(
                            "{} received {} {} times for one occurrence (expected exactly once); receivers in order: {}",
                            w.show(),
                            m.name(*w),
                            cnt(*w),
                            whos.iter().map(|w| w.show()).collect::<Vec<_>>().join(" ")
                        ),
                        None => format!(
                            "{} delivered in the order {} (expected inner before outer: {})",
                            m.name(Who::Layer(0)),
                            whos.iter().map(|w| w.show()).collect::<Vec<_>>().join(" "),
                            expected_seq.iter().map(|w| w.show()).collect::<Vec<_>>().join(" ")
                        ),
                    };
                    prob(None, m, what);
                }
            } else if matches!(m, M::RegCallsite | M::Enabled | M::EvEnabled) {
                st.evals += 1;
                st.count(&format!("o1_queries_{}", m.name(Who::Layer(0))), 1);
                // `enabled!` consults Collect::enabled twice by design (interest check, then the probe
                // itself): two Collect-level occurrences in one client operation
                let is_probe = matches!(seg.kind, SegKind::Op(k) if matches!(ops[k], Op::Probe { .. }));
                let cap = if is_probe && m == M::Enabled { 2 } else { 1 };
                let mut outer = usize::MAX;
                for w in expected_seq.iter().rev() {
                    let c = cnt(*w);
                    let class = key.1.map(|c| classes[c]);
                    let must = m == M::RegCallsite && *w != Who::Base && class.map(|c| !any_never(c)).unwrap_or(false);
                    // (inside an and_then tree an inner `never` only short-circuits its own subtree:
                    // an outer `sometimes` overrides it and the layers further in are still asked,
                    // so the "asked no more often than the outer neighbour" clause is list-only)
                    if c > cap || (must && c != 1) || (!has_tree && c > outer) {
                        prob(None, m, format!("{} was asked {} {} times for one occurrence (outer neighbour: {})", w.show(), m.name(*w), c, if outer == usize::MAX { "-".to_string() } else { outer.to_string() }));
                    }
                    outer = c;
                }
            }
        }
        let keys_of = |m: M| -> Vec<&Key> { groups.iter().filter(|g| g.0 .0 == m).map(|g| &g.0).collect() };
        let first_pos = |m: M| -> Option<usize> { groups.iter().filter(|g| g.0 .0 == m).flat_map(|g| g.1.iter().map(|x| x.0)).min() };
        let mut allowed: Vec<M> = vec![];
        // (method, number of groups expected, None = any number)
        let mut want: Vec<(M, Option<usize>, String)> = vec![];
        match seg.kind {
            SegKind::Build | SegKind::Hint => {}
            SegKind::DispatchNew => {
                allowed.push(M::RegDispatch);
                if n >= 1 && keys_of(M::RegDispatch).is_empty() {
                    prob(
                        Some("F4a"),
                        M::RegDispatch,
                        "Dispatch::new(stack): no layer (and not the base collector) received on_register_dispatch".into(),
                    );
                    st.evals += 1;
                    st.cells.insert("on_register_dispatch x Layered".into());
                    st.sig(&format!("o1|RegDispatch-missing|{shape}"));
                } else {
                    want.push((M::RegDispatch, Some(1), "Dispatch::new".into()));
                }
            }
            SegKind::Teardown => allowed.push(M::Close),
            SegKind::Op(k) => match &ops[k] {
                Op::Span { cs, h, opid } => {
                    let delivered = !any_rej(classes[*cs]);
                    allowed.push(M::NewSpan);
                    want.push((M::NewSpan, Some(delivered as usize), format!("span creation, expected delivered={delivered}")));
                    let ks = keys_of(M::NewSpan);
                    hid[*h] = H::No;
                    if delivered {
                        spans_created += 1;
                        if let Some(key) = ks.first() {
                            if key.1 != Some(*cs) || key.4 != Some(*opid) {
                                prob(None, M::NewSpan, format!("on_new_span carries callsite {:?} / serial {:?}, expected cs{cs} / {opid}", key.1, key.4));
                            }
                            if let Some(s) = key.2 {
                                hid[*h] = H::Id(s);
                            }
                        }
                    } else {
                        st.count("o1_vetoed_spans", 1);
                    }
                    let want_obs = format!("span disabled={}", !delivered);
                    if !obs.iter().any(|o| *o == want_obs) {
                        prob(None, M::NewSpan, format!("span handle state {obs:?}, expected {want_obs:?}"));
                    }
                }
                Op::Event { cs, opid } => {
                    let passed_meta = !any_rej(classes[*cs]);
                    let delivered = passed_meta && !any_veto(*opid);
                    allowed.push(M::Event);
                    let why = if delivered {
                        "no layer vetoes".to_string()
                    } else if !passed_meta {
                        "a layer's enabled/register_callsite rejects the callsite".to_string()
                    } else {
                        "a layer's event_enabled vetoes".to_string()
                    };
                    want.push((M::Event, Some(delivered as usize), format!("event #{opid}: {why}")));
                    if !delivered {
                        st.count(if passed_meta { "o1_events_vetoed_by_event_enabled" } else { "o1_events_vetoed_by_enabled" }, 1);
                    }
                    if delivered {
                        st.count("o1_events_delivered", 1);
                        if let Some(key) = keys_of(M::Event).first() {
                            if key.1 != Some(*cs) || key.4 != Some(*opid) {
                                prob(None, M::Event, format!("on_event carries callsite {:?} / id {:?}, expected cs{cs} / {opid}", key.1, key.4));
                            }
                        }
                        // event_enabled: exactly once per layer, all before the first on_event
                        let ee: Vec<&(Key, Vec<(usize, Who)>)> = groups.iter().filter(|g| g.0 .0 == M::EvEnabled).collect();
                        for i in 0..n {
                            let w = Who::Layer(i as u8);
                            let c: usize = ee.iter().map(|g| g.1.iter().filter(|x| x.1 == w).count()).sum();
                            if c != 1 {
                                prob(None, M::EvEnabled, format!("{} was asked event_enabled {c} times for delivered event #{opid}", w.show()));
                            }
                        }
                        if let (Some(last_ee), Some(first_ev)) =
                            (ee.iter().flat_map(|g| g.1.iter().map(|x| x.0)).max(), first_pos(M::Event))
                        {
                            if last_ee > first_ev {
                                prob(None, M::EvEnabled, format!("event #{opid}: an event_enabled query came after the first on_event"));
                            }
                        }
                    }
                }
                Op::Probe { cs } => {
                    let want_obs = format!("probe={}", !any_rej(classes[*cs]));
                    if !obs.iter().any(|o| *o == want_obs) {
                        prob(None, M::Enabled, format!("enabled! answered {obs:?}, expected {want_obs:?}"));
                    }
                }
                Op::Record { h, v } => {
                    allowed.push(M::Record);
                    match hid[*h] {
                        H::No => want.push((M::Record, Some(0), "record on a disabled handle".into())),
                        H::Unknown => {}
                        H::Id(s) => {
                            want.push((M::Record, Some(1), "record on a live span".into()));
                            if let Some(key) = keys_of(M::Record).first() {
                                if key.2 != Some(s) || key.4 != Some(*v) {
                                    prob(None, M::Record, format!("on_record carries span {:?} / value {:?}, expected s{s} / {v}", key.2, key.4));
                                }
                            }
                        }
                    }
                }
                Op::Follows { a, b } => {
                    allowed.push(M::Follows);
                    match (hid[*a], hid[*b]) {
                        (H::Id(x), H::Id(y)) => {
                            want.push((M::Follows, Some(1), "follows_from between live spans".into()));
                            if let Some(key) = keys_of(M::Follows).first() {
                                if key.2 != Some(x) || key.3 != Some(y) {
                                    prob(None, M::Follows, format!("on_follows_from carries {:?} -> {:?}, expected s{x} -> s{y}", key.2, key.3));
                                }
                            }
                        }
                        (H::No, _) | (_, H::No) => want.push((M::Follows, Some(0), "follows_from with a disabled handle".into())),
                        _ => {}
                    }
                }
                Op::Enter { h } | Op::Exit { h } => {
                    let m = if matches!(ops[k], Op::Enter { .. }) { M::Enter } else { M::Exit };
                    allowed.push(m);
                    if m == M::Exit {
                        allowed.push(M::Close);
                    }
                    match hid[*h] {
                        H::No => want.push((m, Some(0), "enter/exit of a disabled handle".into())),
                        H::Unknown => {}
                        H::Id(s) => {
                            want.push((m, Some(1), "enter/exit of a live span".into()));
                            if let Some(key) = keys_of(m).first() {
                                if key.2 != Some(s) {
                                    prob(None, m, format!("{} carries span {:?}, expected s{s}", m.name(Who::Layer(0)), key.2));
                                }
                            }
                        }
                    }
                    if m == M::Enter {
                        if hid[*h] != H::No {
                            entered.push(*h);
                        }
                    } else if let Some(p) = entered.iter().rposition(|x| x == h) {
                        entered.remove(p);
                    }
                }
                Op::Clone { h, to } => {
                    allowed.push(M::IdChange);
                    match hid[*h] {
                        H::No => {
                            hid[*to] = H::No;
                            want.push((M::IdChange, Some(0), "clone of a disabled handle".into()));
                        }
                        H::Unknown => {
                            hid[*to] = H::Unknown;
                            if idb {
                                if let Some(key) = keys_of(M::IdChange).first() {
                                    hid[*to] = key.3.map(H::Id).unwrap_or(H::Unknown);
                                }
                            }
                        }
                        H::Id(s) => {
                            if idb {
                                want.push((M::IdChange, Some(1), "clone on the id-changing base".into()));
                                hid[*to] = H::Unknown;
                                if let Some(key) = keys_of(M::IdChange).first() {
                                    if key.2 != Some(s) {
                                        prob(None, M::IdChange, format!("on_id_change carries old id {:?}, expected s{s}", key.2));
                                    }
                                    hid[*to] = key.3.map(H::Id).unwrap_or(H::Unknown);
                                }
                            } else {
                                want.push((M::IdChange, Some(0), "clone on Registry (id unchanged)".into()));
                                hid[*to] = H::Id(s);
                            }
                        }
                    }
                }
                Op::Current { to } => {
                    allowed.push(M::IdChange);
                    if entered.is_empty() {
                        hid[*to] = H::No;
                        want.push((M::IdChange, Some(0), "Span::current() with nothing entered".into()));
                    } else if idb {
                        let ks = keys_of(M::IdChange);
                        if ks.len() > 1 {
                            prob(None, M::IdChange, format!("Span::current(): {} on_id_change occurrences", ks.len()));
                        }
                        hid[*to] = ks.first().and_then(|k| k.3).map(H::Id).unwrap_or(H::Unknown);
                    } else {
                        hid[*to] = H::Unknown;
                        want.push((M::IdChange, Some(0), "Span::current() on Registry".into()));
                    }
                }
                Op::Drop { h } => {
                    allowed.push(M::Close);
                    hid[*h] = H::No;
                }
                Op::Rebuild => {}
            },
        }
        for (m, cnt, why) in &want {
            if let Some(c) = cnt {
                let got = keys_of(*m).len();
                if got != *c {
                    let what = if *c == 0 {
                        format!("{} was delivered although it must not be ({why}); {} occurrence(s) seen", m.name(Who::Layer(0)), got)
                    } else {
                        format!("{} occurrences seen: {got}, expected {c} ({why})", m.name(Who::Layer(0)))
                    };
                    prob(None, *m, what);
                }
            }
        }
        for (key, _) in &groups {
            if NOTIF.contains(&key.0) && !allowed.contains(&key.0) {
                prob(None, key.0, format!("unexpected {} during `{}`", key.0.name(Who::Layer(0)), seg.op));
            }
            if key.0 == M::Close {
                if close_keys.contains(key) {
                    prob(None, M::Close, format!("span s{:?} closed twice", key.2));
                }
                close_keys.push(*key);
            }
        }
    }
    probs.extend(f31);
    if run.panic.is_none() && close_keys.len() != spans_created {
        probs.push(Problem {
            fid: None,
            cell: "(method=on_close, Layered stack)".into(),
            what: format!("{} spans were created and all handles dropped, but {} close occurrences were observed", spans_created, close_keys.len()),
            seg: run.segs.len().saturating_sub(1),
        });
    }
    probs
}

// ------------------------------------------------------------------------------------------
// oracle 2: differential (reference stack vs. variant with pass-through wrappers)
// ------------------------------------------------------------------------------------------

struct Target {
    /// wrapper description, e.g. "Some(Vec[1])"
    ws: String,
    whos: Vec<Who>,
    /// collector wrapper / absent element: every recorder is a neighbour to be compared
    all: bool,
    pos: usize,
}

fn nest_name<T: Copy>(nest: &[T], f: impl Fn(T) -> &'static str) -> String {
    // innermost first in the spec; print outermost first
    let mut s = String::new();
    for (i, w) in nest.iter().rev().enumerate() {
        if i > 0 {
            s.push('(');
        }
        s.push_str(f(*w));
    }
    for _ in 1..nest.len() {
        s.push(')');
    }
    s
}

fn targets(reference: &StackSpec, variant: &StackSpec) -> Vec<Target> {
    let mut ts = vec![];
    for (pos, v) in variant.elems.iter().enumerate() {
        if let Some(a) = v.absent {
            ts.push(Target { ws: a.name().into(), whos: vec![], all: true, pos });
            continue;
        }
        let Some(r) = reference.elems.iter().find(|r| r.absent.is_none() && r.idx == v.idx) else {
            panic!("HARNESS: variant layer {} has no counterpart", v.idx);
        };
        if r.nest != v.nest || r.bare != v.bare {
            let ws = if v.nest.is_empty() { "Box<dyn Subscribe>".to_string() } else { nest_name(&v.nest, LW::name) };
            let mut whos = vec![Who::Layer(v.idx)];
            if v.filt.is_some() {
                whos.push(Who::Filter(v.idx));
            }
            ts.push(Target { ws, whos, all: false, pos });
        }
        match (&r.filt, &v.filt) {
            (None, None) => {}
            (Some(a), Some(b)) => {
                if a != b && b.none {
                    ts.push(Target { ws: "with_filter(None::<F>)".into(), whos: vec![Who::Layer(v.idx)], all: false, pos });
                } else if a != b {
                    let ws = if b.nest.is_empty() { "Box<dyn Filter>".to_string() } else { nest_name(&b.nest, FW::name) };
                    ts.push(Target { ws, whos: vec![Who::Filter(v.idx), Who::Layer(v.idx)], all: false, pos });
                }
            }
            _ => panic!("HARNESS: reference/variant filters are not comparable"),
        }
    }
    if reference.cwrap != variant.cwrap {
        ts.push(Target { ws: nest_name(&variant.cwrap, CW::name), whos: vec![], all: true, pos: variant.elems.len() });
    }
    if reference.bwrap != variant.bwrap {
        ts.push(Target { ws: variant.bwrap.map(BW::name).unwrap_or("bare base").to_string(), whos: vec![], all: true, pos: 0 });
    }
    ts
}

/// Does `e` belong to a cell that a known finding covers in this pair?
fn known_cell(reference: &StackSpec, variant: &StackSpec, e: &NE, vseg: &[&NE]) -> Option<&'static str> {
    if e.m == M::RegDispatch && !variant.cwrap.is_empty() && reference.cwrap.is_empty() {
        return Some("F4b");
    }
    let idx = match e.who {
        Who::Layer(i) | Who::Filter(i) => i,
        _ => return None,
    };
    let v = variant.elems.iter().find(|x| x.absent.is_none() && x.idx == idx)?;
    let r = reference.elems.iter().find(|x| x.absent.is_none() && x.idx == idx)?;
    let new_reload_filter = match &v.filt {
        Some(vf) => vf.nest.contains(&FW::Reload) && !r.filt.as_ref().map(|f| f.nest.contains(&FW::Reload)).unwrap_or(false),
        None => false,
    };
    let reload_filter = new_reload_filter && e.m == M::EvEnabled && matches!(e.who, Who::Filter(_));
    if v.nest.contains(&LW::Vec1) && !r.nest.contains(&LW::Vec1) {
        // both a Vec around the filtered layer and a reload handle around its filter: the Vec
        // swallows the whole Filtered::event_enabled (layer not asked either), the reload handle
        // only the filter's part (the layer is still asked)
        let layer_asked = vseg.iter().any(|x| x.who == Who::Layer(idx) && x.m == M::EvEnabled);
        if new_reload_filter && e.m == M::EvEnabled && layer_asked {
            return Some("F6");
        }
        let hit = match e.who {
            Who::Layer(_) => matches!(e.m, M::EvEnabled | M::IdChange),
            _ => e.m == M::EvEnabled,
        };
        if hit {
            return Some("F5");
        }
    }
    if reload_filter {
        return Some("F6");
    }
    None
}

/// the wrapper (nest) that a known finding blames for entry `e`
fn known_wrapper(variant: &StackSpec, e: &NE, fid: &str) -> String {
    let elem = match e.who {
        Who::Layer(i) | Who::Filter(i) => variant.elems.iter().find(|x| x.absent.is_none() && x.idx == i),
        _ => None,
    };
    match (fid, elem) {
        ("F4b", _) => nest_name(&variant.cwrap, CW::name),
        ("F5", Some(x)) => nest_name(&x.nest, LW::name),
        ("F6", Some(x)) => x.filt.as_ref().map(|f| nest_name(&f.nest, FW::name)).unwrap_or_default(),
        _ => "?".into(),
    }
}

/// `reload::Subscriber` documents that it does not forward `on_subscribe`; a `None::<F>` filter is
/// compared with an accept-everything recording filter whose own log has no counterpart
fn documented_gap(variant: &StackSpec, e: &NE) -> bool {
    if let Who::Filter(i) = e.who {
        return variant.elems.iter().any(|x| x.absent.is_none() && x.idx == i && x.filt.as_ref().map(|f| f.none).unwrap_or(false));
    }
    if e.m != M::OnSubscribe {
        return false;
    }
    match e.who {
        Who::Layer(i) => variant.elems.iter().any(|x| x.absent.is_none() && x.idx == i && x.nest.contains(&LW::Reload)),
        _ => false,
    }
}

fn fid_what(fid: &str) -> &'static str {
    match fid {
        "F4a" => "impl Collect for Layered lacks on_register_dispatch: no layer of a stack is told",
        "F4b" => "Box<dyn Collect>/Arc<dyn Collect> do not forward on_register_dispatch",
        "F5" => "Vec<S> forwards neither event_enabled nor on_id_change",
        "F6" => "reload::Subscriber as Filter does not forward event_enabled",
        "F10" => "an empty Vec of layers answers Interest::never / Some(OFF) and silences the whole stack",
        "F31" => "impl Subscribe for Layered (a.and_then(b)) tells the OUTER subscriber about the new Dispatch before the inner one",
        _ => "?",
    }
}

fn compare(
    reference: &StackSpec,
    variant: &StackSpec,
    classes: &[u32],
    a: &RunOut,
    b: &RunOut,
    st: &mut Stats,
) -> Vec<Problem> {
    let ts = targets(reference, variant);
    if ts.is_empty() {
        panic!("HARNESS: reference and variant stacks are identical");
    }
    let nreal = reference.elems.iter().filter(|e| e.absent.is_none()).count();
    let codes: Vec<String> = reference
        .elems
        .iter()
        .map(|e| format!("{}{}", e.sc.code(classes), e.filt.as_ref().map(|f| format!("/{}", f.sc.code(classes))).unwrap_or_default()))
        .collect();
    // cells judged by this comparison
    for t in &ts {
        let mut seen: BTreeSet<(String, bool)> = BTreeSet::new();
        for seg in &a.segs {
            for e in &seg.ents {
                if e.who == Who::Driver {
                    continue;
                }
                let own = t.whos.contains(&e.who);
                if t.all || own {
                    seen.insert((e.m.name(e.who).to_string(), own));
                } else {
                    seen.insert(("neighbours".to_string(), false));
                }
            }
        }
        for (mname, _) in seen {
            let cell = format!("{mname} x {}", t.ws);
            st.evals += 1;
            st.count("cells_judged", 1);
            st.sig(&format!("{cell}|{:?}|n{nreal}|p{}|{}", reference.base, t.pos, codes.join(",")));
            st.cells.insert(cell);
        }
    }
    let wrapper_desc = ts.iter().map(|t| format!("{} at position {}", t.ws, t.pos)).collect::<Vec<_>>().join(" + ");
    let mut probs = vec![];
    if a.segs.len() != b.segs.len() && a.panic.is_none() && b.panic.is_none() {
        panic!("HARNESS: reference and variant runs have different numbers of operations");
    }
    let has_empty_vec = variant.elems.iter().any(|e| e.absent == Some(Absent::EmptyVec));
    let mut f3_armed = false;
    let none_over_psf = variant.elems.iter().any(|e| e.absent == Some(Absent::NoneLayer)) && variant.elems.iter().any(|e| e.filt.is_some());
    for si in 0..a.segs.len().min(b.segs.len()) {
        let (sa, sb) = (&a.segs[si], &b.segs[si]);
        if sa.op != sb.op {
            panic!("HARNESS: operation markers differ: {} vs {}", sa.op, sb.op);
        }
        // Known finding F3 (C07): an emission that a per-layer filter rejected and that ended before
        // on_event/on_new_span leaves that filter's bit set until the next `enabled` pass.  Whether
        // the next emission runs an `enabled` pass depends on the cached interest, which `None`
        // above per-layer filters may change (see below) - from that point the two runs are not
        // comparable any more.
        if none_over_psf && f3_armed {
            st.count("runs_cut_after_F3_precondition(None above per-layer filters)", 1);
            return probs;
        }
        for seg in [sa, sb] {
            let rejected = seg.ents.iter().any(|e| matches!(e.who, Who::Filter(_)) && matches!(e.m, M::Enabled | M::EvEnabled) && e.ret == Some(0));
            let delivered = seg.ents.iter().any(|e| matches!(e.who, Who::Layer(_)) && matches!(e.m, M::Event | M::NewSpan));
            if rejected && !delivered {
                f3_armed = true;
            }
        }
        let mut ea: Vec<&NE> = sa.ents.iter().filter(|e| !documented_gap(variant, e)).collect();
        let mut eb: Vec<&NE> = sb.ents.iter().filter(|e| !documented_gap(variant, e)).collect();
        if ea == eb {
            continue;
        }
        if none_over_psf {
            // Layered::pick_interest (documented there): an element answering `always` above a
            // stack that contains per-layer filters turns the inner `never` into `sometimes`.
            // The decision is unchanged, only `enabled` is consulted where the reference had the
            // answer cached; that query traffic is not judged in this constellation.
            ea.retain(|e| e.m != M::Enabled);
            eb.retain(|e| e.m != M::Enabled);
            if ea == eb {
                st.count("segments_equal_modulo_enabled_queries(None above per-layer filters)", 1);
                continue;
            }
        }
        st.count("segments_differing", 1);
        let first = (0..ea.len().max(eb.len())).find(|&i| ea.get(i) != eb.get(i)).unwrap();
        let dev = ea.get(first).or(eb.get(first)).unwrap();
        let show_dev = format!(
            "first deviation in `{}` at entry {first}: reference {} / variant {}",
            sa.op,
            ea.get(first).map(|e| e.show()).unwrap_or_else(|| "<end>".into()),
            eb.get(first).map(|e| e.show()).unwrap_or_else(|| "<end>".into())
        );
        if has_empty_vec {
            probs.push(Problem {
                fid: Some("F10"),
                cell: "(neighbours, wrapper=Vec::<L>::new())".into(),
                what: format!("stack with an empty Vec of layers behaves differently from the stack without it; {show_dev}"),
                seg: si,
            });
            return probs;
        }
        let ka: Vec<&NE> = ea.iter().copied().filter(|e| known_cell(reference, variant, e, &eb).is_none()).collect();
        let kb: Vec<&NE> = eb.iter().copied().filter(|e| known_cell(reference, variant, e, &eb).is_none()).collect();
        if ka == kb {
            // the only differences are entries of known-broken cells
            let mut per: BTreeMap<(&'static str, String, String), (usize, usize)> = BTreeMap::new();
            for e in &ea {
                if let Some(f) = known_cell(reference, variant, e, &eb) {
                    per.entry((f, e.m.name(e.who).to_string(), known_wrapper(variant, e, f))).or_insert((0, 0)).0 += 1;
                }
            }
            for e in &eb {
                if let Some(f) = known_cell(reference, variant, e, &eb) {
                    per.entry((f, e.m.name(e.who).to_string(), known_wrapper(variant, e, f))).or_insert((0, 0)).1 += 1;
                }
            }
            for ((f, mname, wname), (na, nb)) in per {
                if na != nb {
                    probs.push(Problem {
                        fid: Some(f),
                        cell: format!("(method={mname}, wrapper={wname})"),
                        what: format!("{mname}: {na} call(s) without the wrapper, {nb} with it (nothing else differs); {show_dev}"),
                        seg: si,
                    });
                }
            }
            // a *rejecting* answer of the wrapped element was swallowed: even if this operation
            // ends the same way (somebody else vetoed too), hidden per-thread filter state may now
            // differ (known finding F3 of C07) - the rest of the run is not judged
            if ea.iter().any(|e| known_cell(reference, variant, e, &eb).is_some() && e.ret == Some(0))
                && !eb.iter().any(|e| known_cell(reference, variant, e, &eb).is_some() && e.ret == Some(0))
            {
                st.count("runs_cut_after_lost_veto", 1);
                return probs;
            }
            continue;
        }
        // a veto that the known-broken cell swallowed explains every consequence in this
        // operation; the rest of the run is not judged (state may legitimately differ)
        let lost_veto = ea.iter().find_map(|e| match known_cell(reference, variant, e, &eb) {
            Some(f) if e.ret == Some(0) && e.m == M::EvEnabled => Some((f, e.m.name(e.who), known_wrapper(variant, e, f))),
            _ => None,
        });
        if let Some((f, mname, wname)) = lost_veto {
            let swallowed = !eb.iter().any(|e| known_cell(reference, variant, e, &eb).is_some() && e.ret == Some(0));
            if swallowed && known_cell(reference, variant, dev, &eb).is_some() {
                probs.push(Problem {
                    fid: Some(f),
                    cell: format!("(method={mname}, wrapper={wname})"),
                    what: format!("a veto in {mname} is lost through the wrapper and the event is delivered; {show_dev}"),
                    seg: si,
                });
                st.count("runs_cut_after_lost_veto", 1);
                return probs;
            }
        }
        let own = ts.iter().any(|t| t.whos.contains(&dev.who));
        let blamed = match ts.iter().find(|t| t.whos.contains(&dev.who)) {
            Some(t) if ts.len() > 1 => format!("{} at position {} [whole variant: {wrapper_desc}]", t.ws, t.pos),
            _ => wrapper_desc.clone(),
        };
        probs.push(Problem {
            fid: None,
            cell: format!("(method={}, wrapper={blamed})", dev.m.name(dev.who)),
            what: format!(
                "{} observes something different with the wrapper; {show_dev}",
                if own { "the wrapped element" } else { "a neighbour of the wrapped element" }
            ),
            seg: si,
        });
        return probs;
    }
    probs
}

// ------------------------------------------------------------------------------------------
// callsite tables (fresh / reused callsites, same cache state on both sides of a pair)
// ------------------------------------------------------------------------------------------

struct Proc {
    fresh: Fresh,
    /// callsites this process has registered: class -> (callsite, address)
    known: HashMap<u32, Vec<(&'static Cs, usize)>>,
    all_addrs: HashSet<usize>,
    fresh_taken: usize,
}

struct Table {
    a: Vec<&'static Cs>,
    b: Vec<&'static Cs>,
    pre: Vec<Option<usize>>,
    classes: Vec<u32>,
}
impl Table {
    fn describe(&self) -> Vec<String> {
        (0..self.a.len())
            .map(|i| {
                format!(
                    "cs{i} = {} ({})",
                    class_name(self.classes[i]),
                    if self.pre[i].is_some() {
                        format!("reused pool#{} - registered before, interest recomputed by Dispatch::new", self.a[i].idx)
                    } else {
                        format!("fresh: pool#{} for the reference, pool#{} for the variant", self.a[i].idx, self.b[i].idx)
                    }
                )
            })
            .collect()
    }
}

impl Proc {
    fn new() -> Self {
        Proc { fresh: Fresh::new(), known: HashMap::new(), all_addrs: HashSet::new(), fresh_taken: 0 }
    }
    fn table(&mut self, rng: &mut Rng, kinds: &[Kind]) -> Table {
        let mut t = Table { a: vec![], b: vec![], pre: vec![], classes: vec![] };
        for &k in kinds {
            let kk = match k {
                Kind::Event => 0,
                Kind::Span => 1,
                Kind::Probe => 2,
            };
            let mut done = false;
            for _try in 0..200 {
                let (l, tg) = (1 + rng.usize(5), rng.usize(4));
                let class = class_bit(l, tg, kk);
                if t.classes.contains(&class) {
                    continue;
                }
                let reuse = self.known.get(&class).filter(|v| !v.is_empty());
                let want_reuse = self.fresh_taken > 8 && rng.chance(3, 5);
                if let (true, Some(v)) = (want_reuse, reuse) {
                    let (cs, addr) = *rng.pick(v);
                    t.a.push(cs);
                    t.b.push(cs);
                    t.pre.push(Some(addr));
                    t.classes.push(class);
                    done = true;
                    break;
                }
                if self.fresh.remaining(l, tg, k) >= 2 {
                    let a = self.fresh.take(l, tg, k).unwrap();
                    let b = self.fresh.take(l, tg, k).unwrap();
                    self.fresh_taken += 2;
                    t.a.push(a);
                    t.b.push(b);
                    t.pre.push(None);
                    t.classes.push(class);
                    done = true;
                    break;
                }
                if let Some(v) = reuse {
                    let (cs, addr) = *rng.pick(v);
                    t.a.push(cs);
                    t.b.push(cs);
                    t.pre.push(Some(addr));
                    t.classes.push(class);
                    done = true;
                    break;
                }
            }
            if !done {
                panic!("HARNESS: callsite pool exhausted");
            }
        }
        t
    }
    fn retired_for(&self, pre: &[Option<usize>]) -> Arc<HashSet<usize>> {
        let mut s = self.all_addrs.clone();
        for a in pre.iter().flatten() {
            s.remove(a);
        }
        Arc::new(s)
    }
    fn learn(&mut self, tab: &[&'static Cs], classes: &[u32], ids: &[Option<usize>]) {
        for i in 0..tab.len() {
            if let Some(a) = ids[i] {
                if self.all_addrs.insert(a) {
                    self.known.entry(classes[i]).or_default().push((tab[i], a));
                }
            }
        }
    }
}

// ------------------------------------------------------------------------------------------
// comparisons: systematic enumeration and random generation
// ------------------------------------------------------------------------------------------

#[derive(Clone, Debug)]
enum SysKind {
    /// layer at p: bare vs `Box<dyn Subscribe>`(L) with `nest` on top (empty nest: the Box<dyn> cell itself)
    Layer(Vec<LW>),
    /// filtered layer at p wrapped as a layer
    FilteredLayer(Vec<LW>),
    /// filter of the layer at p: bare RecFilter vs Box<dyn Filter>(F) with nest on top
    Filter(Vec<FW>),
    /// plain layer vs the same layer `.with_filter(None::<F>)`
    FilterNone,
    Absent(Absent),
    Collector(Vec<CW>),
    /// the base collector inside Box / Arc, underneath the layers
    Base(BW),
}

#[derive(Clone, Debug)]
struct SysCase {
    base: BaseKind,
    n: usize,
    p: usize,
    kind: SysKind,
    sv: usize,
}

fn sys_cases(thorough: bool) -> Vec<SysCase> {
    let maxn = if thorough { 5 } else { 3 };
    let mut lnests: Vec<Vec<LW>> = vec![vec![]];
    for w in ALL_LW {
        lnests.push(vec![w]);
    }
    let mut fnests: Vec<Vec<FW>> = vec![vec![]];
    for w in ALL_FW {
        fnests.push(vec![w]);
    }
    let mut cnests: Vec<Vec<CW>> = ALL_CW.iter().map(|w| vec![*w]).collect();
    if thorough {
        for a in ALL_LW {
            for b in ALL_LW {
                lnests.push(vec![a, b]);
            }
        }
        for a in ALL_FW {
            for b in ALL_FW {
                fnests.push(vec![a, b]);
            }
        }
        for a in ALL_CW {
            for b in ALL_CW {
                cnests.push(vec![a, b]);
            }
        }
    }
    let mut v = vec![];
    for base in [BaseKind::Reg, BaseKind::Id] {
        for n in 1..=maxn {
            for p in 0..n {
                for nest in &lnests {
                    for sv in 0..5 {
                        v.push(SysCase { base, n, p, kind: SysKind::Layer(nest.clone()), sv });
                    }
                }
                if base == BaseKind::Reg {
                    for nest in &lnests {
                        if nest.iter().any(|w| matches!(w, LW::Reload | LW::IdOuter | LW::IdInner)) {
                            // reload: documented, no on_subscribe => no Filtered inside.  Identity tree
                            // node: Layered documents that a tree with one filtered and one unfiltered
                            // branch is deliberately classified as unfiltered (layered.rs downcast_raw),
                            // which changes how interests/hints are combined - C07/C08 territory
                            continue;
                        }
                        for sv in [0, 1, 2] {
                            v.push(SysCase { base, n, p, kind: SysKind::FilteredLayer(nest.clone()), sv });
                        }
                    }
                    for nest in &fnests {
                        for sv in 0..5 {
                            v.push(SysCase { base, n, p, kind: SysKind::Filter(nest.clone()), sv });
                        }
                    }
                    v.push(SysCase { base, n, p, kind: SysKind::FilterNone, sv: 0 });
                    v.push(SysCase { base, n, p, kind: SysKind::FilterNone, sv: 3 });
                }
            }
            for p in 0..=n {
                if n + 1 > MAXD {
                    continue;
                }
                for a in [Absent::NoneLayer, Absent::EmptyVec] {
                    for sv in [0, 1, 3] {
                        v.push(SysCase { base, n, p, kind: SysKind::Absent(a), sv });
                    }
                }
            }
        }
        for n in 0..=maxn {
            if n == 0 && base == BaseKind::Reg {
                continue; // nothing records
            }
            for nest in &cnests {
                for sv in [0, 1, 2, 4] {
                    v.push(SysCase { base, n, p: 0, kind: SysKind::Collector(nest.clone()), sv });
                }
            }
            for bw in ALL_BW {
                for sv in [0, 1, 2, 4] {
                    v.push(SysCase { base, n, p: 0, kind: SysKind::Base(bw), sv });
                }
            }
        }
    }
    v
}

/// script variant `sv` for the element that plays the role `target` (true) or `neighbour`
fn sys_script(sv: usize, target: bool, neighbour_is_vetoer: bool, n: usize, cl: &[u32]) -> Script {
    let mut s = Script::plain();
    let bit = |c: u32| 1u64 << c;
    match (sv, target) {
        (1, true) => {
            s.rej = bit(cl[1]) | bit(cl[2]);
            s.int_rej = 1;
            s.int_other = 1;
        }
        (2, true) => {
            s.ev_mod = 2;
            s.ev_rem = 0;
        }
        (3, true) => {
            s.int_other = 1;
            if n == 1 {
                s.ev_mod = 3;
                s.ev_rem = 1;
            }
        }
        (3, false) if neighbour_is_vetoer => {
            s.ev_mod = 2;
            s.ev_rem = 1;
            s.rej = bit(cl[3]);
            s.int_rej = 1;
            s.int_other = 1;
        }
        (4, true) => {
            s.rej = bit(cl[3]) | bit(cl[4]);
            s.int_rej = 0;
            s = s.with_hint(4);
        }
        _ => {}
    }
    s
}

struct Cmp {
    name: String,
    reference: StackSpec,
    variant: StackSpec,
    ops: Vec<Op>,
}

fn sys_cmp(c: &SysCase, cl: &[u32]) -> Cmp {
    let vetoer = if c.n >= 2 { (c.p + 1) % c.n } else { usize::MAX };
    // role of each layer
    let (target_is_layer, target_is_filter) = match c.kind {
        SysKind::Layer(_) => (true, false),
        SysKind::FilteredLayer(_) => (true, true),
        SysKind::Filter(_) => (false, true),
        SysKind::FilterNone => (false, false),
        SysKind::Absent(_) | SysKind::Collector(_) | SysKind::Base(_) => (false, false),
    };
    let pseudo_target = match c.kind {
        // for absent / collector cases the script variant goes to a real layer
        SysKind::Absent(_) => Some(c.p.min(c.n.saturating_sub(1))),
        SysKind::Collector(_) | SysKind::Base(_) => Some(if c.sv == 2 { c.n.saturating_sub(1) } else { 0 }),
        _ => None,
    };
    let mut reference = StackSpec { base: c.base, elems: vec![], cwrap: vec![], bwrap: None };
    for i in 0..c.n {
        let is_t = (i == c.p && target_is_layer) || pseudo_target == Some(i);
        let sc = sys_script(c.sv, is_t, i == vetoer, c.n, cl);
        reference.elems.push(Elem::layer(i as u8, sc));
    }
    let mut variant = reference.clone();
    match &c.kind {
        SysKind::Layer(nest) => {
            variant.elems[c.p].bare = false;
            variant.elems[c.p].nest = nest.clone();
        }
        SysKind::FilteredLayer(nest) => {
            let f = FiltSpec { sc: sys_script(if c.sv == 0 { 0 } else { c.sv }, target_is_filter, false, c.n, cl), none: false, bare: true, nest: vec![] };
            // the layer under the filter stays plain: its own global veto would be ignored by Filtered
            for s in [&mut reference, &mut variant] {
                s.elems[c.p].sc = Script::plain();
                s.elems[c.p].bare = false;
                s.elems[c.p].filt = Some(f.clone());
            }
            variant.elems[c.p].nest = nest.clone();
            if nest.is_empty() {
                variant.elems[c.p].nest = vec![LW::BoxDyn];
            }
        }
        SysKind::Filter(nest) => {
            let f = FiltSpec { sc: sys_script(c.sv, true, false, c.n, cl), none: false, bare: true, nest: vec![] };
            for s in [&mut reference, &mut variant] {
                s.elems[c.p].bare = false;
                s.elems[c.p].filt = Some(f.clone());
            }
            let vf = variant.elems[c.p].filt.as_mut().unwrap();
            vf.bare = false;
            vf.nest = nest.clone();
        }
        SysKind::FilterNone => {
            for s in [&mut reference, &mut variant] {
                s.elems[c.p].sc = Script::plain();
                s.elems[c.p].bare = false;
                s.elems[c.p].filt = Some(FiltSpec { sc: Script::plain(), none: false, bare: true, nest: vec![] });
            }
            variant.elems[c.p].filt.as_mut().unwrap().none = true;
        }
        SysKind::Absent(a) => {
            variant.elems.insert(c.p, Elem::absent(*a));
        }
        SysKind::Collector(nest) => {
            variant.cwrap = nest.clone();
        }
        SysKind::Base(bw) => {
            variant.bwrap = Some(*bw);
        }
    }
    Cmp { name: format!("sys {:?}", c), reference, variant, ops: rich_ops() }
}

fn rand_script(rng: &mut Rng, cl: &[u32], allow_hint: bool) -> Script {
    let mut s = Script::plain();
    let subset = |rng: &mut Rng| -> u64 {
        let mut m = 0u64;
        for c in cl {
            if rng.chance(3, 10) {
                m |= 1 << c;
            }
        }
        if m == 0 {
            m |= 1 << *rng.pick(cl);
        }
        m
    };
    match rng.below(20) {
        0..=7 => {}
        8..=10 => {
            s.rej = subset(rng);
            s.int_rej = 1;
            s.int_other = 1;
        }
        11..=13 => {
            s.rej = subset(rng);
            s.int_rej = 0;
            s.int_other = 1 + rng.below(2) as u8;
        }
        14..=16 => {
            s.ev_mod = 2 + rng.below(3);
            s.ev_rem = rng.below(s.ev_mod);
            s.int_other = 1 + rng.below(2) as u8;
        }
        17 if allow_hint => {
            s.int_other = 1 + rng.below(2) as u8;
            s = s.with_hint(2 + rng.usize(4));
        }
        _ => {
            s.rej = subset(rng);
            s.int_rej = rng.below(2) as u8;
            s.int_other = 1;
            s.ev_mod = 2 + rng.below(3);
            s.ev_rem = rng.below(s.ev_mod);
        }
    }
    s
}

fn rand_kinds(rng: &mut Rng) -> Vec<Kind> {
    let mut k = vec![Kind::Span, Kind::Event];
    for _ in 0..rng.usize(4) {
        k.push(*rng.pick(&[Kind::Span, Kind::Event, Kind::Event, Kind::Probe]));
    }
    k
}

fn rand_cmp(rng: &mut Rng, cl: &[u32], kinds: &[Kind], j: u64) -> Cmp {
    let n = 1 + rng.usize(5);
    let base = if rng.chance(2, 5) { BaseKind::Id } else { BaseKind::Reg };
    let mut reference = StackSpec { base, elems: vec![], cwrap: vec![], bwrap: None };
    // one third of the random stacks stay all-bare (oracle 1 applies), without hints
    let all_bare = rng.chance(1, 3);
    for i in 0..n {
        let mut e = Elem::layer(i as u8, rand_script(rng, cl, !all_bare));
        if !all_bare {
            if base == BaseKind::Reg && rng.chance(1, 4) {
                e.bare = false;
                e.sc = Script::plain();
                e.filt = Some(FiltSpec { sc: rand_script(rng, cl, true), none: false, bare: true, nest: vec![] });
            } else if rng.chance(1, 4) {
                e.bare = false;
            }
        }
        reference.elems.push(e);
    }
    let mut variant = reference.clone();
    let nmods = 1 + rng.usize(2);
    let mut done = 0;
    let mut tries = 0;
    while done < nmods && tries < 50 {
        tries += 1;
        let p = rng.usize(n);
        let pos = variant.elems.iter().position(|e| e.absent.is_none() && e.idx == p as u8).unwrap();
        let lnest = |rng: &mut Rng, no_reload: bool| -> Vec<LW> {
            let mut v = vec![];
            for _ in 0..1 + rng.usize(2) {
                loop {
                    let w = *rng.pick(&ALL_LW);
                    if !(no_reload && matches!(w, LW::Reload | LW::IdOuter | LW::IdInner)) {
                        v.push(w);
                        break;
                    }
                }
            }
            v
        };
        match rng.below(11) {
            10 => {
                // (per-layer filters over a wrapped Registry are not generated: `Filtered` needs
                // `LookupSpan::register_filter`, which Box / Arc answer with the documented
                // "does not currently support filters" panic)
                if variant.bwrap.is_none() && variant.elems.iter().all(|e| e.filt.is_none()) {
                    variant.bwrap = Some(*rng.pick(&ALL_BW));
                    done += 1;
                }
            }
            0..=3 => {
                let e = &mut variant.elems[pos];
                if e.nest.is_empty() {
                    e.nest = lnest(rng, e.filt.is_some());
                    e.bare = false;
                    done += 1;
                }
            }
            4 => {
                let e = &mut variant.elems[pos];
                if e.bare {
                    e.bare = false;
                    done += 1;
                }
            }
            5 | 6 => {
                let coin = rng.chance(1, 2);
                let e = &mut variant.elems[pos];
                match &mut e.filt {
                    Some(f) if coin && f.bare && !f.none && f.sc == Script::plain() => {
                        f.none = true;
                        done += 1;
                    }
                    Some(f) if f.bare && !f.none => {
                        f.bare = false;
                        for _ in 0..rng.usize(3) {
                            f.nest.push(*rng.pick(&ALL_FW));
                        }
                        done += 1;
                    }
                    _ => {}
                }
            }
            7 => {
                // not judged: `None` added to a stack whose real layers are ALL per-layer-filtered.
                // There `None` is the only unfiltered member, and per-layer-filter semantics keep an
                // emission globally enabled (span exists in the Registry, enabled! is true, parents
                // stay open longer) whenever an unfiltered member accepts it.
                let has_unfiltered = reference.elems.iter().any(|e| e.filt.is_none());
                if variant.elems.len() < MAXD && has_unfiltered {
                    let at = rng.usize(variant.elems.len() + 1);
                    let a = if rng.chance(1, 4) { Absent::EmptyVec } else { Absent::NoneLayer };
                    variant.elems.insert(at, Elem::absent(a));
                    done += 1;
                }
            }
            _ => {
                if variant.cwrap.is_empty() {
                    for _ in 0..1 + rng.usize(2) {
                        variant.cwrap.push(*rng.pick(&ALL_CW));
                    }
                    done += 1;
                }
            }
        }
    }
    if done == 0 {
        variant.cwrap.push(CW::BoxDyn);
    }
    let len = 10 + rng.usize(31);
    Cmp { name: format!("random #{j}"), reference, variant, ops: gen_ops(rng, kinds, len) }
}

// ------------------------------------------------------------------------------------------
// child: run comparisons, judge, report
// ------------------------------------------------------------------------------------------

fn seg_dump(run: &RunOut, si: usize) -> Value {
    match run.segs.get(si) {
        None => json!(null),
        Some(s) => json!({"op": s.op, "log": s.ents.iter().map(|e| e.show()).collect::<Vec<_>>()}),
    }
}

fn witness(cmp: &Cmp, tab: &Table, p: &Problem, a: &RunOut, b: Option<&RunOut>, idx: &str) -> Value {
    let mut w = json!({
        "comparison": cmp.name,
        "index": idx,
        "cell": p.cell,
        "what": p.what,
        "reference_stack": cmp.reference.show(&tab.classes),
        "callsites": tab.describe(),
        "ops": cmp.ops.iter().enumerate().map(|(k, o)| format!("{k}:{o:?}")).collect::<Vec<_>>(),
        "script_legend": "p plain; D rejects some callsites in enabled (interest sometimes); N rejects statically (interest never); s interest sometimes; E vetoes in event_enabled for some event ids; H has a max_level_hint",
        "reference_segment": seg_dump(a, p.seg),
    });
    if let Some(b) = b {
        w["variant_stack"] = json!(cmp.variant.show(&tab.classes));
        w["variant_segment"] = seg_dump(b, p.seg);
    }
    w
}

/// Known finding F3 on a build with debug assertions: an interaction in which a per-layer filter
/// answered reject and which ended before any on_event / on_new_span (an `enabled!` probe, an
/// emission vetoed by somebody's event_enabled) leaves that filter's bit set, and FilterState's
/// debug assertions fail at a LATER operation of the same thread.
fn f3_debug_assertion(r: &RunOut) -> bool {
    let Some(p) = &r.panic else { return false };
    if !cfg!(debug_assertions) || !p.contains("FilterMap { disabled_by") || r.segs.len() < 2 {
        return false;
    }
    r.segs[..r.segs.len() - 1].iter().any(|seg| {
        let rejected = seg.ents.iter().any(|e| matches!(e.who, Who::Filter(_)) && matches!(e.m, M::Enabled | M::EvEnabled) && e.ret == Some(0));
        let delivered = seg.ents.iter().any(|e| matches!(e.who, Who::Layer(_)) && matches!(e.m, M::Event | M::NewSpan));
        rejected && !delivered
    })
}
const F3_WHAT: &str = "enabled!/log_enabled! probes and events vetoed by a global layer's event_enabled leave per-layer filter bits set (C07's finding); on a build with debug assertions FilterState's assertions fail at a later operation of the thread";

/// returns false if the process must stop (panic inside a run)
fn run_cmp(cmp: &Cmp, tab: &Table, proc_: &mut Proc, st: &mut Stats, out: &mut Out, idx: &str) -> bool {
    let ra = run_stack(&cmp.reference, &tab.a, &tab.pre, &cmp.ops, proc_.retired_for(&tab.pre));
    proc_.learn(&tab.a, &tab.classes, &ra.ids);
    let rb = run_stack(&cmp.variant, &tab.b, &tab.pre, &cmp.ops, proc_.retired_for(&tab.pre));
    proc_.learn(&tab.b, &tab.classes, &rb.ids);
    st.count("comparisons", 1);
    st.count("stack_runs", 2);
    st.count("ops_driven", 2 * cmp.ops.len() as u64);
    st.count("callbacks_recorded", (ra.raw_len + rb.raw_len) as u64);
    st.count("foreign_callsite_callbacks_dropped", ra.foreign + rb.foreign);
    for seg in ra.segs.iter() {
        for e in &seg.ents {
            if e.who != Who::Driver {
                let kind = match e.who {
                    Who::Layer(_) => "layer",
                    Who::Filter(_) => "filter",
                    _ => "base",
                };
                st.count(&format!("seen_{kind}_{}", e.m.name(e.who)), 1);
            }
        }
    }
    for (side, r, spec) in [("reference", &ra, &cmp.reference), ("variant", &rb, &cmp.variant)] {
        if f3_debug_assertion(r) {
            // the run's thread (and its thread-local filter state) is gone: the process goes on
            st.count("dbg_runs_ended_by_the_F3_debug_assertion", 1);
            out.finding("F3", F3_WHAT, json!({"comparison": cmp.name, "index": idx, "stack": spec.show(&tab.classes), "panic": r.panic,
                "ops": cmp.ops.iter().map(|o| format!("{o:?}")).collect::<Vec<_>>(),
                "log_tail": r.segs.last().map(|s| json!({"op": s.op, "log": s.ents.iter().map(|e| e.show()).collect::<Vec<_>>()}))}));
            return true;
        }
        if let Some(p) = &r.panic {
            out.violation(
                format!("panic while building/driving the {side} stack: {p}"),
                json!({"comparison": cmp.name, "index": idx, "stack": spec.show(&tab.classes), "callsites": tab.describe(),
                       "ops": cmp.ops.iter().map(|o| format!("{o:?}")).collect::<Vec<_>>(),
                       "log_tail": r.segs.last().map(|s| json!({"op": s.op, "log": s.ents.iter().map(|e| e.show()).collect::<Vec<_>>()}))}),
            );
            return false;
        }
        if !r.stray.is_empty() {
            out.violation(
                format!("{side} stack: a recorder was called about a callsite other than the one being hit"),
                json!({"comparison": cmp.name, "index": idx, "stack": spec.show(&tab.classes), "stray": r.stray}),
            );
        }
    }
    let report = |probs: Vec<Problem>, b: Option<&RunOut>, out: &mut Out, st: &mut Stats| {
        for p in probs {
            let w = witness(cmp, tab, &p, &ra, b, idx);
            match p.fid {
                Some(f) => {
                    st.count(&format!("finding_{f}"), 1);
                    out.set("finding_cells", format!("{f} {}", p.cell));
                    out.finding(f, format!("{} - e.g. cell {}: {}", fid_what(f), p.cell, p.what), w);
                }
                None => out.violation(format!("cell {}: {}", p.cell, p.what), w),
            }
        }
    };
    if cmp.reference.all_bare() && cmp.reference.elems.iter().all(|e| e.sc.hint.is_none()) {
        st.count("oracle1_runs", 1);
        let probs = oracle1(&cmp.reference, &tab.classes, &cmp.ops, &ra, st);
        report(probs, None, out, st);
    }
    let probs = compare(&cmp.reference, &cmp.variant, &tab.classes, &ra, &rb, st);
    report(probs, Some(&rb), out, st);
    if std::env::var("C09_DEBUG").is_ok() {
        eprintln!("== {} {}\n   ref {}\n   var {}", idx, cmp.name, cmp.reference.show(&tab.classes), cmp.variant.show(&tab.classes));
        for (x, y) in ra.segs.iter().zip(rb.segs.iter()) {
            eprintln!("  {} | {:?} | {:?}", x.op, x.ents.iter().map(|e| e.show()).collect::<Vec<_>>(), y.ents.iter().map(|e| e.show()).collect::<Vec<_>>());
        }
    }
    if out.samples.len() < 2 && ra.segs.len() > 10 {
        out.sample(json!({
            "comparison": cmp.name,
            "reference_stack": cmp.reference.show(&tab.classes),
            "variant_stack": cmp.variant.show(&tab.classes),
            "callsites": tab.describe(),
            "reference_log_excerpt": ra.segs.iter().skip(2).take(8).map(|s| json!({"op": s.op, "log": s.ents.iter().map(|e| e.show()).collect::<Vec<_>>()})).collect::<Vec<_>>(),
        }));
    }
    true
}

// ------------------------------------------------------------------------------------------
// tree-shaped stacks: two or more recording layers inside ONE and_then tree (single `.with()`)
// ------------------------------------------------------------------------------------------

/// shape codes: 'L' leaf, '(' inner ',' outer ')' node
fn tree_from(code: &str, next: &mut u8, scripts: &mut dyn FnMut(u8) -> Script) -> Tree {
    fn parse(c: &[u8], pos: &mut usize, next: &mut u8, scripts: &mut dyn FnMut(u8) -> Script) -> Tree {
        match c[*pos] {
            b'L' => {
                *pos += 1;
                let i = *next;
                *next += 1;
                Tree::Leaf(i, scripts(i))
            }
            b'(' => {
                *pos += 1;
                let a = parse(c, pos, next, scripts);
                assert_eq!(c[*pos], b',', "HARNESS: bad tree code");
                *pos += 1;
                let b = parse(c, pos, next, scripts);
                assert_eq!(c[*pos], b')', "HARNESS: bad tree code");
                *pos += 1;
                Tree::Node(Box::new(a), Box::new(b))
            }
            _ => panic!("HARNESS: bad tree code"),
        }
    }
    let mut pos = 0;
    parse(code.as_bytes(), &mut pos, next, scripts)
}

const TREE_SHAPES_QUICK: [&str; 4] = ["(L,L)", "((L,L),L)", "(L,(L,L))", "((L,L),(L,L))"];
const TREE_SHAPES_MORE: [&str; 4] = ["(((L,L),L),L)", "(L,(L,(L,L)))", "((L,L),(L,(L,L)))", "((L,(L,L)),(L,L))"];

#[derive(Clone, Debug)]
struct TreeCase {
    base: BaseKind,
    shape: &'static str,
    below: usize,
    above: usize,
    sv: usize,
}

fn tree_cases(thorough: bool) -> Vec<TreeCase> {
    let mut shapes: Vec<&'static str> = TREE_SHAPES_QUICK.to_vec();
    if thorough {
        shapes.extend(TREE_SHAPES_MORE);
    }
    let mut v = vec![];
    for base in [BaseKind::Reg, BaseKind::Id] {
        for shape in &shapes {
            for below in 0..2 {
                for above in 0..2 {
                    for sv in 0..4 {
                        v.push(TreeCase { base, shape, below, above, sv });
                    }
                }
            }
        }
    }
    v
}

/// build `base.with(L..).with(tree).with(L..)`; `script_of(i)` gives layer i's script
fn tree_stack(base: BaseKind, shape: &str, below: usize, above: usize, script_of: &mut dyn FnMut(u8) -> Script) -> StackSpec {
    let mut spec = StackSpec { base, elems: vec![], cwrap: vec![], bwrap: None };
    let mut next = 0u8;
    for _ in 0..below {
        spec.elems.push(Elem::layer(next, script_of(next)));
        next += 1;
    }
    let t = tree_from(shape, &mut next, script_of);
    spec.elems.push(Elem::tree(t));
    for _ in 0..above {
        spec.elems.push(Elem::layer(next, script_of(next)));
        next += 1;
    }
    spec
}

fn rand_tree_code(rng: &mut Rng, leaves: usize) -> String {
    if leaves == 1 {
        return "L".into();
    }
    let left = 1 + rng.usize(leaves - 1);
    format!("({},{})", rand_tree_code(rng, left), rand_tree_code(rng, leaves - left))
}

/// one stack, oracle 1 only.  Returns false if the process must stop.
fn run_single(name: &str, spec: &StackSpec, tab: &Table, ops: &[Op], proc_: &mut Proc, st: &mut Stats, out: &mut Out, idx: &str) -> bool {
    if !spec.o1_shape() {
        panic!("HARNESS: run_single needs a stack oracle 1 can judge");
    }
    let ra = run_stack(spec, &tab.a, &tab.pre, ops, proc_.retired_for(&tab.pre));
    proc_.learn(&tab.a, &tab.classes, &ra.ids);
    st.count("tree_stack_runs", 1);
    st.count("stack_runs", 1);
    st.count("ops_driven", ops.len() as u64);
    st.count("callbacks_recorded", ra.raw_len as u64);
    let cmp = Cmp { name: name.to_string(), reference: spec.clone(), variant: spec.clone(), ops: ops.to_vec() };
    if f3_debug_assertion(&ra) {
        st.count("dbg_runs_ended_by_the_F3_debug_assertion", 1);
        out.finding("F3", F3_WHAT, json!({"comparison": name, "index": idx, "stack": spec.show(&tab.classes), "panic": ra.panic,
            "ops": ops.iter().map(|o| format!("{o:?}")).collect::<Vec<_>>()}));
        return true;
    }
    if let Some(p) = &ra.panic {
        out.violation(
            format!("panic while building/driving the tree-shaped stack: {p}"),
            json!({"comparison": name, "index": idx, "stack": spec.show(&tab.classes), "callsites": tab.describe(),
                   "ops": ops.iter().map(|o| format!("{o:?}")).collect::<Vec<_>>()}),
        );
        return false;
    }
    if !ra.stray.is_empty() {
        out.violation(
            "tree-shaped stack: a recorder was called about a callsite other than the one being hit".to_string(),
            json!({"comparison": name, "index": idx, "stack": spec.show(&tab.classes), "stray": ra.stray}),
        );
    }
    st.count("oracle1_runs", 1);
    for p in oracle1(spec, &tab.classes, ops, &ra, st) {
        let w = witness(&cmp, tab, &p, &ra, None, idx);
        match p.fid {
            Some(f) => {
                st.count(&format!("finding_{f}"), 1);
                out.set("finding_cells", format!("{f} {}", p.cell));
                out.finding(f, format!("{} - e.g. cell {}: {}", fid_what(f), p.cell, p.what), w);
            }
            None => out.violation(format!("cell {}: {}", p.cell, p.what), w),
        }
    }
    if std::env::var("C09_DEBUG").is_ok() {
        eprintln!("== {} {}\n   stack {}", idx, name, spec.show(&tab.classes));
        for x in ra.segs.iter() {
            eprintln!("  {} | {:?}", x.op, x.ents.iter().map(|e| e.show()).collect::<Vec<_>>());
        }
    }
    true
}

/// Stack shapes in which per-layer-filtered layers sit inside `and_then` trees, Vecs, Options and
/// Boxes, with more layers stacked on top: every `.with()` asks the collector below "do you have
/// per-subscriber filters?" through the `downcast_raw` marker plumbing (`dyn Collect::is`), and
/// every composite answers by combining its members' answers.  Under the interpreter a wrong
/// pointer in any arm is undefined behaviour; natively each layer must still count exactly the
/// events its own filter accepts.
fn psf_shapes_probe(out: &mut Out) {
    use std::sync::atomic::{AtomicU64, Ordering};
    use tracing_subscriber::filter::LevelFilter as LF;
    #[derive(Clone)]
    struct Cnt(Arc<AtomicU64>);
    impl<C: Collect> Subscribe<C> for Cnt {
        fn on_event(&self, _: &Event<'_>, _: Context<'_, C>) {
            self.0.fetch_add(1, Ordering::Relaxed);
        }
    }
    type BL = Box<dyn Subscribe<Registry> + Send + Sync>;
    let mk = || Cnt(Arc::new(AtomicU64::new(0)));
    let emit = || {
        tracing::error!("e");
        tracing::info!("i");
        tracing::trace!("t");
    };
    let mut problems: Vec<String> = vec![];
    let mut check = |name: &str, d: Dispatch, cs: &[(&Cnt, u64)]| {
        {
            let _g = dispatch::set_default(&d);
            emit();
        }
        if d.downcast_ref::<Registry>().is_none() {
            problems.push(format!("{name}: downcast_ref::<Registry>() answers None"));
        }
        for (i, (c, want)) in cs.iter().enumerate() {
            let got = c.0.load(Ordering::Relaxed);
            if got != *want {
                problems.push(format!("{name}: layer #{i} counted {got} of the three events (ERROR, INFO, TRACE), its filter accepts {want}"));
            }
        }
    };
    // tree with both branches filtered, another layer on top
    let (a, b, c) = (mk(), mk(), mk());
    check(
        "registry.with(A.with_filter(ERROR).and_then(B.with_filter(INFO))).with(C)",
        Dispatch::new(Registry::default().with(a.clone().with_filter(LF::ERROR).and_then(b.clone().with_filter(LF::INFO))).with(c.clone())),
        &[(&a, 1), (&b, 2), (&c, 3)],
    );
    // tree with one filtered branch, a filtered layer on top
    let (a, b, c) = (mk(), mk(), mk());
    check(
        "registry.with(A.with_filter(INFO).and_then(B)).with(C.with_filter(ERROR))",
        Dispatch::new(Registry::default().with(a.clone().with_filter(LF::INFO).and_then(b.clone())).with(c.clone().with_filter(LF::ERROR))),
        &[(&a, 2), (&b, 3), (&c, 1)],
    );
    // nested trees, boxed, three levels of .with()
    let (a, b, c, e) = (mk(), mk(), mk(), mk());
    check(
        "registry.with(Box(A.with_filter(ERROR).and_then(B.with_filter(TRACE).and_then(C.with_filter(INFO))))).with(E).with(Identity)",
        Dispatch::new(
            Registry::default()
                .with(Box::new(a.clone().with_filter(LF::ERROR).and_then(b.clone().with_filter(LF::TRACE).and_then(c.clone().with_filter(LF::INFO)))) as BL)
                .with(e.clone())
                .with(tracing_subscriber::subscribe::Identity::new()),
        ),
        &[(&a, 1), (&b, 3), (&c, 2), (&e, 3)],
    );
    // Vec of filtered layers and an Option around a filtered layer, more layers above
    let (a, b, c, e) = (mk(), mk(), mk(), mk());
    check(
        "registry.with(vec![A.with_filter(ERROR), B.with_filter(INFO)]).with(Some(C.with_filter(TRACE))).with(E)",
        Dispatch::new(
            Registry::default()
                .with(vec![Box::new(a.clone().with_filter(LF::ERROR)) as BL, Box::new(b.clone().with_filter(LF::INFO)) as BL])
                .with(Some(c.clone().with_filter(LF::TRACE)))
                .with(e.clone()),
        ),
        &[(&a, 1), (&b, 2), (&c, 3), (&e, 3)],
    );
    // filter on a whole tree
    let (a, b, c) = (mk(), mk(), mk());
    check(
        "registry.with(A.and_then(B.with_filter(ERROR)).with_filter(INFO)).with(C)",
        Dispatch::new(Registry::default().with(a.clone().and_then(b.clone().with_filter(LF::ERROR)).with_filter(LF::INFO)).with(c.clone())),
        &[(&a, 2), (&b, 1), (&c, 3)],
    );
    out.count("psf_shape_probes", 5);
    out.evals += 5;
    if let Some(p) = problems.first() {
        out.violation(format!("per-layer-filtered layers inside composites: {p}"), json!({"part": "psf_shapes", "problems": problems}));
    }
}

fn child(args: &Args) {
    let thorough = args.tier == vlib::Tier::Thorough;
    let mut out = Out::new();
    psf_shapes_probe(&mut out);
    if args.get("probe_only").is_some() {
        out.emit();
        return;
    }
    out.set("debug_assertions", if cfg!(debug_assertions) { "true" } else { "false" });
    let mut st = Stats::default();
    let mut proc_ = Proc::new();
    let sys = sys_cases(thorough);
    let nrand = args.get_u64("random", args.tier.pick(120_000, 1_000_000));
    let only = args.get("only").map(|s| s.to_string());
    let mut alive = true;
    // `limit=n` (interpreter / sanitizer layers): n cases of each of the four groups, picked by
    // (seed, shard) instead of the shard's whole residue class
    let limit = args.get_u64("limit", 0);
    let mut pick_rng = Rng::derive(args.seed ^ 0x11317, 9, args.shard);
    let mut picked = |n: u64| -> Option<std::collections::HashSet<u64>> {
        if limit == 0 || n == 0 {
            return None;
        }
        Some((0..limit).map(|_| pick_rng.below(n)).collect())
    };
    let sel_sys = picked(sys.len() as u64);
    let sel_rand = picked(nrand);
    for (i, c) in sys.iter().enumerate() {
        if let Some(sel) = &sel_sys {
            if !sel.contains(&(i as u64)) {
                continue;
            }
        } else if i as u64 % args.nshards != args.shard {
            continue;
        }
        if !alive {
            continue;
        }
        let idx = format!("s{i}");
        if only.as_ref().map(|o| *o != idx).unwrap_or(false) {
            continue;
        }
        let mut rng = Rng::derive(args.seed, 1, i as u64);
        let tab = proc_.table(&mut rng, &RICH_KINDS);
        let cmp = sys_cmp(c, &tab.classes);
        st.count("systematic_comparisons", 1);
        alive = run_cmp(&cmp, &tab, &mut proc_, &mut st, &mut out, &idx);
    }
    let rand_js: Vec<u64> = match &sel_rand {
        Some(sel) => sel.iter().copied().collect(),
        None => (0..nrand).filter(|j| j % args.nshards == args.shard).collect(),
    };
    for j in rand_js {
        if !alive {
            continue;
        }
        let idx = format!("r{j}");
        if only.as_ref().map(|o| *o != idx).unwrap_or(false) {
            continue;
        }
        let mut rng = Rng::derive(args.seed, 2, j);
        let kinds = rand_kinds(&mut rng);
        let tab = proc_.table(&mut rng, &kinds);
        let cmp = rand_cmp(&mut rng, &tab.classes, &kinds, j);
        st.count("random_comparisons", 1);
        alive = run_cmp(&cmp, &tab, &mut proc_, &mut st, &mut out, &idx);
    }
    let trees = tree_cases(thorough);
    let sel_tree = picked(trees.len() as u64);
    for (i, c) in trees.iter().enumerate() {
        if let Some(sel) = &sel_tree {
            if !sel.contains(&(i as u64)) {
                continue;
            }
        } else if i as u64 % args.nshards != args.shard {
            continue;
        }
        if !alive {
            continue;
        }
        let idx = format!("t{i}");
        if only.as_ref().map(|o| *o != idx).unwrap_or(false) {
            continue;
        }
        let mut rng = Rng::derive(args.seed, 3, i as u64);
        let tab = proc_.table(&mut rng, &RICH_KINDS);
        let nl = c.shape.bytes().filter(|b| *b == b'L').count() + c.below + c.above;
        let special = (i % nl) as u8;
        let other = ((i / nl + 1 + special as usize) % nl) as u8;
        let cl = tab.classes.clone();
        let sv = c.sv;
        let mut script_of = |k: u8| -> Script {
            if k == special {
                sys_script(if sv == 3 { 4 } else { sv }, true, false, nl, &cl).without_hint()
            } else if k == other && sv == 3 {
                sys_script(3, false, true, nl, &cl)
            } else {
                Script::plain()
            }
        };
        let spec = tree_stack(c.base, c.shape, c.below, c.above, &mut script_of);
        st.count("systematic_tree_stacks", 1);
        alive = run_single(&format!("tree {:?}", c), &spec, &tab, &rich_ops(), &mut proc_, &mut st, &mut out, &idx);
    }
    let ntree = args.get_u64("random_trees", args.tier.pick(6_000, 60_000));
    let sel_rtree = picked(ntree);
    let tree_js: Vec<u64> = match &sel_rtree {
        Some(sel) => sel.iter().copied().collect(),
        None => (0..ntree).filter(|j| j % args.nshards == args.shard).collect(),
    };
    for j in tree_js {
        if !alive {
            continue;
        }
        let idx = format!("u{j}");
        if only.as_ref().map(|o| *o != idx).unwrap_or(false) {
            continue;
        }
        let mut rng = Rng::derive(args.seed, 4, j);
        let kinds = rand_kinds(&mut rng);
        let tab = proc_.table(&mut rng, &kinds);
        let nleaves = 2 + rng.usize(if thorough { 4 } else { 3 });
        let code = rand_tree_code(&mut rng, nleaves);
        let (below, above) = (rng.usize(2), rng.usize(2));
        let base = if rng.chance(2, 5) { BaseKind::Id } else { BaseKind::Reg };
        let cl = tab.classes.clone();
        let mut r2 = rng.fork();
        let mut script_of = |_k: u8| -> Script { rand_script(&mut r2, &cl, false) };
        let spec = tree_stack(base, &code, below, above, &mut script_of);
        let len = 10 + rng.usize(31);
        let ops = gen_ops(&mut rng, &kinds, len);
        st.count("random_tree_stacks", 1);
        alive = run_single(&format!("random tree #{j}"), &spec, &tab, &ops, &mut proc_, &mut st, &mut out, &idx);
    }
    out.evals = st.evals;
    for h in st.distinct {
        out.distinct(h);
    }
    for (k, v) in st.counters {
        out.count(&k, v);
    }
    for c in st.cells {
        out.set("cells", c);
    }
    out.count("fresh_callsites_taken", proc_.fresh_taken as u64);
    out.count("ops_run_while_the_thread_is_unwinding", UNWOUND_OPS.load(std::sync::atomic::Ordering::Relaxed));
    out.emit();
}

fn parent(args: &Args) {
    let t0 = Instant::now();
    let mut out = Out::new();
    let shards = args.get_u64("shards", args.tier.pick(384, 2560));
    let mut spec = ChildSpec::new("mix", shards).timeout(900);
    if let Some(r) = args.get("random") {
        spec = spec.arg("random", r);
    }
    if let Some(r) = args.get("random_trees") {
        spec = spec.arg("random_trees", r);
    }
    let ends = run::run_children(args, &spec, &mut out);
    run::classify_ends(&ends, &mut out, true);
    let ncells = out.sets.get("cells").map(|s| s.len()).unwrap_or(0);
    let mut extra = Map::new();
    extra.insert("distinct_cells_method_x_wrapper".into(), json!(ncells));
    vlib::sanlayer::run_layers(ID, args, &mut out, &mut extra);
    // thorough: the same workload on a build with the repository's debug assertions live
    // (FilterState's debug counters turn inconsistent per-layer-filter bookkeeping into a panic)
    if let Ok(p) = std::env::var("VERIF_C09_DBG_BIN") {
        if !p.is_empty() {
            let mut dbg = Out::new();
            let dshards = args.get_u64("dbg_shards", args.tier.pick(64, 640));
            let mut dspec = ChildSpec::new("mix", dshards).arg("dbg", 1).timeout(1800);
            if let Some(r) = args.get("random") {
                dspec = dspec.arg("random", r);
            }
            if let Some(r) = args.get("random_trees") {
                dspec = dspec.arg("random_trees", r);
            }
            dspec.exe = Some(std::path::PathBuf::from(&p));
            let ends = run::run_children(args, &dspec, &mut dbg);
            run::classify_ends(&ends, &mut dbg, true);
            if !dbg.sets.get("debug_assertions").map(|s| s.contains("true") && s.len() == 1).unwrap_or(false) {
                out.harness_errors.push(format!("VERIF_C09_DBG_BIN={p} is not a debug-assertions build (or produced nothing)"));
            }
            extra.insert("debug_assertion_build".into(), json!({"binary": p, "evaluations": dbg.evals, "distinct": dbg.distinct.len(), "comparisons": dbg.counters.get("comparisons")}));
            let v = dbg.to_json();
            let evals = out.evals + dbg.evals;
            out.merge_json(&json!({"viols": v["viols"], "known": v["known"], "inconclusive": v["inconclusive"], "harness_errors": v["harness_errors"]}));
            out.evals = evals;
            for h in dbg.distinct {
                out.distinct.insert(h ^ 0x0dbd_0dbd);
            }
        }
    }
    run::finish(
        Finish {
            id: ID,
            args,
            t0,
            rule: "evaluations = (method x wrapper) cells judged by a differential comparison (one per trait method the reference run \
                   exercised at the wrapped element / its neighbours) + occurrence groups judged by the exactly-once/order automaton on \
                   all-bare stacks; distinct = distinct (cell, base collector, stack size, wrapper position, per-element script kinds) \
                   tuples resp. (notification kind, base, stack size, script kinds) tuples - measured from the runs",
            assumptions: vec![
                "recording layers/filters are self-consistent (register_callsite never <=> enabled false; hint h => everything above h rejected)".into(),
                "tree-shaped stacks (2-5 recording layers inside one and_then tree attached with a single .with(), nesting on both sides, optionally a plain layer below/above) are judged by the same exactly-once/order automaton with leaves ordered inner before outer (a.and_then(b): a before b); on_subscribe is a build-time &mut callback outside the property's list and is only counted".into(),
                "query methods (register_callsite, enabled, event_enabled) are judged for at-most/exactly-once but not for inner-before-outer order: Layered deliberately asks the outer layer first".into(),
                "None::<L> as the ONLY element of a Registry stack is not judged (the repository's tests pin 'just a None means everything is off'); with any neighbour it must be invisible".into(),
                "reload::Subscriber around a layer: on_subscribe and downcasting are documented as unsupported and are masked".into(),
                "Identity interposed (and_then) around a per-layer-FILTERED layer is not judged: Layered documents that a tree with one filtered and one unfiltered branch is deliberately classified as unfiltered, which changes how interests and hints are combined (C07/C08 territory)".into(),
                "None::<L> added to a stack whose real layers are ALL per-layer-filtered is not judged (None is then the only unfiltered member and per-layer-filter semantics keep emissions globally enabled); None above a stack containing per-layer filters may turn a cached `never` into `sometimes` (Layered::pick_interest, documented): there the number of `enabled` queries is not compared, everything else is".into(),
                "with_filter(None::<F>) is compared with with_filter(accept-everything recording filter): the layer and its neighbours must observe the same".into(),
                "after a rejecting event_enabled answer was swallowed by a known-broken cell (F5, F6) the rest of that run is not judged: hidden per-thread filter state may differ (finding F3 of C07)".into(),
"the base collector inside Box / Arc (underneath the layers) is generated only for stacks without per-layer filters: `Filtered` registers through `LookupSpan::register_filter`, which Box<Registry> / Arc<Registry> answer with the documented panic \"does not currently support filters\"".into(),
                "on builds with debug assertions no operation runs from a destructor during unwinding, and a FilterState assertion failure is attributed to finding F3 only if an EARLIER operation of the same run met F3's precondition".into(),
                                "one live Dispatch at a time, one fresh thread per stack run; both sides of a pair use callsites of the same class in the same cache state (both fresh, or the same already-registered callsite)".into(),
            ],
            min_evals: args.tier.pick(900_000, 8_000_000),
            min_distinct: args.tier.pick(250_000, 1_700_000),
            exhaustive: false,
            extra,
        },
        out,
    );
}

fn main() {
    let args = run::parse_args();
    match args.mode.clone() {
        Mode::Parent => parent(&args),
        Mode::Child(_) => child(&args),
        Mode::Replay(p) => run::replay(ID, &p),
    }
}
