//! C14 — JSON output is one valid object per line, faithful to the data (DESIGN.md 5/C14)
//!
//! Drives the real `tracing_subscriber::fmt().json()` stack (flatten_event × current_span ×
//! span_list × display bits × timer × span events) with a recording `MakeWriter`, installed
//! as a scoped default on the test thread.  Field values are generated at run time; field
//! names / span names / targets come (a) from a generated corpus of real macro call sites
//! with adversarial compile-time names (checks/src/gen_c14/sites.rs) and (b) from callsites
//! built by hand (`Metadata` + `FieldSet`, leaked) with names generated at run time.
//! Oracle: checks/src/c14/judge.rs (strict parser of vlib + a model of the span histories).

use std::io;
use std::sync::{Arc, Mutex, OnceLock};
use std::time::Instant;
use tracing_core::callsite::Callsite;
use tracing_core::collect::Interest;
use tracing_core::field::{Field, FieldSet, Value, ValueSet};
use tracing_core::{Dispatch, Kind, Level, Metadata};
use tracing_subscriber::fmt::format::{FmtSpan, Writer};
use tracing_subscriber::fmt::time::FormatTime;
use tracing_subscriber::fmt::MakeWriter;
use vlib::run::{self, Finish};
use vlib::{json, Args, ChildSpec, Map, Mode, Out, Rng};

#[path = "../c14/mod.rs"]
mod c14;
#[path = "../gen_c14/sites.rs"]
mod sites;

use c14::gen::*;
use c14::judge::*;
pub use c14::vals::{Arg, Slot};
use c14::vals::*;

const ID: &str = "C14";

// ---------------------------------------------------------------- corpus interface

pub enum Ret {
    Span(tracing::Span, u32),
    Event(u32),
}

pub struct MSite {
    pub is_span: bool,
    pub name: &'static str,
    pub target: &'static str,
    pub level: usize,
    pub fields: &'static [(&'static str, Slot)],
    /// events with a format-string message: the literal text in front of the one `{}`
    pub msg: Option<&'static str>,
    pub file: &'static str,
    pub call: fn(&[Arg<'_>]) -> Ret,
}

// ---------------------------------------------------------------- recorders

/// `.1` = the most bytes one `write` call accepts (0 = everything): `io::Write::write` may
/// consume any non-empty prefix, the caller has to come back with the rest.
#[derive(Clone, Default)]
struct RecMake(Arc<Mutex<Vec<Vec<u8>>>>, Arc<std::sync::atomic::AtomicUsize>);
struct RecW(Arc<Mutex<Vec<Vec<u8>>>>, usize);
impl io::Write for RecW {
    fn write(&mut self, b: &[u8]) -> io::Result<usize> {
        let n = if self.1 == 0 { b.len() } else { b.len().min(self.1) };
        self.0.lock().unwrap().push(b[..n].to_vec());
        Ok(n)
    }
    fn flush(&mut self) -> io::Result<()> {
        Ok(())
    }
}
impl<'a> MakeWriter<'a> for RecMake {
    type Writer = RecW;
    fn make_writer(&'a self) -> RecW {
        RecW(self.0.clone(), self.1.load(std::sync::atomic::Ordering::Relaxed))
    }
}
impl RecMake {
    fn drain(&self) -> Vec<Vec<u8>> {
        std::mem::take(&mut *self.0.lock().unwrap())
    }
}

struct ConstTimer(String);
impl FormatTime for ConstTimer {
    fn format_time(&self, w: &mut Writer<'_>) -> std::fmt::Result {
        std::fmt::Write::write_str(w, &self.0)
    }
}

// ---------------------------------------------------------------- hand-built callsites

struct DynCs {
    meta: OnceLock<Metadata<'static>>,
}
impl Callsite for DynCs {
    fn set_interest(&self, _: Interest) {}
    fn metadata(&self) -> &Metadata<'_> {
        self.meta.get().expect("HARNESS: dyn callsite without metadata")
    }
}

fn leak(s: &str) -> &'static str {
    Box::leak(s.to_string().into_boxed_str())
}

fn level_of(l: usize) -> Level {
    [Level::ERROR, Level::WARN, Level::INFO, Level::DEBUG, Level::TRACE][l - 1]
}

fn make_dyn(site: &SiteM) -> &'static Metadata<'static> {
    let cs: &'static DynCs = Box::leak(Box::new(DynCs { meta: OnceLock::new() }));
    let names: Vec<&'static str> = site.fields.iter().map(|n| leak(n)).collect();
    let names: &'static [&'static str] = Box::leak(names.into_boxed_slice());
    let fs = FieldSet::new(names, tracing_core::identify_callsite!(cs));
    let meta = Metadata::new(
        leak(&site.name),
        leak(&site.target),
        level_of(site.level),
        site.file.as_deref().map(leak),
        site.line,
        Some("c14::dynamic"),
        fs,
        if site.is_span { Kind::SPAN } else { Kind::EVENT },
    );
    if cs.meta.set(meta).is_err() {
        panic!("HARNESS: metadata set twice");
    }
    cs.meta.get().unwrap()
}

type Entry<'a> = (&'a Field, Option<&'a (dyn Value + 'a)>);

fn with_value_set<'a>(fs: &'a FieldSet, v: &'a [Entry<'a>], f: &mut dyn FnMut(&ValueSet<'_>)) {
    macro_rules! arms {
        ($($n:literal)*) => {
            match v.len() {
                $($n => { let a: [Entry<'a>; $n] = std::array::from_fn(|i| v[i]); f(&fs.value_set(&a)) })*
                _ => panic!("HARNESS: too many fields for one value set"),
            }
        };
    }
    arms!(0 1 2 3 4 5 6 7 8 9 10 11 12)
}

#[derive(Clone, Copy)]
enum Imp {
    Mac(&'static MSite),
    Dyn(&'static Metadata<'static>),
}

struct SiteX {
    m: SiteM,
    slots: Vec<Slot>,
    msg: Option<&'static str>,
    imp: Imp,
}

struct Corpus {
    spans: Vec<&'static MSite>,
    events: Vec<&'static MSite>,
}

fn corpus() -> Corpus {
    Corpus {
        spans: sites::SITES.iter().filter(|s| s.is_span).collect(),
        events: sites::SITES.iter().filter(|s| !s.is_span).collect(),
    }
}

fn site_from_macro(ms: &'static MSite) -> SiteX {
    SiteX {
        m: SiteM {
            is_span: ms.is_span,
            name: ms.name.to_string(),
            target: ms.target.to_string(),
            level: ms.level,
            file: Some(ms.file.to_string()),
            line: None, // known once the site ran (it returns its line!())
            fields: ms.fields.iter().map(|(n, _)| n.to_string()).collect(),
            origin: "macro corpus",
        },
        slots: ms.fields.iter().map(|(_, s)| *s).collect(),
        msg: ms.msg,
        imp: Imp::Mac(ms),
    }
}

fn site_dynamic(rng: &mut Rng, is_span: bool) -> SiteX {
    let nf = match rng.below(8) {
        0 => 0,
        1 => 9 + rng.usize(3),
        _ => 1 + rng.usize(6),
    };
    let mut fields = gen_names(rng, nf);
    if !is_span && rng.chance(2, 5) && !fields.iter().any(|f| strip_raw(f) == "message") {
        fields.push("message".to_string());
    }
    let m = SiteM {
        is_span,
        name: if is_span { gen_label(rng) } else { format!("event {}", gen_label(rng)) },
        target: gen_label(rng),
        level: 1 + rng.usize(5),
        file: if rng.chance(3, 4) { Some(format!("{}.rs", gen_label(rng))) } else { None },
        line: if rng.chance(3, 4) { Some(*rng.pick(&[0u32, 1, 42, 65535, u32::MAX])) } else { None },
        fields,
        origin: "hand-built callsite",
    };
    let meta = make_dyn(&m);
    SiteX { slots: vec![Slot::P; m.fields.len()], m, msg: None, imp: Imp::Dyn(meta) }
}

/// run a macro site with the given values (+ the message text, if it has a format string)
fn call_macro(ms: &'static MSite, vals: &[Val], msg_text: Option<&str>) -> Ret {
    let msgv = msg_text.map(|t| Val::Disp(t.to_string()));
    let mut helds: Vec<Held<'_>> = ms.fields.iter().zip(vals).map(|((_, s), v)| hold(v, *s)).collect();
    if let Some(mv) = &msgv {
        helds.push(hold(mv, Slot::D));
    }
    let args: Vec<Arg<'_>> = helds.iter().map(|h| h.arg()).collect();
    (ms.call)(&args)
}

/// build a value set for a hand-built callsite and hand it to `f`
fn dyn_values(rng: &mut Rng, meta: &'static Metadata<'static>, vals: &[(usize, &Val)], f: &mut dyn FnMut(&ValueSet<'_>)) {
    let fs = meta.fields();
    let fields: Vec<Field> = fs.iter().collect();
    let helds: Vec<Held<'_>> = vals.iter().map(|(_, v)| hold(v, Slot::P)).collect();
    let mut entries: Vec<Entry<'_>> = vec![];
    for ((fi, v), h) in vals.iter().zip(&helds) {
        if matches!(v, Val::Empty) {
            match rng.below(3) {
                0 => continue, // no entry at all
                1 => {
                    entries.push((&fields[*fi], None)); // entry without a value
                    continue;
                }
                _ => {} // field::Empty as the value
            }
        }
        entries.push((&fields[*fi], Some(h.value())));
    }
    with_value_set(fs, &entries, f);
}

include!("../c14/driver.rs");
include!("../c14/main_body.rs");
include!("../c14/conc_body.rs");
