//! C03 — span handles drive their collector through a balanced protocol (DESIGN.md 5/C03).
//! Random programs over the real Span / Instrumented API on 1-3 threads, judged op by op.
use std::time::Instant;
use vlib::run::{self, Finish};
use vlib::{json, Args, ChildSpec, Map, Mode, Out};

#[path = "../c03_interp.rs"]
mod interp;
use interp::run_program;
use std::sync::Arc;
use vcs::Fresh;

const ID: &str = "C03";

fn main() {
    let args = run::parse_args();
    match args.mode.clone() {
        Mode::Parent => parent(&args),
        Mode::Child(_) => child(&args),
        Mode::Replay(p) => run::replay(ID, &p),
    }
}

fn parent(args: &Args) {
    let t0 = Instant::now();
    let mut out = Out::new();
    let shards = args.get_u64("shards", args.tier.pick(64, 1600));
    let spec = ChildSpec::new("prog", shards).arg("progs", args.get_u64("progs", 320)).timeout(600);
    let ends = run::run_children(args, &spec, &mut out);
    run::classify_ends(&ends, &mut out, true);
    let mut extra = Map::new();
    vlib::sanlayer::run_layers(ID, args, &mut out, &mut extra);
    run::finish(
        Finish {
            id: ID,
            args,
            t0,
            rule: "random programs over the Span API (new via macro / Span::new / new_root / child_of / none, clone, drop, enter, entered, guard exit/drop out of order, in_scope, record, follows_from, Span::current, or_current, set_default scopes, Instrumented (tracing and tracing-futures) and WithDispatch futures polled/dropped/into_inner/cloned) on 1-3 threads; \
                   evaluations = operations judged against the exact expected collector calls; non-trivial = every judged operation on an enabled span or future; \
                   distinct = distinct (operation, relation of the span's collector to the thread's default {own, foreign, no default, nobody}, handle enabled?, nesting depth, thread count, clone_span re-ids?) tuples",
            assumptions: vec![
                "two ProtoCollectors with disjoint id ranges; one program in four uses collectors whose clone_span returns a new id".into(),
                "programs are executed sequentially (one operation at a time, any thread)".into(),
            ],
            min_evals: 20000,
            min_distinct: 60,
            exhaustive: false,
            extra,
        },
        out,
    );
}

fn child(args: &Args) {
    let n = args.get_u64("progs", 320);
    let only = args.get("only").and_then(|s| s.parse::<u64>().ok());
    let mut out = Out::new();
    let mut fresh = Arc::new(Fresh::new());
    run::quiet_panics(); // programs contain panics that are caught on purpose
    for i in 0..n {
        if let Some(o) = only {
            if i != o { continue; }
        }
        let idx = args.shard * 1_000_000 + i;
        // callsites are only a source of metadata here; refill the pool when it runs dry
        if fresh.remaining(1, 0, vcs::Kind::Span) < 4 {
            fresh = Arc::new(Fresh::new());
        }
        let o = run_program(args.seed, idx, fresh.clone(), 40);
        out.evals += o.ops;
        out.count("programs", 1);
        for (k, v) in &o.stats {
            out.count(k, *v);
        }
        for s in &o.sigs {
            out.distinct_str(s);
        }
        if !o.errors.is_empty() {
            out.violation(
                o.errors[0].clone(),
                json!({"program_index": i, "shard": args.shard, "errors": o.errors, "trace": o.trace,
                       "replay_hint": "child args + only=<program_index>"}),
            );
            break;
        }
        if out.samples.len() < 1 && o.trace.len() > 12 && args.shard == 0 {
            out.sample(json!({"trace": o.trace}));
        }
    }
    out.emit();
}
