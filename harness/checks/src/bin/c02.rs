//! C02 — an emission goes to the thread's scoped default, else to the global default
//! (DESIGN.md 5/C02).  One history per child process (the global default is one-shot).
//!
//! kinds: "hist"  sequential histories over {Open, Close, Scoped, PanicInScope, SetGlobal,
//!                Spawn, Emit, WhoAmI} on 1..4 threads, reference model of scope stacks + global;
//!        "conc"  threads racing SetGlobal / scopes / emissions with chaos delays at the
//!                dispatch.rs hook sites; only stamp-ordered facts are demanded.

use std::cell::RefCell;
use std::sync::atomic::{AtomicBool, Ordering};
use std::sync::{Arc, Barrier, Mutex};
use std::time::Instant;
use tracing_core::dispatch::{self, DefaultGuard, Dispatch};
use vcs::{Fresh, Kind};
use vlib::exec::Workers;
use vlib::rec::{FilterCollector, Got, Shared, SharedBye, Spec};
use vlib::run::{self, Finish};
use vlib::{chaos, json, stamps, Args, ChildSpec, Map, Mode, Out, Rng, Value};

const ID: &str = "C02";

thread_local! {
    static GUARDS: RefCell<Vec<DefaultGuard>> = const { RefCell::new(Vec::new()) };
}

fn main() {
    let args = run::parse_args();
    match args.mode.clone() {
        Mode::Parent => parent(&args),
        Mode::Child(k) if k == "hist" => child_hist(&args),
        Mode::Child(k) if k == "conc" => child_conc(&args),
        Mode::Child(k) if k == "rdv" => child_rdv(&args),
        Mode::Child(k) if k == "raw" => child_raw(&args),
        Mode::Child(k) => {
            eprintln!("HARNESS: unknown child kind {k}");
            std::process::exit(2)
        }
        Mode::Replay(p) => run::replay(ID, &p),
    }
}

/// Scenario for the interpreter / sanitizer layers WITHOUT any instrumentation of its own between
/// the threads: the monitors of the other kinds (logical-clock stamps, recorder locks) are
/// synchronisation too, and an ordering the library forgot to establish can hide behind theirs.
/// Here the racing threads share nothing but the library: one thread creates collectors and
/// installs the global default, the others keep emitting from callsites that are already
/// registered (no registry lock on that path), some with scopes of their own.  The only oracle is
/// the tool (plus: every emission arrives at most once, nothing arrives at a dropped collector).
fn child_raw(args: &Args) {
    let mut out = Out::new();
    let mut rng = Rng::derive(args.seed, 0xC02E, args.shard);
    let (arcs, ds) = mk_collectors(&mut rng, 3);
    let fresh = Fresh::new();
    let nreaders = 1 + rng.usize(3);
    let rounds = args.get_u64("rounds", 12) as usize;
    // callsites registered up front, on this thread
    let cs: Vec<&'static vcs::Cs> = (0..3).filter_map(|_| fresh.take(1 + rng.usize(5), rng.usize(4), Kind::Event)).collect();
    {
        let _g = dispatch::set_default(&ds[2]);
        for c in &cs {
            let _ = (c.emit)(1);
        }
    }
    let _ = received(&arcs);
    let writer_sets_at = rng.usize(rounds.max(1));
    let extra_collectors = rng.chance(1, 2);
    std::thread::scope(|sc| {
        for r in 0..nreaders {
            let cs = cs.clone();
            let ds = ds.clone();
            let scoped = rng.chance(1, 3);
            sc.spawn(move || {
                for i in 0..rounds {
                    if scoped && i % 4 == 1 {
                        let _g = dispatch::set_default(&ds[1]);
                        let _ = (cs[i % cs.len()].emit)(((r + 1) * 1000 + i) as u64);
                    } else {
                        let _ = (cs[i % cs.len()].emit)(((r + 1) * 1000 + i) as u64);
                    }
                    std::thread::yield_now();
                }
            });
        }
        let ds2 = ds.clone();
        sc.spawn(move || {
            for i in 0..rounds {
                if i == writer_sets_at {
                    let _ = dispatch::set_global_default(ds2[0].clone());
                }
                if extra_collectors && i % 3 == 0 {
                    // a collector that comes and goes: registration republishes the max level
                    let d = Dispatch::new(Shared(Arc::new(FilterCollector::new(90 + i as u64, Spec { thresh: 2 + i % 3, targets: 0b1111, dynamic: false, hint: Some(2 + i % 3) }, true))));
                    drop(d);
                }
                std::thread::yield_now();
            }
        });
    });
    let got = received(&arcs);
    out.evals += (nreaders * rounds) as u64;
    out.count("raw_scenarios", 1);
    out.count("raw_emissions", (nreaders * rounds) as u64);
    out.count("raw_emissions_received_by_some_collector", got.len() as u64);
    let mut seen = std::collections::HashSet::new();
    for (k, id) in &got {
        if !seen.insert(*id) {
            out.violation("an emission was received twice", json!({"kind": "raw", "id": id, "collector": k}));
        }
    }
    out.distinct_str(&format!("raw|r{nreaders}|x{extra_collectors}|w{}", writer_sets_at.min(3)));
    out.emit();
}

fn parent(args: &Args) {
    let t0 = Instant::now();
    let mut out = Out::new();
    let nh = args.get_u64("hist", args.tier.pick(3000, 45000));
    let ends = run::run_children(args, &ChildSpec::new("hist", nh).timeout(60), &mut out);
    run::classify_ends(&ends, &mut out, true);
    let nc = args.get_u64("conc", args.tier.pick(2000, 30000));
    let ends = run::run_children(args, &ChildSpec::new("conc", nc).timeout(60), &mut out);
    run::classify_ends(&ends, &mut out, true);
    let nr = args.get_u64("rdv", args.tier.pick(64, 1280));
    let ends = run::run_children(args, &ChildSpec::new("rdv", nr).arg("rounds", args.get_u64("rounds", 20000)).timeout(300), &mut out);
    run::classify_ends(&ends, &mut out, true);
    let nw = args.get_u64("raw", args.tier.pick(64, 640));
    let ends = run::run_children(args, &ChildSpec::new("raw", nw).timeout(60), &mut out);
    run::classify_ends(&ends, &mut out, true);
    let mut extra = Map::new();
    extra.insert("child_processes".into(), json!(nh + nc + nr + nw));
    vlib::sanlayer::run_layers(ID, args, &mut out, &mut extra);
    run::finish(
        Finish {
            id: ID,
            args,
            t0,
            rule: "one history per child process (global default is one-shot). evaluations = emissions + WhoAmI queries + set_global_default attempts judged; \
                   non-trivial = an emission/query made (a) by a thread without a scope while another thread holds one, or (b) after the global default was set by a thread that had touched the dispatcher before it existed, or (c) inside nested / unwound scopes; \
                   distinct = distinct (route expected, own depth, foreign scopes alive, touched-before-global?, global set?, via panic-unwind?) x op-kind tuples, plus distinct interleaving signatures of the concurrent scenarios",
            assumptions: vec![
                "recorders accept everything; which collector logged the id-carrying event identifies the receiver".into(),
                "concurrent scenarios: only stamp-ordered facts are demanded (overlapping operations get the disjunction of allowed outcomes)".into(),
            ],
            min_evals: 2000,
            min_distinct: 20,
            exhaustive: false,
            extra,
        },
        out,
    );
}

fn mk_collectors(rng: &mut Rng, n: usize) -> (Vec<Arc<FilterCollector>>, Vec<Dispatch>) {
    let mut arcs = vec![];
    let mut ds = vec![];
    for i in 0..n {
        let dynamic = i == n - 1 && rng.bool();
        let a = Arc::new(FilterCollector::new(
            i as u64 + 1,
            Spec {
                thresh: 5,
                targets: 0b1111,
                dynamic,
                hint: None,
            },
            true,
        ));
        ds.push(vlib::rec::dispatch_of(a.clone(), rng.below(4)));
        arcs.push(a);
    }
    (arcs, ds)
}

fn who() -> Option<u64> {
    dispatch::get_default(|d| d.downcast_ref::<Shared>().map(|s| s.0.cid).or_else(|| d.downcast_ref::<SharedBye>().map(|s| s.inner.cid)))
}

fn received(arcs: &[Arc<FilterCollector>]) -> Vec<(usize, u64)> {
    let mut v = vec![];
    for (i, a) in arcs.iter().enumerate() {
        for g in a.take_log() {
            if let Got::Event { id, .. } = g {
                v.push((i, id));
            }
        }
    }
    v
}

fn child_hist(args: &Args) {
    let mut out = Out::new();
    let mut rng = Rng::derive(args.seed, 0xC02, args.shard);
    let fresh = Fresh::new();
    // Prologue (half of the processes): before any `Dispatch::new` has run in this process and
    // before a global default exists, a scope over a `Dispatch::from_static` collector - the
    // emission inside it goes to that collector, one outside it to nobody.
    if rng.bool() {
        let z = Arc::new(FilterCollector::new(77, Spec { thresh: 5, targets: 0b1111, dynamic: false, hint: None }, true));
        let d = vlib::rec::static_dispatch(0, z.clone());
        let cs = fresh.take(1 + rng.usize(5), rng.usize(4), Kind::Event).expect("HARNESS: pool exhausted");
        let emit = cs.emit;
        let seen = dispatch::with_default(&d, || {
            let _ = emit(900_001);
            dispatch::get_default(|c| c.downcast_ref::<vlib::rec::Zst<0>>().is_some())
        });
        let _ = emit(900_002);
        let got: Vec<u64> = z.take_log().into_iter().filter_map(|g| if let Got::Event { id, .. } = g { Some(id) } else { None }).collect();
        out.evals += 1;
        out.count("prologue_scopes_over_a_static_collector_before_any_Dispatch_new", 1);
        vlib::rec::static_clear();
        if got != vec![900_001] || !seen {
            out.violation(
                "a scope over a Dispatch::from_static collector, opened before any Dispatch::new ran in the process, did not receive exactly the emission made inside it",
                json!({"received_event_ids": got, "expected": [900_001], "get_default_inside_the_scope_is_that_collector": seen, "shard": args.shard}),
            );
            out.emit();
            return;
        }
    }
    let (mut arcs, mut ds) = mk_collectors(&mut rng, 4);
    // index 4 = `Dispatch::none()` installed as a scope: emissions inside it are discarded,
    // whatever the global default is
    const NONE_K: usize = 4;
    ds.push(Dispatch::none());
    // index 5 = a scope that owns its collector: the thread-local slot holds the only Dispatch
    // clone, so closing the scope drops the collector, and the collector emits one event from
    // its Drop.  That event is an emission like any other: it goes where the model says an
    // emission made right after the close goes (the enclosing scope, else the global default,
    // else nowhere).  Events inside the scope are recorded by arcs[5]; arcs[4] is never installed.
    const OWNED_K: usize = 5;
    let all = Spec { thresh: 5, targets: 0b1111, dynamic: false, hint: None };
    arcs.push(Arc::new(FilterCollector::new(5, all, true)));
    arcs.push(Arc::new(FilterCollector::new(6, all, true)));
    ds.push(Dispatch::none());
    let mut bye_ids: Vec<Vec<u64>> = vec![vec![]];
    let mut workers: Vec<Workers> = vec![Workers::new(1)];
    let mut stacks: Vec<Vec<usize>> = vec![vec![]];
    let mut touched_before_global: Vec<bool> = vec![false];
    let mut global: Option<usize> = None;
    let mut ops: Vec<String> = vec![];
    let mut opid = 1u64;
    let nops = 6 + rng.usize(24);
    out.count("histories", 1);
    let style = rng.below(3); // 0 uniform, 1 biased to "touch before global, then foreign scope"
    let mut global_pos: Option<usize> = None;

    macro_rules! fail {
        ($what:expr, $detail:expr) => {{
            out.violation(
                $what,
                json!({"ops": ops, "detail": $detail, "shard": args.shard}),
            );
            out.emit();
            return;
        }};
    }

    for step in 0..nops {
        let nt = workers.len();
        let t = rng.usize(nt);
        let any_scope = stacks.iter().any(|s| !s.is_empty());
        let foreign_scope = stacks.iter().enumerate().any(|(i, s)| i != t && !s.is_empty());
        let w = [
            if stacks[t].len() < 3 { 5 } else { 0 },                    // 0 Open
            if stacks[t].is_empty() { 0 } else { 3 },                   // 1 Close
            2,                                                          // 2 Scoped (with_default)
            2,                                                          // 3 PanicInScope
            if global.is_none() { if style == 1 && step < 4 { 0 } else { 2 } } else { 1 }, // 4 SetGlobal
            if nt < 4 { 2 } else { 0 },                                 // 5 Spawn
            10,                                                         // 6 Emit
            3,                                                          // 7 WhoAmI
        ];
        let _ = any_scope;
        match rng.weighted(&w) {
            0 => {
                let k = match rng.below(12) {
                    0 | 1 => NONE_K,
                    2 | 3 => OWNED_K,
                    _ => rng.usize(4),
                };
                let d = if k == OWNED_K {
                    let id = opid;
                    opid += 1;
                    bye_ids[t].push(id);
                    let emit = fresh.take(1 + rng.usize(5), rng.usize(4), Kind::Event).expect("HARNESS: pool exhausted").emit;
                    ops.push(format!("Open(t{t}, owned collector k{k}; its Drop emits op{id})"));
                    Dispatch::new(SharedBye {
                        inner: arcs[OWNED_K].clone(),
                        on_drop: Box::new(move || {
                            let _ = emit(id);
                        }),
                    })
                } else {
                    ops.push(format!("Open(t{t}, {})", if k == NONE_K { "Dispatch::none()".to_string() } else { format!("k{k}") }));
                    ds[k].clone()
                };
                if let Err(p) = workers[t].run(0, move || {
                    let g = dispatch::set_default(&d);
                    drop(d);
                    GUARDS.with(|gs| gs.borrow_mut().push(g));
                }) {
                    fail!("panic in set_default", json!({"panic": p}));
                }
                if global.is_none() {
                    touched_before_global[t] = true;
                }
                stacks[t].push(k);
            }
            1 => {
                let k = stacks[t].pop().unwrap();
                ops.push(format!("Close(t{t}) [was k{k}]"));
                if let Err(p) = workers[t].run(0, move || {
                    let g = GUARDS.with(|gs| gs.borrow_mut().pop());
                    drop(g);
                }) {
                    fail!("panic dropping DefaultGuard", json!({"panic": p}));
                }
                if k == OWNED_K {
                    let id = bye_ids[t].pop().expect("HARNESS: bye id");
                    let expected: Option<usize> = match stacks[t].last().copied() {
                        Some(NONE_K) => None,
                        Some(k) => Some(k),
                        None => global,
                    };
                    let got = received(&arcs);
                    let want: Vec<(usize, u64)> = expected.map(|k| vec![(k, id)]).unwrap_or_default();
                    out.evals += 1;
                    out.count("scope_closes_that_dropped_a_collector_emitting_from_its_drop", 1);
                    out.distinct_str(&format!("bye|{}|{foreign_scope}|{}", stacks[t].len(), global.is_some()));
                    if global.is_none() && stacks[t].is_empty() && foreign_scope {
                        touched_before_global[t] = true;
                    }
                    if got != want {
                        fail!(
                            "the event a collector emitted while the closing scope dropped it was not received by the collector the model selects after the close",
                            json!({"expected": format!("{want:?}"), "received": format!("{got:?}")})
                        );
                    }
                }
            }
            k @ (2 | 3) => {
                let panics = k == 3;
                let c = if rng.chance(1, 6) { NONE_K } else { rng.usize(4) };
                let id = opid;
                opid += 1;
                let cs = fresh
                    .take(1 + rng.usize(5), rng.usize(4), Kind::Event)
                    .expect("HARNESS: pool exhausted");
                // a third of the scoped closures are futures carrying their collector
                // (`WithCollector::with_collector`): the scope exists for the duration of a poll
                let via_future = rng.chance(1, 3);
                ops.push(format!(
                    "{}(t{t}, k{c}{}) emitting op{id}",
                    if panics { "PanicInScope" } else { "Scoped" },
                    if via_future { ", one poll of async{..}.with_collector(k)" } else { "" }
                ));
                if via_future {
                    out.count("scopes_entered_by_polling_a_future_with_collector", 1);
                }
                let d = ds[c].clone();
                let emit = cs.emit;
                let r = workers[t].run(0, move || {
                    let r = std::panic::catch_unwind(std::panic::AssertUnwindSafe(|| {
                        let body = move || {
                            let _ = emit(id);
                            let w = who();
                            if panics {
                                std::panic::panic_any(4242u32);
                            }
                            w
                        };
                        if via_future {
                            use std::future::Future;
                            use tracing::instrument::WithCollector;
                            let mut fut = Box::pin(async move { body() }.with_collector(d));
                            let mut cx = std::task::Context::from_waker(std::task::Waker::noop());
                            match fut.as_mut().poll(&mut cx) {
                                std::task::Poll::Ready(w) => w,
                                std::task::Poll::Pending => unreachable!("HARNESS: the future never suspends"),
                            }
                        } else {
                            dispatch::with_default(&d, body)
                        }
                    }));
                    match r {
                        Ok(w) => (w, false),
                        Err(p) => (None, p.downcast_ref::<u32>() == Some(&4242)),
                    }
                });
                let (w, unwound) = match r {
                    Ok(x) => x,
                    Err(p) => fail!("unexpected panic in with_default", json!({"panic": p})),
                };
                if global.is_none() {
                    touched_before_global[t] = true;
                }
                let got = received(&arcs);
                out.evals += 1;
                out.count("emissions_scoped", 1);
                out.distinct_str(&format!("scoped|{}|{}|{}|{panics}", stacks[t].len(), foreign_scope, global.is_some()));
                let want_scoped: Vec<(usize, u64)> = if c == NONE_K { vec![] } else { vec![(c, id)] };
                if got != want_scoped {
                    fail!(
                        "emission inside with_default did not go (only) to that scope's collector",
                        json!({"expected": format!("k{c}"), "received": format!("{got:?}")})
                    );
                }
                if panics != unwound {
                    fail!("with_default closure panic was not propagated as-is", json!({"panics": panics, "unwound": unwound}));
                }
                if !panics && w != (if c == NONE_K { None } else { Some(c as u64 + 1) }) {
                    fail!("get_default inside with_default is not that scope's collector", json!({"who": w, "expected": c + 1}));
                }
            }
            4 => {
                let k = rng.usize(4);
                ops.push(format!("SetGlobal(t{t}, k{k})"));
                let d = ds[k].clone();
                let r = match workers[t].run(0, move || dispatch::set_global_default(d).is_ok()) {
                    Ok(r) => r,
                    Err(p) => fail!("panic in set_global_default", json!({"panic": p})),
                };
                out.evals += 1;
                out.count("set_global_attempts", 1);
                let expect_ok = global.is_none();
                if r != expect_ok {
                    fail!(
                        if r { "a second set_global_default returned Ok" } else { "the first set_global_default returned Err" },
                        json!({"returned_ok": r, "global_already": global})
                    );
                }
                if r {
                    global = Some(k);
                    global_pos = Some(step);
                }
            }
            5 => {
                ops.push(format!("Spawn(t{nt})"));
                workers.push(Workers::new(1));
                stacks.push(vec![]);
                bye_ids.push(vec![]);
                touched_before_global.push(false);
            }
            k @ (6 | 7) => {
                let query = k == 7;
                let id = opid;
                opid += 1;
                let expected: Option<usize> = match stacks[t].last().copied() {
                    Some(NONE_K) => None,
                    Some(k) => Some(k),
                    None => global,
                };
                if stacks[t].last() == Some(&NONE_K) {
                    out.count("emissions_or_queries_inside_a_Dispatch_none_scope", 1);
                }
                let route = if !stacks[t].is_empty() {
                    "scoped"
                } else if global.is_some() {
                    "global"
                } else {
                    "none"
                };
                let f1_shape = stacks[t].is_empty() && global.is_some() && touched_before_global[t] && foreign_scope;
                ops.push(format!(
                    "{}(t{t}) op{id} [expect {route} {}]",
                    if query { "WhoAmI" } else { "Emit" },
                    expected.map(|k| format!("k{k}")).unwrap_or_else(|| "-".into())
                ));
                out.evals += 1;
                out.count(&format!("{}_{route}", if query { "queries" } else { "emissions" }), 1);
                if f1_shape {
                    out.count("touched_before_global_and_foreign_scope_alive", 1);
                }
                if foreign_scope && stacks[t].is_empty() {
                    out.count("no_own_scope_while_foreign_scope_alive", 1);
                }
                if foreign_scope || stacks[t].len() > 1 || (global.is_some() && touched_before_global[t]) {
                    out.distinct_str(&format!(
                        "{query}|{route}|{}|{foreign_scope}|{}|{}",
                        stacks[t].len(),
                        touched_before_global[t],
                        global.is_some()
                    ));
                }
                if query {
                    let w = match workers[t].run(0, who) {
                        Ok(w) => w,
                        Err(p) => fail!("panic in get_default", json!({"panic": p})),
                    };
                    if global.is_none() && stacks[t].is_empty() && any_scope {
                        touched_before_global[t] = true;
                    }
                    if w != expected.map(|k| k as u64 + 1) {
                        fail!(
                            "get_default does not name the collector the model selects",
                            json!({"expected": expected, "observed_cid_minus_1": w.map(|x| x - 1), "route": route, "f1_shape": f1_shape})
                        );
                    }
                } else {
                    let cs = fresh
                        .take(1 + rng.usize(5), rng.usize(4), Kind::Event)
                        .expect("HARNESS: pool exhausted");
                    let emit = cs.emit;
                    // one emission in eight makes the receiving collector panic inside its `event`
                    // callback; the caller catches the panic and the thread goes on: every scope
                    // and the global default must select exactly as before
                    let collector_panics = expected.is_some() && rng.chance(1, 8);
                    if collector_panics {
                        arcs[expected.unwrap()].panic_on_event.store(id, Ordering::SeqCst);
                        out.count("emissions_whose_collector_panicked_in_its_callback", 1);
                        ops.last_mut().unwrap().push_str(" [the collector panics inside event(); caught]");
                    }
                    match workers[t].run(0, move || {
                        let r = std::panic::catch_unwind(std::panic::AssertUnwindSafe(|| {
                            let _ = emit(id);
                        }));
                        match r {
                            Ok(()) => false,
                            Err(p) if p.downcast_ref::<u32>() == Some(&4343) => true,
                            Err(p) => std::panic::resume_unwind(p),
                        }
                    }) {
                        Err(p) => fail!("panic during emission", json!({"panic": p})),
                        Ok(unwound) if unwound != collector_panics => fail!(
                            "a panic inside the collector's callback did not reach the emitting code as-is",
                            json!({"collector_panics": collector_panics, "unwound": unwound})
                        ),
                        Ok(_) => {}
                    }
                    if collector_panics {
                        arcs[expected.unwrap()].panic_on_event.store(u64::MAX, Ordering::SeqCst);
                    }
                    if global.is_none() && stacks[t].is_empty() && any_scope {
                        touched_before_global[t] = true;
                    }
                    let got = received(&arcs);
                    let want: Vec<(usize, u64)> = expected.map(|k| vec![(k, id)]).unwrap_or_default();
                    if got != want {
                        fail!(
                            "emission was not received by the collector the model selects",
                            json!({"expected": format!("{want:?}"), "received": format!("{got:?}"), "route": route, "f1_shape": f1_shape})
                        );
                    }
                }
            }
            _ => unreachable!(),
        }
        let stray = received(&arcs);
        if !stray.is_empty() {
            fail!("a collector received an event outside any emission", json!({"received": format!("{stray:?}")}));
        }
    }
    if let Some(p) = global_pos {
        out.set("set_global_position", format!("{p}"));
    }
    if out.samples.is_empty() && args.shard < 3 {
        out.sample(json!({"kind": "hist", "ops": ops}));
    }
    // unwind scopes LIFO per thread
    for t in 0..workers.len() {
        while stacks[t].pop().is_some() {
            let _ = workers[t].run(0, || {
                let g = GUARDS.with(|gs| gs.borrow_mut().pop());
                drop(g);
            });
        }
    }
    out.emit();
}

// ---------------------------------------------------------------------------------------------
// concurrent scenarios

#[derive(Clone, Debug)]
struct Ev {
    tid: usize,
    kind: &'static str, // "setglobal" | "emit" | "open" | "close"
    call: u64,
    ret: u64,
    id: u64,
    own_scope: Option<usize>,
    ok: bool,
    k: usize,
}

fn child_conc(args: &Args) {
    let mut out = Out::new();
    let mut rng = Rng::derive(args.seed, 0xC02C, args.shard);
    let (arcs, ds) = mk_collectors(&mut rng, 3);
    let nthreads = 2 + rng.usize(3);
    let intensity = [0u32, 20, 50, 80][rng.usize(4)];
    chaos::install();
    let barrier = Arc::new(Barrier::new(nthreads));
    let log: Arc<Mutex<Vec<Ev>>> = Arc::new(Mutex::new(vec![]));
    let fresh = Arc::new(Fresh::new());
    let done = Arc::new(AtomicBool::new(false));
    let mut hs = vec![];
    out.count("conc_scenarios", 1);
    for tid in 0..nthreads {
        let ds = ds.clone();
        let barrier = barrier.clone();
        let log = log.clone();
        let fresh = fresh.clone();
        let mut trng = rng.fork();
        let cseed = rng.next_u64();
        hs.push(std::thread::spawn(move || {
            let mut mine: Vec<Ev> = vec![];
            let mut stack: Vec<(usize, DefaultGuard)> = vec![];
            // some threads touch the dispatcher before the race starts
            if trng.chance(1, 3) {
                let g = dispatch::set_default(&ds[0]);
                drop(g);
            }
            let mut id = (tid as u64 + 1) * 1_000_000;
            chaos::arm(tid, cseed, intensity, true);
            barrier.wait();
            let n = 6 + trng.usize(14);
            for _ in 0..n {
                match trng.weighted(&[3, 2, 2, 8]) {
                    0 => {
                        let k = trng.usize(ds.len());
                        let d = ds[k].clone();
                        let (sp, r) = stamps::timed(|| dispatch::set_global_default(d).is_ok());
                        mine.push(Ev { tid, kind: "setglobal", call: sp.call, ret: sp.ret, id: 0, own_scope: None, ok: r, k });
                    }
                    1 if stack.len() < 2 => {
                        let k = trng.usize(ds.len());
                        let (sp, g) = stamps::timed(|| dispatch::set_default(&ds[k]));
                        stack.push((k, g));
                        mine.push(Ev { tid, kind: "open", call: sp.call, ret: sp.ret, id: 0, own_scope: Some(k), ok: true, k });
                    }
                    2 if !stack.is_empty() => {
                        let (k, g) = stack.pop().unwrap();
                        let (sp, _) = stamps::timed(|| drop(g));
                        mine.push(Ev { tid, kind: "close", call: sp.call, ret: sp.ret, id: 0, own_scope: stack.last().map(|x| x.0), ok: true, k });
                    }
                    _ => {
                        id += 1;
                        let Some(cs) = fresh.take(1 + trng.usize(5), trng.usize(4), Kind::Event) else { continue };
                        let own = stack.last().map(|x| x.0);
                        let (sp, _) = stamps::timed(|| {
                            let _ = (cs.emit)(id);
                        });
                        mine.push(Ev { tid, kind: "emit", call: sp.call, ret: sp.ret, id, own_scope: own, ok: true, k: 0 });
                    }
                }
            }
            while let Some((_, g)) = stack.pop() {
                drop(g);
            }
            let hooks = chaos::disarm();
            log.lock().unwrap().extend(mine);
            (tid, hooks)
        }));
    }
    // watchdog
    let t0 = Instant::now();
    let mut hooklogs = vec![];
    for h in hs {
        while !h.is_finished() {
            if t0.elapsed().as_secs() > 30 * run::slow_factor() {
                out.inconclusive(format!("concurrent scenario shard {} did not finish in 30 s (watchdog)", args.shard));
                out.emit();
                std::process::exit(0);
            }
            std::thread::sleep(std::time::Duration::from_micros(200));
        }
        match h.join() {
            Ok(x) => hooklogs.push(x),
            Err(p) => {
                out.violation(
                    "panic in a thread racing set_global_default / scopes / emissions",
                    json!({"panic": run::panic_msg(&p), "shard": args.shard}),
                );
                out.emit();
                return;
            }
        }
    }
    done.store(true, Ordering::SeqCst);
    chaos::uninstall();
    let evs = log.lock().unwrap().clone();
    // who received what
    let mut recv: std::collections::HashMap<u64, Vec<usize>> = Default::default();
    for (i, a) in arcs.iter().enumerate() {
        for g in a.take_log() {
            if let Got::Event { id, .. } = g {
                recv.entry(id).or_default().push(i);
            }
        }
    }
    let oks: Vec<&Ev> = evs.iter().filter(|e| e.kind == "setglobal" && e.ok).collect();
    let attempts = evs.iter().filter(|e| e.kind == "setglobal").count();
    out.evals += attempts as u64;
    out.count("conc_set_global_attempts", attempts as u64);
    let hist = || -> Value {
        let mut v: Vec<&Ev> = evs.iter().collect();
        v.sort_by_key(|e| e.call);
        json!(v.iter().map(|e| format!("t{} {} [{}..{}] id={} own={:?} ok={} k{}", e.tid, e.kind, e.call, e.ret, e.id, e.own_scope, e.ok, e.k)).collect::<Vec<_>>())
    };
    if attempts > 0 && oks.len() != 1 {
        out.violation(
            format!("{} of {} racing set_global_default attempts returned Ok (exactly one must)", oks.len(), attempts),
            json!({"history": hist(), "shard": args.shard}),
        );
        out.emit();
        return;
    }
    let gok = oks.first().copied();
    for e in evs.iter().filter(|e| e.kind == "emit") {
        out.evals += 1;
        let got = recv.get(&e.id).cloned().unwrap_or_default();
        let verdict: Result<&str, String> = match e.own_scope {
            Some(k) => {
                if got == vec![k] { Ok("scoped") } else { Err(format!("emission inside own scope k{k} received by {got:?}")) }
            }
            None => match gok {
                None => {
                    if got.is_empty() { Ok("none") } else { Err(format!("no global default was ever set, yet received by {got:?}")) }
                }
                Some(g) => {
                    if e.call > g.ret {
                        if got == vec![g.k] { Ok("global_after") } else { Err(format!("emission started after set_global_default(k{}) returned Ok, received by {got:?}", g.k)) }
                    } else if e.ret < g.call {
                        if got.is_empty() { Ok("none_before") } else { Err(format!("emission finished before set_global_default was called, yet received by {got:?}")) }
                    } else if got.is_empty() || got == vec![g.k] {
                        Ok("overlap")
                    } else {
                        Err(format!("emission overlapping set_global_default(k{}) received by {got:?}", g.k))
                    }
                }
            },
        };
        match verdict {
            Ok(c) => out.count(&format!("conc_emit_{c}"), 1),
            Err(w) => {
                out.violation(
                    format!("concurrent: {w}"),
                    json!({"history": hist(), "emission": format!("{e:?}"), "shard": args.shard, "intensity": intensity}),
                );
                out.emit();
                return;
            }
        }
    }
    let logs: Vec<(usize, Vec<(u64, u32)>)> = hooklogs;
    let (sig, ord) = chaos::signature(&logs, &[tracing_core::verif::site::MC_INTEREST_LOADED]);
    out.distinct(sig);
    out.count("conc_hook_events", ord.len() as u64);
    for (a, b) in chaos::pair_orders(&ord) {
        if a >= 20 && a < 30 && b >= 20 && b < 30 {
            out.set("dispatch_site_pair_orders", format!("{}<{}", chaos::site_name(a), chaos::site_name(b)));
        }
    }
    if args.shard < 2 {
        out.sample(json!({"kind": "conc", "history": hist()}));
    }
    out.emit();
}

// ---------------------------------------------------------------------------------------------
// tight rendezvous stress: two threads perform one scope operation each at (as nearly as a spin
// rendezvous allows) the same instant - open || open, open || close, close || open, close || close -
// and then each thread emits and must reach the collector its OWN scope stack selects.
// Targets check-then-act / lost-update windows that are a few instructions wide (no hook inside).
fn child_rdv(args: &Args) {
    use std::sync::atomic::AtomicUsize;
    let rounds = args.get_u64("rounds", 20000);
    let mut out = Out::new();
    let mut rng = Rng::derive(args.seed, 0xC02D, args.shard);
    let (arcs, ds) = mk_collectors(&mut rng, 3);
    // half of the processes have a global default (collector 2)
    let global: Option<usize> = if rng.bool() {
        dispatch::set_global_default(ds[2].clone()).expect("HARNESS: first set_global_default");
        Some(2)
    } else {
        None
    };
    let gen = Arc::new(AtomicUsize::new(0));
    let fresh = Arc::new(Fresh::new());
    // per-thread plan: for each round, (op, collector) where op 0 = open, 1 = close, 2 = nothing
    let plans: Vec<Vec<(u8, usize)>> = (0..2)
        .map(|t| {
            let mut depth = 0usize;
            (0..rounds)
                .map(|_| {
                    let op = if depth == 0 {
                        if rng.chance(3, 4) { 0 } else { 2 }
                    } else if depth >= 2 {
                        if rng.chance(3, 4) { 1 } else { 2 }
                    } else {
                        [0u8, 1, 1, 0, 2][rng.usize(5)]
                    };
                    match op {
                        0 => depth += 1,
                        1 => depth -= 1,
                        _ => {}
                    }
                    (op, t) // thread t always installs collector t, so misrouting is visible
                })
                .collect()
        })
        .collect();
    let bad: Arc<Mutex<Option<Value>>> = Arc::new(Mutex::new(None));
    let mut hs = vec![];
    for t in 0..2usize {
        let ds = ds.clone();
        let arcs = arcs.clone();
        let gen = gen.clone();
        let plan = plans[t].clone();
        let bad = bad.clone();
        let fresh = fresh.clone();
        hs.push(std::thread::spawn(move || {
            // one callsite per thread, hit over and over (interest is `always`: all collectors accept)
            let cs = fresh.take(3, t, Kind::Event).expect("HARNESS: pool");
            let mut stack: Vec<DefaultGuard> = vec![];
            let mut judged = 0u64;
            let mut raced = [0u64; 3];
            for (round, (op, k)) in plan.iter().enumerate() {
                // spin rendezvous: both threads leave together
                let target = (round + 1) * 2;
                gen.fetch_add(1, Ordering::AcqRel);
                let mut spins = 0u64;
                while gen.load(Ordering::Acquire) < target {
                    std::hint::spin_loop();
                    spins += 1;
                    if spins % 1_000_000 == 0 && bad.lock().unwrap().is_some() {
                        return (judged, raced);
                    }
                }
                match op {
                    0 => stack.push(dispatch::set_default(&ds[*k])),
                    1 => drop(stack.pop()),
                    _ => {}
                }
                raced[*op as usize] += 1;
                // judge: an emission now must reach the collector this thread's own stack selects
                let id = ((t as u64 + 1) << 40) | round as u64;
                let _ = (cs.emit)(id);
                judged += 1;
                let expect: Option<usize> = if stack.is_empty() { global } else { Some(t) };
                let mut got: Vec<usize> = vec![];
                for (i, a) in arcs.iter().enumerate() {
                    let mut l = a.log.lock().unwrap();
                    if l.iter().any(|g| matches!(g, Got::Event { id: x, .. } if *x == id)) {
                        got.push(i);
                    }
                    // keep the logs small: drop this thread's own older entries
                    l.retain(|g| !matches!(g, Got::Event { id: x, .. } if (*x >> 40) == t as u64 + 1 && *x != id));
                }
                let want: Vec<usize> = expect.into_iter().collect();
                if got != want {
                    let mut b = bad.lock().unwrap();
                    if b.is_none() {
                        *b = Some(json!({"thread": t, "round": round, "own_scope_depth": stack.len(), "this_thread_did": (["open", "close", "nothing"][*op as usize]),
                                         "expected_collector": expect, "received_by": got, "global_default": global}));
                    }
                    // keep the rendezvous going so the other thread is not left spinning
                }
            }
            while let Some(g) = stack.pop() {
                drop(g);
            }
            (judged, raced)
        }));
    }
    let mut judged = 0;
    for h in hs {
        match h.join() {
            Ok((j, raced)) => {
                judged += j;
                out.count("rdv_opens", raced[0]);
                out.count("rdv_closes", raced[1]);
            }
            Err(p) => out.violation("panic in the scope rendezvous stress", json!({"panic": run::panic_msg(&p), "shard": args.shard})),
        }
    }
    out.evals += judged;
    out.count("rdv_emissions_judged", judged);
    out.count("rdv_processes", 1);
    out.distinct_str(&format!("rdv|global={}|{}", global.is_some(), args.shard % 8));
    if let Some(w) = bad.lock().unwrap().take() {
        out.violation(
            "after two threads opened / closed scopes at the same instant, an emission did not reach the collector its own thread's scope stack selects",
            json!({"detail": w, "shard": args.shard, "plan_of_the_other_thread_in_that_round": "see child args (deterministic plan from the seed)"}),
        );
    }
    out.emit();
}
