//! C16 — rolling appender: a write lands in its period's file; one rotation per boundary;
//! only the oldest files are pruned (DESIGN.md 5/C16).
//!
//! Runtime monitor.  The real `RollingFileAppender` is driven under a scripted virtual clock
//! (hook `rolling::verif::set_clock`, process-wide, therefore ONE appender scenario at a time
//! per child process; many child processes run in parallel).  After every operation the
//! directory listing (names, lengths, birth times) and the bytes appended are compared with a
//! model directory.  Expected file names come from the harness's own civil-date arithmetic
//! (`vlib::civil`), never from the `time` crate.
//!
//! Clauses judged (the `what` of a violation names the clause):
//!  * forward write at t (t >= every earlier reading): the bytes are exactly the new tail of the
//!    file named for period(t); nothing else changed; a new file appears iff period(t) differs
//!    from the current file's period, and then exactly that one file;
//!  * write at a reading below an earlier one (back-step): exempt from the "period's file"
//!    clause; no file may appear or disappear, and the bytes must be appended exactly once;
//!  * without a limit nothing is ever removed; with `max_log_files(n)`: after a rotation at
//!    most n files, not fewer than min(n, files before + 1), and no removed file has a later
//!    birth time than a surviving older file (equal birth times: ordering clause inconclusive);
//!  * shared `MakeWriter`, 2-8 threads released together: every buffer exactly once, whole, in
//!    per-thread order, in the period's file or - only when the round crosses a boundary and no
//!    write into the new file had completed before the operation began - in the file being
//!    replaced; exactly one new file per boundary.
//!
//! Readings lie in 1970..9990 except in a small, separately counted scenario class (1 in 32,
//! sequential apis) that starts before 1970.  There the known finding F16 (timestamps kept as
//! `usize`, 0 = "never") is matched by two narrow signatures only - see `pre_epoch_armed`
//! (no rotation at a reading >= 1970 after the next rotation instant was computed from a pre-1970
//! reading) and `pre_epoch_back_armed` (a back-step to a reading < 1970 rotates); every other
//! divergence in those scenarios is an ordinary violation.

use std::collections::{BTreeMap, BTreeSet};
use std::io::Write;
use std::path::{Path, PathBuf};
use std::sync::atomic::{AtomicI64, AtomicU32, AtomicU64, Ordering::SeqCst};
use std::sync::{Arc, Barrier};
use std::time::{Duration, Instant, UNIX_EPOCH};
use tracing_appender::rolling::{self, RollingFileAppender, Rotation};
use tracing_subscriber::fmt::MakeWriter;
use vlib::civil;
use vlib::run::{self, Finish};
use vlib::stamps;
use vlib::{json, Args, ChildSpec, Map, Mode, Out, Rng, Value};

const ID: &str = "C16";
const NS: i128 = 1_000_000_000;
/// real-time distance kept between file creations in runs with a file limit (ext4 birth
/// times advance in ~4 ms ticks here)
const SPACING: Duration = Duration::from_millis(12);
/// no virtual reading beyond this (9990-01-01): the `time` crate's range ends at 9999
const T_LIMIT: i128 = 253_086_595_200 * NS;

// ---------------------------------------------------------------- virtual clock

static CLK_S: AtomicI64 = AtomicI64::new(0);
static CLK_N: AtomicU32 = AtomicU32::new(0);
static CLK_READS: AtomicU64 = AtomicU64::new(0);

/// installed through the hook; only ever changed while no appender call is in flight
fn clock() -> i128 {
    CLK_READS.fetch_add(1, SeqCst);
    CLK_S.load(SeqCst) as i128 * NS + CLK_N.load(SeqCst) as i128
}
fn set_time(t: i128) {
    CLK_S.store(t.div_euclid(NS) as i64, SeqCst);
    CLK_N.store(t.rem_euclid(NS) as u32, SeqCst);
}

// ---------------------------------------------------------------- configuration

#[derive(Clone, Copy, PartialEq, Eq, Debug)]
enum Rot {
    Minutely,
    Hourly,
    Daily,
    Never,
}
impl Rot {
    fn name(self) -> &'static str {
        match self {
            Rot::Minutely => "minutely",
            Rot::Hourly => "hourly",
            Rot::Daily => "daily",
            Rot::Never => "never",
        }
    }
    fn real(self) -> Rotation {
        match self {
            Rot::Minutely => Rotation::MINUTELY,
            Rot::Hourly => Rotation::HOURLY,
            Rot::Daily => Rotation::DAILY,
            Rot::Never => Rotation::NEVER,
        }
    }
    /// period length in nanoseconds (for `Never`: a day, used only to generate steps)
    fn plen(self) -> i128 {
        NS * match self {
            Rot::Minutely => 60,
            Rot::Hourly => 3600,
            Rot::Daily | Rot::Never => 86400,
        }
    }
    /// index of the rotation period that contains `t` (one single period for `Never`)
    fn pidx(self, t: i128) -> i128 {
        match self {
            Rot::Never => 0,
            _ => t.div_euclid(self.plen()),
        }
    }
}

#[derive(Clone, Copy, PartialEq, Eq, Debug)]
enum Api {
    Write,
    MakeWriter,
    Threads(usize),
}
impl Api {
    fn name(self) -> String {
        match self {
            Api::Write => "write".into(),
            Api::MakeWriter => "make_writer".into(),
            Api::Threads(k) => format!("threads{k}"),
        }
    }
}

#[derive(Clone, Debug)]
struct Cfg {
    rot: Rot,
    prefix: Option<String>,
    suffix: Option<String>,
    max_files: Option<usize>,
    api: Api,
    /// construct through `rolling::{minutely,hourly,daily,never}` / `RollingFileAppender::new`
    via_new: bool,
}
impl Cfg {
    fn affix(&self) -> &'static str {
        match (&self.prefix, &self.suffix) {
            (Some(_), Some(_)) => "both",
            (Some(_), None) => "prefix",
            (None, Some(_)) => "suffix",
            (None, None) => "none",
        }
    }
    fn code(&self) -> String {
        format!(
            "{}|{}|max={}|{}",
            self.rot.name(),
            self.affix(),
            self.max_files.map(|n| n.to_string()).unwrap_or_else(|| "-".into()),
            self.api.name()
        )
    }
    fn json(&self) -> Value {
        json!({"rotation": self.rot.name(), "prefix": self.prefix, "suffix": self.suffix,
               "max_log_files": self.max_files, "api": self.api.name(), "constructed_via_new": self.via_new})
    }
    /// Documented naming scheme: prefix "." date "." suffix, date = yyyy-MM-dd[-HH[-mm]] in UTC;
    /// for `never` just prefix "." suffix.  `None`: `never` without prefix and suffix - the
    /// documentation does not name that single file, any one name is accepted.
    fn expected_name(&self, t: i128) -> Option<String> {
        let date = date_str(self.rot, t);
        match (self.rot, &self.prefix, &self.suffix) {
            (Rot::Never, Some(p), Some(s)) => Some(format!("{p}.{s}")),
            (Rot::Never, Some(p), None) => Some(p.clone()),
            (Rot::Never, None, Some(s)) => Some(s.clone()),
            (Rot::Never, None, None) => None,
            (_, Some(p), Some(s)) => Some(format!("{p}.{date}.{s}")),
            (_, Some(p), None) => Some(format!("{p}.{date}")),
            (_, None, Some(s)) => Some(format!("{date}.{s}")),
            (_, None, None) => Some(date),
        }
    }
}

fn civil_of(t: i128) -> civil::Civil {
    civil::civil_from_unix(t.div_euclid(NS), t.rem_euclid(NS) as u32)
}
fn year_str(y: i128) -> String {
    if y < 0 {
        format!("-{:04}", -y)
    } else {
        format!("{y:04}")
    }
}
fn date_str(rot: Rot, t: i128) -> String {
    let c = civil_of(t);
    let y = year_str(c.year);
    match rot {
        Rot::Minutely => format!("{y}-{:02}-{:02}-{:02}-{:02}", c.month, c.day, c.hour, c.minute),
        Rot::Hourly => format!("{y}-{:02}-{:02}-{:02}", c.month, c.day, c.hour),
        Rot::Daily | Rot::Never => format!("{y}-{:02}-{:02}", c.month, c.day),
    }
}
fn iso(t: i128) -> String {
    let c = civil_of(t);
    format!(
        "{}-{:02}-{:02}T{:02}:{:02}:{:02}.{:09}Z",
        year_str(c.year),
        c.month,
        c.day,
        c.hour,
        c.minute,
        c.second,
        c.nanos
    )
}

fn gen_cfg(rng: &mut Rng, slot: u64) -> Cfg {
    // the slot walks the rotation x affix x limit grid so that every cell is visited often;
    // everything else is drawn
    let rot = [Rot::Minutely, Rot::Hourly, Rot::Daily, Rot::Never][(slot % 4) as usize];
    let affix = (slot / 4) % 4;
    let maxs = [None, Some(1), Some(2), Some(5)];
    let mut max_files = maxs[((slot / 16) % 4) as usize];
    if rot == Rot::Never && rng.chance(2, 3) {
        max_files = None; // never rotates, so a limit is never consulted; keep a few anyway
    }
    if max_files.is_some() && rng.chance(1, 8) {
        max_files = Some([3, 4, 7][rng.usize(3)]);
    }
    let prefixes = ["app", "app.log", "my-app_1", "a", "svc.2024", "LOG"];
    let suffixes = ["log", "txt", "log.gz", "x", "0"];
    let prefix = if affix == 0 || affix == 1 {
        Some(rng.pick(&prefixes).to_string())
    } else {
        None
    };
    let suffix = if affix == 0 || affix == 2 {
        Some(rng.pick(&suffixes).to_string())
    } else {
        None
    };
    let api = match rng.below(10) {
        0..=3 => Api::Write,
        4..=5 => Api::MakeWriter,
        _ => Api::Threads(2 + rng.usize(7)),
    };
    let via_new = prefix.is_some() && suffix.is_none() && max_files.is_none() && rng.bool();
    Cfg {
        rot,
        prefix,
        suffix,
        max_files,
        api,
        via_new,
    }
}

fn build(cfg: &Cfg, dir: &Path) -> Result<RollingFileAppender, String> {
    if cfg.via_new {
        let p = cfg.prefix.clone().unwrap();
        return Ok(match cfg.rot {
            Rot::Minutely => rolling::minutely(dir, p),
            Rot::Hourly => rolling::hourly(dir, p),
            Rot::Daily => rolling::daily(dir, p),
            Rot::Never => rolling::never(dir, p),
        });
    }
    let mut b = RollingFileAppender::builder().rotation(cfg.rot.real());
    if let Some(p) = &cfg.prefix {
        b = b.filename_prefix(p.clone());
    }
    if let Some(s) = &cfg.suffix {
        b = b.filename_suffix(s.clone());
    }
    if let Some(n) = cfg.max_files {
        b = b.max_log_files(n);
    }
    b.build(dir).map_err(|e| e.to_string())
}

// ---------------------------------------------------------------- clock scripts

fn start_time(rng: &mut Rng, rot: Rot, pre_epoch: bool) -> i128 {
    if pre_epoch {
        // a handful of seconds to two periods before 1970-01-01T00:00:00Z, or year 1900
        return if rng.chance(3, 4) {
            -(1 + rng.below(2 * (rot.plen() / NS) as u64) as i128) * NS + rng.below(NS as u64) as i128
        } else {
            civil::unix_from_civil(1900, 2, 28, 23, 58, 30) * NS
        };
    }
    const YEARS: [i128; 24] = [
        1970, 1971, 1972, 1999, 2000, 2001, 2023, 2024, 2025, 2026, 2037, 2038, 2096, 2099, 2100, 2101,
        2104, 2200, 2399, 2400, 2401, 4000, 8000, 9900,
    ];
    let y = if rng.chance(3, 4) {
        *rng.pick(&YEARS)
    } else {
        rng.range(1970, 2600) as i128
    };
    let (m, d) = match rng.below(12) {
        0 => (1, 1),
        1 => (1, 31),
        2 => (2, 27),
        3 | 4 => (2, 28),
        5 => (2, civil::days_in_month(y, 2)),
        6 => (3, 1),
        7 => (4, 30),
        8 => (12, 30),
        9 | 10 => (12, 31),
        _ => {
            let m = 1 + rng.below(12) as u32;
            (m, 1 + rng.below(civil::days_in_month(y, m) as u64) as u32)
        }
    };
    let tod: i128 = match rng.below(8) {
        0 => 0,
        1 => 86399,
        2 => 86340 + rng.below(60) as i128,
        3 => 82800 + rng.below(3600) as i128,
        4 => 3599,
        5 => 43200 + 59,
        _ => rng.below(86400) as i128,
    };
    let nanos: i128 = match rng.below(4) {
        0 => 0,
        1 => 999_999_999,
        _ => rng.below(NS as u64) as i128,
    };
    let mut t = (civil::unix_from_civil(y, m, d, 0, 0, 0) + tod) * NS + nanos;
    if y == 2038 && rng.bool() {
        // the 2^31 second
        t = (2_147_483_647 - rng.below(90) as i128) * NS + nanos;
    }
    if rng.chance(1, 3) {
        t -= rng.below(2 * rot.plen() as u64) as i128;
    }
    t.max(0)
}

/// next calendar midnight of some kind strictly after `base`
fn calendar_target(rng: &mut Rng, base: i128) -> (i128, &'static str) {
    let c = civil_of(base);
    let (y, m) = (c.year, c.month);
    let mid = |y: i128, m: u32, d: u32| civil::unix_from_civil(y, m, d, 0, 0, 0) * NS;
    match rng.below(5) {
        0 => ((base.div_euclid(86400 * NS) + 1) * 86400 * NS, "cal_day"),
        1 => {
            let (y2, m2) = if m == 12 { (y + 1, 1) } else { (y, m + 1) };
            (mid(y2, m2, 1), "cal_month")
        }
        2 => (mid(y + 1, 1, 1), "cal_year"),
        3 => {
            // end of February (28th or 29th) -> March 1
            let e = mid(y, 3, 1);
            if e > base {
                (e, "cal_feb_end")
            } else {
                (mid(y + 1, 3, 1), "cal_feb_end")
            }
        }
        _ => {
            // Feb 28 -> Feb 29 of the next leap year (or -> Mar 1 if `y` style years are not leap)
            let mut yy = y;
            loop {
                if civil::is_leap(yy) && mid(yy, 2, 29) > base {
                    break;
                }
                yy += 1;
            }
            (mid(yy, 2, 29), "cal_feb29_start")
        }
    }
}

/// One or several next readings (each gets a write / a round) with the step-class label.
fn gen_times(rng: &mut Rng, rot: Rot, last: i128, max_t: i128) -> Vec<(i128, &'static str)> {
    let pl = rot.plen();
    let base = if rng.chance(3, 4) { max_t } else { last };
    let nb = (base.div_euclid(pl) + 1) * pl;
    let small = |rng: &mut Rng| -> i128 {
        match rng.below(4) {
            0 => 1,
            1 => 1 + rng.below(NS as u64) as i128,
            2 => NS * (1 + rng.below(50) as i128),
            _ => rng.below(pl as u64) as i128,
        }
    };
    let v: Vec<(i128, &'static str)> = match rng.weighted(&[8, 18, 9, 10, 8, 9, 9, 9, 8]) {
        0 => vec![(last, "still")],
        1 => vec![(base + small(rng), "step")],
        2 => vec![(nb - 1, "to_boundary_minus_1ns")],
        3 => vec![(nb, "to_boundary_exact")],
        4 => vec![(nb + small(rng), "past_boundary")],
        5 => vec![
            (nb - 1, "to_boundary_minus_1ns"),
            (nb, "to_boundary_exact"),
            (nb, "still"),
            (nb + 1, "boundary_plus_1ns"),
        ],
        6 => {
            let k = if rng.chance(1, 5) {
                50 + rng.below(5000) as i128
            } else {
                2 + rng.below(40) as i128
            };
            let off = if rng.chance(1, 3) { 0 } else { rng.below(pl as u64) as i128 };
            vec![(base.div_euclid(pl) * pl + k * pl + off, "multi_period_jump")]
        }
        7 => {
            let (d, lab): (i128, &'static str) = match rng.below(5) {
                0 => (1, "back_1ns"),
                1 => (1 + rng.below(NS as u64) as i128, "back_subsecond"),
                2 => (NS * (1 + rng.below(120) as i128), "back_seconds"),
                3 => (last - (last.div_euclid(pl) * pl) + 1, "back_across_boundary"),
                _ => (pl * (1 + rng.below(30) as i128) + rng.below(pl as u64) as i128, "back_periods"),
            };
            vec![(last - d, lab)]
        }
        _ => {
            let (e, lab) = calendar_target(rng, base);
            let mut v = vec![];
            if rng.bool() && e - pl - 1 > base {
                v.push((e - pl - 1 - rng.below(pl as u64) as i128, lab));
            }
            v.push((e - 1, lab));
            v.push((e, lab));
            if rng.bool() {
                v.push((e + small(rng), lab));
            }
            v
        }
    };
    v
}

// ---------------------------------------------------------------- observation

#[derive(Clone, Debug, PartialEq)]
struct Meta {
    len: u64,
    btime: i128,
    is_file: bool,
}
type Snap = BTreeMap<String, Meta>;

// Files in the log directory that are NOT the appender's (created before the appender, so they
// are the oldest entries): by the appender's own definition (prefix AND suffix, regular file;
// without both: a name that parses as a date) it must never count or remove them.
thread_local! {
    static FOREIGN: std::cell::RefCell<Vec<(String, bool)>> = const { std::cell::RefCell::new(Vec::new()) };
    static FOREIGN_LOST: std::cell::RefCell<Vec<String>> = const { std::cell::RefCell::new(Vec::new()) };
}
fn plant_foreign(dir: &Path, cfg: &Cfg) -> usize {
    let mut v: Vec<(String, bool)> = vec![("zz-notes.zzother".into(), false), ("zz-dir".into(), true)];
    match (&cfg.prefix, &cfg.suffix) {
        (Some(p), Some(s)) => {
            v.push((format!("{p}.zz-settings.zzother"), false)); // prefix, not the suffix
            v.push((format!("{p}.2024-02-29.zzother"), false));
            v.push((format!("zz-other.2024-02-29.{s}"), false)); // suffix, not the prefix
            v.push((format!("{p}.zz-dir.{s}"), true)); // both, but a directory
        }
        (Some(p), None) => {
            v.push(("zz-other.2024-02-29".into(), false));
            v.push((format!("{p}.zz-dir"), true));
        }
        (None, Some(s)) => {
            v.push(("2024-02-29.zzother".into(), false));
            v.push((format!("zz-dir.{s}"), true));
        }
        (None, None) => {
            v.push(("2024-02-29.zz-not-a-date".into(), false));
        }
    }
    for (n, is_dir) in &v {
        let p = dir.join(n);
        if *is_dir {
            std::fs::create_dir_all(&p).unwrap_or_else(|e| panic!("HARNESS: create {p:?}: {e}"));
        } else {
            std::fs::write(&p, b"not a log file of this appender\n").unwrap_or_else(|e| panic!("HARNESS: write {p:?}: {e}"));
        }
    }
    let n = v.len();
    FOREIGN.with(|f| *f.borrow_mut() = v);
    FOREIGN_LOST.with(|f| f.borrow_mut().clear());
    n
}

fn snap(dir: &Path) -> Snap {
    let mut s = Snap::new();
    let foreign: Vec<(String, bool)> = FOREIGN.with(|f| f.borrow().clone());
    for (n, is_dir) in &foreign {
        let ok = match std::fs::metadata(dir.join(n)) {
            Ok(md) => md.is_dir() == *is_dir && (*is_dir || md.len() == 32),
            Err(_) => false,
        };
        if !ok {
            FOREIGN_LOST.with(|f| {
                let mut f = f.borrow_mut();
                if !f.contains(n) {
                    f.push(n.clone());
                }
            });
        }
    }
    let rd = std::fs::read_dir(dir).unwrap_or_else(|e| panic!("HARNESS: read_dir {dir:?}: {e}"));
    for e in rd {
        let e = e.unwrap_or_else(|e| panic!("HARNESS: dir entry: {e}"));
        if foreign.iter().any(|(n, _)| e.file_name().to_string_lossy() == n.as_str()) {
            continue;
        }
        let md = e.metadata().unwrap_or_else(|e| panic!("HARNESS: metadata: {e}"));
        let bt = md
            .created()
            .unwrap_or_else(|e| panic!("HARNESS: no birth time on this file system: {e}"));
        let btime = match bt.duration_since(UNIX_EPOCH) {
            Ok(d) => d.as_nanos() as i128,
            Err(e) => -(e.duration().as_nanos() as i128),
        };
        s.insert(
            e.file_name().to_string_lossy().into_owned(),
            Meta {
                len: md.len(),
                btime,
                is_file: md.is_file(),
            },
        );
    }
    s
}
fn snap_json(s: &Snap) -> Value {
    Value::Array(
        s.iter()
            .map(|(n, m)| json!({"name": n, "len": m.len, "birth_ns": m.btime.to_string(), "regular_file": m.is_file}))
            .collect(),
    )
}
fn read(dir: &Path, name: &str) -> Vec<u8> {
    std::fs::read(dir.join(name)).unwrap_or_else(|e| panic!("HARNESS: read {name}: {e}"))
}

/// model directory
struct Model {
    files: BTreeMap<String, Vec<u8>>,
    /// the file the appender is expected to be writing to
    cur: String,
    /// period index of `cur`
    cur_pidx: i128,
    max_t: i128,
    last_t: i128,
    /// reading at the last construction or rotation
    rot_reading: i128,
    /// names of periods written to or opened at construction
    touched: BTreeSet<String>,
}

struct Stop {
    what: String,
    detail: Value,
    inconclusive: bool,
    /// divergence that matches the signature of this finding id
    finding: Option<&'static str>,
}
fn viol(what: impl Into<String>, detail: Value) -> Stop {
    Stop {
        what: what.into(),
        detail,
        inconclusive: false,
        finding: None,
    }
}
fn inconcl(what: impl Into<String>) -> Stop {
    Stop {
        what: what.into(),
        detail: Value::Null,
        inconclusive: true,
        finding: None,
    }
}

/// Signature of the pre-epoch finding: the appender keeps `unix_timestamp() as usize` and uses
/// 0 for "never".  If the reading at which it last computed its next rotation instant
/// (construction or last rotation) lies in a period that ends at or before 1970-01-01T00:00:00Z,
/// that instant is 0 (= never) or wraps to ~2^64, and a later reading >= 1970 does not rotate.
/// Matched ONLY by: an expected rotation that did not happen at all (listing unchanged) at a
/// forward write with reading >= 0 while the model's last rotation reading is such a reading.
const F_PRE_EPOCH: &str = "F16";
const F_PRE_EPOCH_WHAT: &str = "rolling appender stops rotating once its next rotation instant was computed from a clock reading before 1970 (timestamps kept as usize, 0 doubles as the 'never' sentinel): a write at a reading >= 1970-01-01T00:00:00Z stays in the pre-1970 period's file";
const F_PRE_EPOCH_WHAT_BACK: &str = "rolling appender rotates on a backwards clock step to a reading before 1970 (the negative timestamp cast to usize compares above the positive next rotation instant)";
/// second arm: stepped-back write at a reading < 0 while the next rotation instant is > 0
fn pre_epoch_back_armed(rot: Rot, rot_reading: i128, t: i128) -> bool {
    rot != Rot::Never && t < 0 && (rot_reading.div_euclid(rot.plen()) + 1) * rot.plen() > 0
}
fn pre_epoch_armed(rot: Rot, rot_reading: i128, t: i128) -> bool {
    rot != Rot::Never && t >= 0 && (rot_reading.div_euclid(rot.plen()) + 1) * rot.plen() <= 0
}

struct Ctx<'a> {
    cfg: &'a Cfg,
    dir: &'a Path,
    out: &'a mut Out,
    script: Vec<Value>,
    /// set by the caller of `judge_listing` when the pre-epoch signature's precondition holds
    pre_epoch_armed: bool,
    /// scenario of the separately counted class that starts before 1970
    pre_epoch: bool,
}

fn lossy(b: &[u8]) -> String {
    let s = String::from_utf8_lossy(b);
    if s.len() > 300 {
        let mut i = 300;
        while !s.is_char_boundary(i) {
            i -= 1;
        }
        format!("{}... ({} bytes)", &s[..i], b.len())
    } else {
        s.into_owned()
    }
}

/// Clauses about which files appeared / disappeared.  `rotate_to`: `Some(name)` when a
/// rotation to `name` is expected, `None` when none is allowed.
fn judge_listing(
    cx: &mut Ctx<'_>,
    s0: &Snap,
    s1: &Snap,
    rotate_to: Option<&str>,
    why_none: &str,
) -> Result<Vec<String>, Stop> {
    let newf: Vec<&String> = s1.keys().filter(|k| !s0.contains_key(*k)).collect();
    let removed: Vec<String> = s0.keys().filter(|k| !s1.contains_key(*k)).cloned().collect();
    let lst = |what: &str| {
        json!({"problem": what, "listing_before": snap_json(s0), "listing_after": snap_json(s1),
               "new_files": newf, "removed_files": removed, "expected_rotation_to": rotate_to})
    };
    if let Some((n, _)) = s1.iter().find(|(_, m)| !m.is_file) {
        return Err(viol(
            format!("a directory entry that is not a regular file appeared: {n}"),
            lst("non-file entry"),
        ));
    }
    match rotate_to {
        None => {
            if !newf.is_empty() {
                return Err(viol(
                    format!("a new file appeared although no rotation is allowed here ({why_none})"),
                    lst("rotation without a period boundary"),
                ));
            }
            if !removed.is_empty() {
                return Err(viol(
                    format!("a file was removed although no rotation happened ({why_none})"),
                    lst("removal without rotation"),
                ));
            }
        }
        Some(n) => {
            if !s1.contains_key(n) {
                if cx.pre_epoch_armed && newf.is_empty() && removed.is_empty() {
                    let mut st = viol(F_PRE_EPOCH_WHAT, lst("no rotation at a reading >= 1970 after a pre-1970 reading"));
                    st.finding = Some(F_PRE_EPOCH);
                    return Err(st);
                }
                return Err(viol(
                    "after a write in a new period the file named for that period does not exist",
                    lst("period file missing"),
                ));
            }
            if newf.len() != 1 || newf[0] != n {
                return Err(viol(
                    "a period boundary produced other new files than the one file of the write's period",
                    lst("more files than periods written"),
                ));
            }
            cx.out.count("rotations_observed", 1);
            match cx.cfg.max_files {
                None => {
                    if !removed.is_empty() {
                        return Err(viol("a log file was removed although no file limit is configured", lst("removal without limit")));
                    }
                }
                Some(lim) => {
                    if s1.len() > lim {
                        return Err(viol(
                            format!("{} log files are left after a rotation with max_log_files({lim})", s1.len()),
                            lst("limit exceeded"),
                        ));
                    }
                    let want = lim.min(s0.len() + 1);
                    if s1.len() < want {
                        return Err(viol(
                            format!(
                                "rotation with max_log_files({lim}) left {} files where {want} were to be kept (more than the oldest were pruned)",
                                s1.len()
                            ),
                            lst("pruned too much"),
                        ));
                    }
                    if !removed.is_empty() {
                        cx.out.count("prune_events", 1);
                        cx.out.count("files_pruned", removed.len() as u64);
                    }
                    // survivors are the newest: by birth time, ties inconclusive
                    let mut tie = false;
                    for r in &removed {
                        for (sname, sm) in s1.iter().filter(|(k, _)| k.as_str() != n) {
                            cx.out.count("prune_order_pairs_checked", 1);
                            let rb = s0[r].btime;
                            if rb > sm.btime {
                                return Err(viol(
                                    format!("pruning removed {r} (born later) and kept {sname} (born earlier)"),
                                    lst("a survivor is older than a removed file"),
                                ));
                            }
                            if rb == sm.btime {
                                tie = true;
                            }
                        }
                    }
                    if tie {
                        cx.out.count("prune_order_ties_inconclusive", 1);
                    }
                }
            }
        }
    }
    Ok(removed)
}

// ---------------------------------------------------------------- evidence helpers

fn edge_kind(prev: i128, t: i128) -> String {
    let (a, b) = (civil_of(prev), civil_of(t));
    let mut k = if a.year != b.year {
        "year"
    } else if a.month != b.month {
        "month"
    } else if a.day != b.day {
        "day"
    } else if a.hour != b.hour {
        "hour"
    } else if a.minute != b.minute {
        "minute"
    } else {
        "none"
    }
    .to_string();
    if (b.month, b.day) == (2, 29) && (a.month, a.day) != (2, 29) {
        k.push_str("+into_feb29");
    }
    if a.month == 2 && a.day >= 28 && (b.month, b.day) == (3, 1) && a.year == b.year {
        k.push_str(if civil::is_leap(a.year) {
            "+feb29_to_mar1"
        } else if a.year % 100 == 0 {
            "+feb28_to_mar1_century"
        } else {
            "+feb28_to_mar1"
        });
        if a.day == 28 && civil::is_leap(a.year) {
            k.push_str("_skipping_feb29");
        }
    }
    k
}
fn bucket(n: i128) -> &'static str {
    match n {
        i128::MIN..=-1 => "neg",
        0 => "0",
        1 => "1",
        2..=9 => "2-9",
        10..=99 => "10-99",
        _ => "100+",
    }
}

// ---------------------------------------------------------------- scenario

struct OpInfo {
    forward: bool,
    crossed: i128,
    label: &'static str,
    edge: String,
    pruned: usize,
}

fn note(cx: &mut Ctx<'_>, info: &OpInfo, nbuf: u64, t: i128) {
    let out = &mut *cx.out;
    out.evals += nbuf;
    out.count("writes_judged", nbuf);
    out.count(if info.forward { "writes_forward" } else { "writes_at_back_stepped_reading" }, nbuf);
    out.count(&format!("step_{}", info.label), 1);
    if info.forward && info.crossed > 0 {
        out.count("boundary_crossings_expected", 1);
        if info.crossed > 1 {
            out.count("multi_period_crossings", 1);
        }
        out.count(&format!("edge_{}", info.edge), 1);
    }
    let exact = t.rem_euclid(cx.cfg.rot.plen()) == 0;
    let minus1 = (t + 1).rem_euclid(cx.cfg.rot.plen()) == 0;
    if exact {
        out.count("writes_exactly_on_boundary", 1);
    }
    if minus1 {
        out.count("writes_1ns_before_boundary", 1);
    }
    let trivial = info.forward && info.crossed == 0 && info.label == "step" && !exact && !minus1;
    let edge = if info.forward && info.crossed > 0 { info.edge.as_str() } else { "none" };
    if !trivial {
        out.distinct_str(&format!(
            "{}|{}|{}|{}|{}|{}|{}|{}",
            cx.cfg.code(),
            info.label,
            info.forward,
            bucket(info.crossed),
            edge,
            exact,
            minus1,
            info.pruned
        ));
    }
}

/// after construction at `t`: the file of period(t) exists, nothing else changed
fn judge_construct(cx: &mut Ctx<'_>, m: &mut Model, s0: &Snap, s1: &Snap, t: i128) -> Result<(), Stop> {
    let newf: Vec<&String> = s1.keys().filter(|k| !s0.contains_key(*k)).collect();
    let removed: Vec<&String> = s0.keys().filter(|k| !s1.contains_key(*k)).collect();
    let d = |p: &str| json!({"problem": p, "listing_before": snap_json(s0), "listing_after": snap_json(s1), "constructed_at": iso(t), "expected_file": cx.cfg.expected_name(t)});
    if !removed.is_empty() {
        return Err(viol("constructing the appender removed files", d("removed at construction")));
    }
    let name = match cx.cfg.expected_name(t) {
        Some(n) => n,
        None => {
            // never, no prefix, no suffix: any single file
            if s0.is_empty() && newf.len() == 1 {
                cx.out.set("name_of_never_without_affixes", format!("{} (constructed {})", newf[0], iso(t)));
                newf[0].clone()
            } else {
                return Err(viol("never-rotating appender without prefix/suffix did not create exactly one file", d("never/none")));
            }
        }
    };
    if !s1.contains_key(&name) {
        return Err(viol("after construction the file named for the current period does not exist", d("period file missing at construction")));
    }
    if newf.iter().any(|n| **n != name) {
        return Err(viol("construction created a file other than the current period's", d("unexpected file at construction")));
    }
    for (k, v) in s1 {
        let want = m.files.get(k).map(|b| b.len() as u64).unwrap_or(0);
        if v.len != want || !v.is_file {
            return Err(viol(format!("construction changed the contents of {k}"), d("length changed at construction")));
        }
    }
    m.files.entry(name.clone()).or_default();
    m.touched.insert(name.clone());
    m.cur = name;
    m.cur_pidx = cx.cfg.rot.pidx(t);
    m.max_t = m.max_t.max(t);
    m.last_t = t;
    m.rot_reading = t;
    Ok(())
}

/// whole-directory comparison with the model
fn full_compare(cx: &mut Ctx<'_>, m: &Model) -> Result<(), Stop> {
    cx.out.count("full_directory_compares", 1);
    let s = snap(cx.dir);
    let on_disk: Vec<&String> = s.keys().collect();
    let in_model: Vec<&String> = m.files.keys().collect();
    if on_disk != in_model {
        return Err(viol(
            "directory contents differ from the model directory",
            json!({"on_disk": on_disk, "model": in_model}),
        ));
    }
    for (k, want) in &m.files {
        let got = read(cx.dir, k);
        if &got != want {
            let p = got.iter().zip(want.iter()).take_while(|(a, b)| a == b).count();
            return Err(viol(
                format!("bytes of {k} differ from what was written to it, in order"),
                json!({"file": k, "first_difference_at": p, "on_disk_len": got.len(), "model_len": want.len(),
                       "on_disk_from_there": lossy(&got[p..]), "model_from_there": lossy(&want[p..])}),
            ));
        }
    }
    if s.len() > m.touched.len() {
        return Err(viol(
            "more files than distinct periods written or opened",
            json!({"files": on_disk, "periods": m.touched}),
        ));
    }
    Ok(())
}

fn payload(rng: &mut Rng, run: u64, op: usize, th: usize, j: usize) -> Vec<u8> {
    let mut v = format!("[{run}.{op}.{th}.{j}:").into_bytes();
    let n = match rng.below(40) {
        0 => 2000 + rng.usize(7000),
        1..=4 => 0,
        _ => rng.usize(70),
    };
    let binary = rng.chance(1, 6);
    for _ in 0..n {
        v.push(if binary {
            rng.below(256) as u8
        } else {
            b"abcdefghijklmnopqrstuvwxyz0123456789 =\n\""[rng.usize(40)]
        });
    }
    v.extend_from_slice(b"]\n");
    v
}

fn scenario(args: &Args, idx: u64, out: &mut Out, dirno: &mut u64) {
    let mut rng = Rng::derive(args.seed, args.shard, idx);
    let slot = args.shard.wrapping_mul(args.get_u64("runs", 1)).wrapping_add(idx);
    let mut cfg = gen_cfg(&mut rng, slot);
    if let Some(a) = args.get("api") {
        cfg.api = match a {
            "write" => Api::Write,
            "make_writer" => Api::MakeWriter,
            _ => Api::Threads(a.trim_start_matches("threads").parse().unwrap_or(4)),
        };
    }
    // a small separate class: readings that start before 1970 (sequential apis only)
    let pre_epoch = match args.get("preepoch") {
        Some(v) => v == "1",
        None => rng.chance(1, 32),
    };
    if pre_epoch {
        if let Api::Threads(_) = cfg.api {
            cfg.api = if rng.bool() { Api::Write } else { Api::MakeWriter };
        }
        out.count("runs_starting_before_1970", 1);
    }
    let root = run::verif_root().join("harness/target/tmp-c16");
    *dirno += 1;
    let dir: PathBuf = root.join(format!("{}-{}", std::process::id(), *dirno));
    let _ = std::fs::remove_dir_all(&dir);
    std::fs::create_dir_all(&dir).unwrap_or_else(|e| panic!("HARNESS: create {dir:?}: {e}"));
    let nforeign = plant_foreign(&dir, &cfg);
    out.count("foreign_files_and_directories_planted", nforeign as u64);

    out.count("runs", 1);
    out.count(&format!("runs_api_{}", match cfg.api { Api::Threads(_) => "threads".to_string(), a => a.name() }), 1);
    out.set("configurations", cfg.code());
    let reads0 = CLK_READS.load(SeqCst);
    let mut cx = Ctx {
        cfg: &cfg,
        dir: &dir,
        out: &mut *out,
        script: vec![],
        pre_epoch_armed: false,
        pre_epoch,
    };
    let t0 = start_time(&mut rng, cfg.rot, pre_epoch);
    let r = run::catch(|| match cfg.api {
        Api::Threads(k) => threaded(&mut cx, &mut rng, idx, t0, k, args.tier),
        _ => sequential(&mut cx, &mut rng, idx, t0, args.tier),
    });
    let script = std::mem::take(&mut cx.script);
    let wit = |detail: Value| {
        let mut ca = run::raw_argv();
        ca.retain(|a| !a.starts_with("only="));
        ca.push(format!("only={idx}"));
        json!({"scenario_index": idx, "shard": args.shard, "configuration": cfg.json(), "directory": dir.display().to_string(),
               "constructed_at": iso(t0), "script_until_failure": script, "detail": detail, "child_args": ca})
    };
    match r {
        Ok(Ok(())) => {}
        Ok(Err(stop)) if stop.inconclusive => out.inconclusive(format!("scenario {idx} of shard {}: {}", args.shard, stop.what)),
        Ok(Err(stop)) => {
            let w = wit(stop.detail);
            match stop.finding {
                Some(fid) if pre_epoch => out.finding(fid, stop.what, w),
                _ => out.violation(stop.what, w),
            }
        }
        Err(p) if p.starts_with("HARNESS:") => panic!("{p}"),
        Err(p) => {
            let w = wit(json!({"panic": p}));
            out.violation("panic inside the rolling appender", w);
        }
    }
    let _ = snap(&dir);
    let lost: Vec<String> = FOREIGN_LOST.with(|f| f.borrow().clone());
    if !lost.is_empty() {
        let w = wit(json!({"removed_or_changed": lost, "note": "these entries were created in the log directory before the appender; by the appender's own definition of its files (prefix AND suffix, regular file) they are not its log files"}));
        out.violation("the appender removed (or changed) a directory entry that is not one of its log files", w);
    }
    FOREIGN.with(|f| f.borrow_mut().clear());
    let reads = CLK_READS.load(SeqCst) - reads0;
    out.count("virtual_clock_reads", reads);
    if reads == 0 {
        out.harness_errors.push("the clock hook was never consulted".into());
    }
    let _ = std::fs::remove_dir_all(&dir);
}

fn step_json(kind: &str, t: i128, label: &str, forward: bool, extra: Value) -> Value {
    json!({"op": kind, "clock": iso(t), "clock_unix_ns": t.to_string(), "step": label, "at_or_after_every_earlier_reading": forward, "x": extra})
}

fn sequential(cx: &mut Ctx<'_>, rng: &mut Rng, run_idx: u64, t0: i128, tier: vlib::Tier) -> Result<(), Stop> {
    let cfg = cx.cfg;
    let dir = cx.dir;
    let limit = cfg.max_files.is_some();
    let nops = if limit { 30 + rng.usize(50) } else { 60 + rng.usize(tier.pick(140, 240)) };
    let mut m = Model {
        files: BTreeMap::new(),
        cur: String::new(),
        cur_pidx: 0,
        max_t: t0,
        last_t: t0,
        rot_reading: t0,
        touched: BTreeSet::new(),
    };
    // A third of the runs with a file limit start on a directory that already holds MORE of the
    // appender's own log files than the limit (left by an earlier run with a larger limit):
    // construction removes nothing, the first rotation brings the directory down to the limit.
    if let (Some(lim), true) = (cfg.max_files, rng.chance(1, 3)) {
        let n = lim + 1 + rng.usize(3);
        if cfg.expected_name(0).is_some() && t0 - (n as i128 + 1) * 86_400 >= 0 {
            let mut planted = 0;
            for k in (1..=n).rev() {
                if let Some(name) = cfg.expected_name(t0 - k as i128 * 86_400) {
                    if m.files.contains_key(&name) {
                        continue;
                    }
                    let body = format!("left over from an earlier run, period -{k}\n").into_bytes();
                    std::fs::write(dir.join(&name), &body).unwrap_or_else(|e| panic!("HARNESS: write backlog file {name}: {e}"));
                    m.files.insert(name, body);
                    planted += 1;
                    std::thread::sleep(SPACING);
                }
            }
            cx.out.count("runs_starting_with_more_own_log_files_than_the_limit", 1);
            cx.script.push(json!({"step": "backlog", "files_planted_before_construction": planted, "limit": lim}));
        }
    }
    set_time(t0);
    let s0 = snap(dir);
    let mut app = build(cfg, dir).map_err(|e| inconcl(format!("appender could not be built: {e}")))?;
    let s1 = snap(dir);
    judge_construct(cx, &mut m, &s0, &s1, t0)?;
    let allow_restart = cfg.expected_name(0).is_some();
    let mut queue: Vec<(i128, &'static str)> = vec![];
    let mut opn = 0usize;
    while opn < nops {
        if queue.is_empty() {
            queue = gen_times(rng, cfg.rot, m.last_t, m.max_t);
            queue.reverse();
        }
        let (mut t, label) = queue.pop().unwrap();
        if t > T_LIMIT || (t < 0 && t0 >= 0) {
            t = m.last_t;
        }
        opn += 1;
        let forward = t >= m.max_t;
        let crossed = if forward { cfg.rot.pidx(t) - m.cur_pidx } else { 0 };
        let will_create = forward && crossed != 0;
        // occasional restart (forward readings only): drop and rebuild on the same directory
        if allow_restart && forward && rng.chance(1, 30) {
            if limit {
                std::thread::sleep(SPACING);
            }
            cx.script.push(step_json("restart", t, label, forward, json!({})));
            drop(app);
            set_time(t);
            let s0 = snap(dir);
            app = build(cfg, dir).map_err(|e| inconcl(format!("appender could not be rebuilt: {e}")))?;
            let s1 = snap(dir);
            judge_construct(cx, &mut m, &s0, &s1, t)?;
            cx.out.count("restarts", 1);
            if crossed != 0 {
                cx.out.count("restarts_in_a_new_period", 1);
            }
            continue;
        }
        if limit && will_create {
            std::thread::sleep(SPACING);
        }
        let buf = payload(rng, run_idx, opn, 0, 0);
        cx.script.push(step_json("write", t, label, forward, json!({"len": buf.len(), "head": lossy(&buf[..buf.len().min(24)])})));
        set_time(t);
        let s0 = snap(dir);
        let res = match cfg.api {
            // every third write through the exclusive interface is a vectored one (two slices,
            // the first possibly empty): it must rotate and prune like any other write
            Api::Write if (opn as u64) % 3 == 2 => {
                let k = (run_idx as usize).wrapping_add(opn as usize) % (buf.len() + 1);
                cx.out.count("vectored_writes", 1);
                std::io::Write::write_vectored(&mut app, &[std::io::IoSlice::new(&buf[..k]), std::io::IoSlice::new(&buf[k..])])
            }
            Api::Write => app.write(&buf),
            _ => {
                let mut w = (&app).make_writer();
                let r = w.write(&buf);
                drop(w);
                r
            }
        };
        let s1 = snap(dir);
        let n = match res {
            Ok(n) => n,
            Err(e) => return Err(inconcl(format!("write returned an I/O error: {e}"))),
        };
        if n > buf.len() {
            return Err(viol("write reported more bytes than it was given", json!({"given": buf.len(), "reported": n})));
        }
        if n < buf.len() {
            cx.out.count("short_writes", 1);
        }
        let buf = &buf[..n];
        let edge = edge_kind(m.max_t, t);
        let mut info = OpInfo {
            forward,
            crossed,
            label,
            edge,
            pruned: 0,
        };
        let target: String;
        if forward {
            let name = cfg.expected_name(t).unwrap_or_else(|| m.cur.clone());
            let rotate = name != m.cur;
            if rotate != (crossed != 0) {
                panic!("HARNESS: name/period mismatch: {name} vs {} crossed {crossed}", m.cur);
            }
            cx.pre_epoch_armed = pre_epoch_armed(cfg.rot, m.rot_reading, t);
            let removed = judge_listing(
                cx,
                &s0,
                &s1,
                if rotate { Some(&name) } else { None },
                if t == m.last_t { "time stood still" } else { "same period" },
            );
            cx.pre_epoch_armed = false;
            let removed = match removed {
                Err(mut st) if st.finding.is_some() => {
                    // the signature also requires that nothing is lost: the buffer is the new
                    // tail of the file the appender was last rotated to, nothing else changed
                    let stored = s1.iter().all(|(k, v)| {
                        let old = m.files.get(k).map(|b| b.len() as u64);
                        old.is_some() && v.len == old.unwrap() + if *k == m.cur { buf.len() as u64 } else { 0 }
                    }) && read(dir, &m.cur).ends_with(buf);
                    if !stored {
                        st.finding = None;
                        st.what = "no rotation at a reading >= 1970 after a pre-1970 reading, AND the buffer is not stored at the end of the current file".into();
                    }
                    return Err(st);
                }
                r => r?,
            };
            if rotate {
                m.rot_reading = t;
            }
            info.pruned = removed.len();
            for r in &removed {
                m.files.remove(r);
            }
            target = name;
        } else {
            let lj = judge_listing(cx, &s0, &s1, None, "the clock stepped back");
            // exempt from the "period's file" clause: whichever single file grew
            let grown: Vec<&String> = s1
                .iter()
                .filter(|(k, v)| v.len != m.files.get(*k).map(|b| b.len() as u64).unwrap_or(0))
                .map(|(k, _)| k)
                .collect();
            // second arm of the pre-epoch finding (same cast): a reading < 0 compared as usize
            // against a next rotation instant > 0 looks "later", so the back-step rotates
            if cx.pre_epoch && pre_epoch_back_armed(cfg.rot, m.rot_reading, t) && (lj.is_err() || grown != [&m.cur]) {
                let pname = cfg.expected_name(t).unwrap_or_default();
                let newf: Vec<&String> = s1.keys().filter(|k| !s0.contains_key(*k)).collect();
                let removed: Vec<&String> = s0.keys().filter(|k| !s1.contains_key(*k)).collect();
                // exactly the picture of ONE rotation to the file of period(t), nothing lost
                // beyond what a configured limit prunes
                let recreated = s0.get(&pname).map(|a| Some(a.btime) != s1.get(&pname).map(|b| b.btime)).unwrap_or(true);
                let consistent = s1.contains_key(&pname)
                    && newf.iter().all(|n| **n == pname)
                    && (removed.is_empty() || cfg.max_files.is_some())
                    && cfg.max_files.map(|n| s1.len() <= n).unwrap_or(true)
                    && s1.iter().all(|(k, v)| {
                        let old = m.files.get(k).map(|b| b.len() as u64).unwrap_or(0);
                        if *k == pname {
                            v.len == buf.len() as u64 + if recreated { 0 } else { old }
                        } else {
                            v.len == old
                        }
                    })
                    && read(dir, &pname).ends_with(buf);
                let d = json!({"problem": "rotation at a stepped-back reading < 1970 while the next rotation instant is > 1970",
                               "listing_before": snap_json(&s0), "listing_after": snap_json(&s1), "new_files": newf, "removed_files": removed,
                               "file_of_the_stepped_back_period": pname, "current_file_before": m.cur, "buffer": lossy(buf)});
                let mut st = viol(F_PRE_EPOCH_WHAT_BACK, d);
                if consistent {
                    st.finding = Some(F_PRE_EPOCH);
                } else {
                    st.what = format!("{} - and the directory is not what one rotation to that period's file would leave", st.what);
                }
                return Err(st);
            }
            lj?;
            if grown.len() != 1 {
                return Err(viol(
                    "a buffer written at a stepped-back reading is not stored exactly once",
                    json!({"files_whose_length_changed": grown, "listing_before": snap_json(&s0), "listing_after": snap_json(&s1), "buffer": lossy(buf)}),
                ));
            }
            target = grown[0].clone();
            if target == m.cur {
                cx.out.count("back_step_write_in_current_file", 1);
            }
        }
        // contents: target grew by exactly buf; every other file kept its length
        m.files.entry(target.clone()).or_default();
        m.touched.insert(target.clone());
        for (k, v) in &s1 {
            let old = m.files.get(k).map(|b| b.len() as u64);
            let want = old.unwrap_or(0) + if *k == target { buf.len() as u64 } else { 0 };
            if old.is_none() || v.len != want {
                return Err(viol(
                    if *k == target {
                        "the buffer is not stored exactly once at the end of its period's file"
                    } else {
                        "a write changed a file other than its period's file"
                    },
                    json!({"file": k, "length_before": old, "length_after": v.len, "expected_length": want, "write_target": target,
                           "current_file_before": m.cur, "listing_before": snap_json(&s0), "listing_after": snap_json(&s1), "buffer": lossy(buf)}),
                ));
            }
        }
        let content = read(dir, &target);
        let mf = m.files.get_mut(&target).unwrap();
        let old_len = mf.len();
        if content.len() != old_len + buf.len() || &content[old_len..] != buf || content[..old_len] != mf[..] {
            return Err(viol(
                "the tail of the period's file is not the buffer just written",
                json!({"file": target, "expected_tail": lossy(buf), "observed_tail": lossy(&content[old_len.min(content.len())..])}),
            ));
        }
        mf.extend_from_slice(buf);
        if forward {
            m.cur = target.clone();
            m.cur_pidx = cfg.rot.pidx(t);
            m.max_t = t;
        }
        m.last_t = t;
        note(cx, &info, 1, t);
        if cx.out.samples.len() < 4 && (info.pruned > 0 || info.crossed > 1 || !forward) && rng.chance(1, 20) {
            cx.out.sample(json!({"configuration": cfg.code(), "clock": iso(t), "step": label, "forward": forward,
                                 "periods_crossed": crossed.to_string(), "stored_in": target, "files_after_count": s1.len(),
                                 "newest_files_after": s1.keys().rev().take(4).collect::<Vec<_>>(), "pruned": info.pruned}));
        }
        if opn % 25 == 0 {
            full_compare(cx, &m)?;
        }
    }
    drop(app);
    full_compare(cx, &m)
}

struct ThreadRec {
    th: usize,
    j: usize,
    call: u64,
    ret: u64,
    buf: Vec<u8>,
}

fn threaded(cx: &mut Ctx<'_>, rng: &mut Rng, run_idx: u64, t0: i128, k: usize, tier: vlib::Tier) -> Result<(), Stop> {
    let cfg = cx.cfg;
    let dir = cx.dir;
    let limit = cfg.max_files.is_some();
    let nrounds = if limit { 20 + rng.usize(30) } else { 30 + rng.usize(tier.pick(50, 90)) };
    let mut m = Model {
        files: BTreeMap::new(),
        cur: String::new(),
        cur_pidx: 0,
        max_t: t0,
        last_t: t0,
        rot_reading: t0,
        touched: BTreeSet::new(),
    };
    set_time(t0);
    let s0 = snap(dir);
    let app = Arc::new(build(cfg, dir).map_err(|e| inconcl(format!("appender could not be built: {e}")))?);
    let s1 = snap(dir);
    judge_construct(cx, &mut m, &s0, &s1, t0)?;
    let mut queue: Vec<(i128, &'static str)> = vec![];
    for round in 1..=nrounds {
        if queue.is_empty() {
            queue = gen_times(rng, cfg.rot, m.last_t, m.max_t);
            queue.reverse();
        }
        let (mut t, label) = queue.pop().unwrap();
        if t > T_LIMIT || (t < 0 && t0 >= 0) {
            t = m.last_t;
        }
        let forward = t >= m.max_t;
        let prev_max = m.max_t;
        let crossed = if forward { cfg.rot.pidx(t) - m.cur_pidx } else { 0 };
        if limit && crossed != 0 {
            std::thread::sleep(SPACING);
        }
        let per = 1 + rng.usize(3);
        let bufs: Vec<Vec<Vec<u8>>> = (0..k)
            .map(|th| (0..per).map(|j| payload(rng, run_idx, round, th, j)).collect())
            .collect();
        let spins: Vec<u32> = (0..k).map(|_| if rng.bool() { 0 } else { rng.below(3000) as u32 }).collect();
        cx.script.push(step_json("round", t, label, forward, json!({"threads": k, "writes_per_thread": per})));
        set_time(t);
        let s0 = snap(dir);
        let barrier = Barrier::new(k);
        let gate = AtomicU32::new(0); // spin gate behind the barrier: all threads leave it within nanoseconds
        let mut recs: Vec<ThreadRec> = vec![];
        let mut failure: Option<Stop> = None;
        std::thread::scope(|s| {
            let hs: Vec<_> = (0..k)
                .map(|th| {
                    let app = &app;
                    let barrier = &barrier;
                    let gate = &gate;
                    let mine = &bufs[th];
                    let spin = spins[th];
                    s.spawn(move || {
                        let mut v = vec![];
                        barrier.wait();
                        gate.fetch_add(1, SeqCst);
                        let t_spin = Instant::now();
                        while (gate.load(SeqCst) as usize) < k {
                            std::hint::spin_loop();
                            if t_spin.elapsed() > Duration::from_millis(2) {
                                break; // descheduled peers: go on, the round is judged all the same
                            }
                        }
                        for _ in 0..spin {
                            std::hint::spin_loop();
                        }
                        for (j, b) in mine.iter().enumerate() {
                            let call = stamps::stamp();
                            let mut w = (&**app).make_writer();
                            let r = w.write_all(b);
                            drop(w);
                            let ret = stamps::stamp();
                            v.push((j, call, ret, r.map_err(|e| e.to_string())));
                        }
                        v
                    })
                })
                .collect();
            for (th, h) in hs.into_iter().enumerate() {
                match h.join() {
                    Ok(v) => {
                        for (j, call, ret, r) in v {
                            if let Err(e) = r {
                                failure = Some(inconcl(format!("write_all returned an I/O error: {e}")));
                            }
                            recs.push(ThreadRec {
                                th,
                                j,
                                call,
                                ret,
                                buf: bufs[th][j].clone(),
                            });
                        }
                    }
                    Err(p) => {
                        failure = Some(viol(
                            "panic inside the rolling appender (shared MakeWriter)",
                            json!({"panic": run::panic_msg(&p), "thread": th}),
                        ))
                    }
                }
            }
        });
        if let Some(f) = failure {
            return Err(f);
        }
        let s1 = snap(dir);
        cx.out.count("thread_rounds", 1);
        let name = if forward {
            cfg.expected_name(t).unwrap_or_else(|| m.cur.clone())
        } else {
            m.cur.clone()
        };
        let rotate = forward && name != m.cur;
        let removed = judge_listing(
            cx,
            &s0,
            &s1,
            if rotate { Some(&name) } else { None },
            if !forward {
                "the clock stepped back"
            } else if t == m.last_t {
                "time stood still"
            } else {
                "same period"
            },
        )?;
        let old_cur = m.cur.clone();
        let old_cur_pruned = removed.contains(&old_cur);
        for r in &removed {
            m.files.remove(r);
        }
        if rotate {
            m.files.entry(name.clone()).or_default();
            m.touched.insert(name.clone());
            m.rot_reading = t;
            cx.out.count("thread_rounds_at_a_boundary", 1);
        }
        // where did every buffer go?
        let mut placed: BTreeMap<usize, Vec<(String, usize)>> = BTreeMap::new(); // rec index -> (file, offset)
        let mut updates: Vec<(String, Vec<u8>)> = vec![];
        for (fname, meta) in &s1 {
            let Some(old) = m.files.get(fname) else {
                panic!("HARNESS: file {fname} unknown to the model after judge_listing");
            };
            if meta.len == old.len() as u64 {
                continue;
            }
            let content = read(dir, fname);
            let dl = |p: &str| json!({"problem": p, "file": fname, "length_before": old.len(), "length_after": content.len(),
                                      "appended": lossy(&content[old.len().min(content.len())..]), "listing_before": snap_json(&s0), "listing_after": snap_json(&s1)});
            if content.len() < old.len() || content[..old.len()] != old[..] {
                return Err(viol("bytes stored earlier were altered or lost", dl("old prefix changed")));
            }
            let mut p = old.len();
            while p < content.len() {
                let hit = recs.iter().position(|r| content[p..].starts_with(&r.buf));
                match hit {
                    Some(i) => {
                        placed.entry(i).or_default().push((fname.clone(), p));
                        p += recs[i].buf.len();
                    }
                    None => {
                        return Err(viol(
                            "bytes appended during the round are not a sequence of whole buffers (torn, interleaved or foreign data)",
                            dl(&format!("no buffer of this round starts at offset {p}")),
                        ))
                    }
                }
            }
            updates.push((fname.clone(), content));
        }
        for (f, c) in updates {
            m.files.insert(f, c);
        }
        let recs_json = |recs: &Vec<ThreadRec>, placed: &BTreeMap<usize, Vec<(String, usize)>>| -> Value {
            Value::Array(
                recs.iter()
                    .enumerate()
                    .map(|(i, r)| json!({"thread": r.th, "nth": r.j, "call_stamp": r.call, "return_stamp": r.ret, "len": r.buf.len(),
                                         "head": lossy(&r.buf[..r.buf.len().min(20)]), "found_at": placed.get(&i).map(|v| v.iter().map(|(f, o)| format!("{f}@{o}")).collect::<Vec<_>>())}))
                    .collect(),
            )
        };
        let dd = |p: &str, recs: &Vec<ThreadRec>, placed: &BTreeMap<usize, Vec<(String, usize)>>| {
            json!({"problem": p, "clock": iso(t), "period_file": name, "file_being_replaced": if rotate { Some(&old_cur) } else { None },
                   "operations": recs_json(recs, placed), "listing_before": snap_json(&s0), "listing_after": snap_json(&s1), "pruned": removed})
        };
        let mut in_new_min_ret: Option<u64> = None;
        for (i, r) in recs.iter().enumerate() {
            match placed.get(&i).map(|v| v.len()).unwrap_or(0) {
                1 => {
                    let f = &placed[&i][0].0;
                    if forward && *f == name {
                        in_new_min_ret = Some(in_new_min_ret.map_or(r.ret, |x: u64| x.min(r.ret)));
                    }
                }
                0 => {
                    if rotate && old_cur_pruned {
                        // may have gone to the file being replaced, which the limit then removed
                        cx.out.count("unverifiable_replaced_file_was_pruned", 1);
                    } else {
                        return Err(viol("a buffer written through the shared MakeWriter is stored nowhere (lost)", dd(&format!("operation #{i} lost"), &recs, &placed)));
                    }
                }
                _ => return Err(viol("a buffer written through the shared MakeWriter is stored more than once", dd(&format!("operation #{i} duplicated"), &recs, &placed))),
            }
        }
        // allowed files, overlap rule, per-thread order
        for (i, r) in recs.iter().enumerate() {
            let Some(v) = placed.get(&i) else { continue };
            let f = &v[0].0;
            if forward {
                if *f == name {
                    continue;
                }
                if rotate && *f == old_cur {
                    cx.out.count("writes_landed_in_the_file_being_replaced", 1);
                    if let Some(mr) = in_new_min_ret {
                        if mr < r.call {
                            return Err(viol(
                                "a write went to the replaced file although a write into the new period's file had already returned before it began (no overlap with the rotation)",
                                dd(&format!("operation #{i}"), &recs, &placed),
                            ));
                        }
                    }
                    // per-thread order: nothing of this thread issued earlier may be in the new file
                    for (i2, r2) in recs.iter().enumerate() {
                        if r2.th == r.th && r2.j < r.j && placed.get(&i2).map(|v| v[0].0 == name).unwrap_or(false) {
                            return Err(viol("one thread's later buffer is in the older file", dd(&format!("operations #{i2}, #{i}"), &recs, &placed)));
                        }
                    }
                    continue;
                }
                return Err(viol(
                    "a buffer is stored in a file that is neither its period's file nor the file being replaced",
                    dd(&format!("operation #{i} in {f}"), &recs, &placed),
                ));
            }
            // stepped-back reading: any file (per-thread order within a file is checked below)
        }
        for a in 0..recs.len() {
            for b in 0..recs.len() {
                if recs[a].th == recs[b].th && recs[a].j < recs[b].j {
                    if let (Some(pa), Some(pb)) = (placed.get(&a), placed.get(&b)) {
                        if pa[0].0 == pb[0].0 && pa[0].1 > pb[0].1 {
                            return Err(viol("one thread's buffers are stored out of order", dd(&format!("operations #{a}, #{b}"), &recs, &placed)));
                        }
                    }
                }
            }
        }
        if forward {
            m.cur = name.clone();
            m.cur_pidx = cfg.rot.pidx(t);
            m.max_t = t;
        }
        let info = OpInfo {
            forward,
            crossed,
            label,
            edge: edge_kind(prev_max, t),
            pruned: removed.len(),
        };
        m.last_t = t;
        note(cx, &info, recs.len() as u64, t);
        if rotate && cx.out.samples.len() < 6 && rng.chance(1, 30) {
            cx.out.sample(json!({"configuration": cfg.code(), "clock": iso(t), "step": label, "threads": k,
                                 "period_file": name, "replaced_file": old_cur,
                                 "buffers_in_new_file": placed.values().filter(|v| v[0].0 == name).count(),
                                 "buffers_in_replaced_file": placed.values().filter(|v| v[0].0 == old_cur).count(), "pruned": removed}));
        }
        if round % 20 == 0 {
            full_compare(cx, &m)?;
        }
    }
    drop(app);
    full_compare(cx, &m)
}

// ---------------------------------------------------------------- orchestration

fn main() {
    let args = run::parse_args();
    match args.mode.clone() {
        Mode::Parent => parent(&args),
        Mode::Child(_) => child(&args),
        Mode::Replay(p) => run::replay(ID, &p),
    }
}

fn child(args: &Args) {
    rolling::verif::set_clock(Some(clock));
    let runs = args.get_u64("runs", 8);
    let only = args.get("only").and_then(|s| s.parse::<u64>().ok());
    let mut out = Out::new();
    let mut dirno = 0u64;
    for idx in 0..runs {
        if only.is_some() && only != Some(idx) {
            continue;
        }
        scenario(args, idx, &mut out, &mut dirno);
        if !out.viols.is_empty() {
            break;
        }
    }
    rolling::verif::set_clock(None);
    out.emit();
}

/// remove scenario directories left behind by children that no longer exist
fn sweep_tmp() {
    let root = run::verif_root().join("harness/target/tmp-c16");
    let Ok(rd) = std::fs::read_dir(&root) else { return };
    for e in rd.flatten() {
        let name = e.file_name().to_string_lossy().into_owned();
        let pid = name.split('-').next().unwrap_or("");
        if !pid.is_empty() && pid.chars().all(|c| c.is_ascii_digit()) && !Path::new("/proc").join(pid).exists() {
            let _ = std::fs::remove_dir_all(e.path());
        }
    }
}

fn parent(args: &Args) {
    let t0 = Instant::now();
    let mut out = Out::new();
    sweep_tmp();
    let shards = args.get_u64("shards", args.tier.pick(96, 960));
    let runs = args.get_u64("runs", 16);
    let mut spec = ChildSpec::new("runs", shards).arg("runs", runs).timeout(600).parallel(args.get_u64("parallel", 24) as usize);
    for k in ["api", "preepoch"] {
        if let Some(v) = args.get(k) {
            spec = spec.arg(k, v);
        }
    }
    let ends = run::run_children(args, &spec, &mut out);
    run::classify_ends(&ends, &mut out, true);
    let mut extra = Map::new();
    {
        let mut dspec = ChildSpec::new("runs", args.get_u64("dbg_shards", 240)).arg("runs", runs).timeout(900).parallel(args.get_u64("parallel", 24) as usize);
        for k in ["api", "preepoch"] {
            if let Some(v) = args.get(k) {
                dspec = dspec.arg(k, v);
            }
        }
        run::dbg_build_layer(ID, args, vec![dspec], &mut out, &mut extra);
    }
    sweep_tmp();
    run::finish(
        Finish {
            id: ID,
            args,
            t0,
            rule: "evaluations = buffers written and judged against the model directory; non-trivial = a write whose reading crosses a period \
                   boundary, lies exactly on / 1 ns before one, stands still, steps back, or belongs to a scripted boundary/calendar pattern; \
                   distinct = distinct (rotation, prefix/suffix shape, max_log_files, api/thread count, step class, forward?, periods-crossed bucket, \
                   calendar edge crossed incl. leap-day cases, exactly-on-boundary?, 1ns-before?, files pruned) tuples among those",
            assumptions: vec![
                "virtual clock readings lie in 1970-01-01 .. 9990-01-01 (the time crate's range ends at 9999), except in the separately counted class runs_starting_before_1970 (1 in 32 scenarios) whose only accepted divergence is the pre-epoch finding's signature".into(),
                "fresh private directory per scenario: every file in it is the appender's; restarts reuse the directory".into(),
                "prune order is judged on file birth times as reported by the file system; file creations in runs with a limit are kept 12 ms apart; equal birth times make only the ordering clause inconclusive".into(),
                "a buffer missing after a round whose replaced file was legitimately pruned (limit 1) is unverifiable, not a loss".into(),
                "the name of the single file of a never-rotating appender without prefix and suffix is not specified; any one file is accepted".into(),
            ],
            min_evals: args.tier.pick(75_000, 900_000),
            min_distinct: args.tier.pick(4000, 13_000),
            exhaustive: false,
            extra,
        },
        out,
    );
}
