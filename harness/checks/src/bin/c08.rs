//! C08 — static summaries (interest, max-level hint) are sound upper bounds (DESIGN.md 5/C08).
//!
//! Every unit of work is one stack built from a spec: `base (Registry | plain recording collector)
//! .with(layer)*`, layers being recording layers, `.with_filter(F)` layers, global filter layers,
//! `None`/`Some`, `Vec`, `and_then` trees and per-layer-filtered trees.  The stack is wrapped in a
//! forwarding `Top` collector and every filter in a forwarding `Spy`, which only *record* the
//! answers the real code gives at the API boundary (register_callsite / callsite_enabled,
//! max_level_hint, enabled, event_enabled).  The same 120 real macro callsites x 4 span contexts
//! are emitted twice: once with only this stack's `Dispatch` alive (cached interest = the stack's
//! own summary, `LevelFilter::current()` = its hint) and once while an accept-all
//! always-`sometimes` dummy `Dispatch` is alive (every cached interest `sometimes`, max level
//! TRACE: `enabled()` consulted every time).  For single `.with_filter(X)` stacks the filter
//! expression X is additionally called directly (callsite_enabled / max_level_hint / enabled /
//! event_enabled) on leaked static metadata with the real `Context` its `Filtered` hands it.
//!
//! Oracle (two answers of the same implementation; no reference semantics):
//!  (a) summary `never`, or hint Some(h) with level more verbose than h  =>  the dynamic path
//!      accepts / delivers in no context;
//!  (b) summary `always` => no context makes the dynamic path reject;
//!  (c) summary `always` => cached path and uncached path reach the same recording layers.

use std::any::TypeId;
use std::cell::{Cell, RefCell};
use std::ptr::NonNull;
use std::sync::atomic::{AtomicU64, AtomicUsize, Ordering};
use std::sync::{Arc, Mutex, OnceLock};
use std::time::Instant;
use tracing_core::callsite::Callsite;
use tracing_core::collect::Interest;
use tracing_core::dispatch::{self, Dispatch};
use tracing_core::field::{Field, FieldSet, Value, Visit};
use tracing_core::metadata::Kind;
use tracing_core::{span, Collect, Event, Level, LevelFilter, Metadata};
use tracing_subscriber::filter::{self, EnvFilter, FilterExt, Targets};
use tracing_subscriber::registry::{LookupSpan, Registry};
use tracing_subscriber::reload;
use tracing_subscriber::subscribe::{CollectExt, Context, Filter, Subscribe};
use vlib::run::{self, Finish};
use vlib::{json, Args, ChildSpec, Map, Mode, Out, Rng, Value as J};

const ID: &str = "C08";

// ---------------------------------------------------------------------------------------
// metadata universe: 5 levels x 4 targets x {span sp/other x fields {id,f}/{id}, event x {id,f}/{id}}

const TARGETS: [&str; 4] = ["app", "app::db", "application", "net"];
const LEVEL_NAMES: [&str; 6] = ["OFF", "ERROR", "WARN", "INFO", "DEBUG", "TRACE"];
const NU: usize = 120;
/// universe + the three context-span callsites (judged like universe entries)
const NX: usize = NU + 3;
const NCTX: usize = 4;
const CTX_NAMES: [&str; NCTX] = [
    "no span",
    "inside span sp{f=1} (matching)",
    "inside span other{f=2} (non-matching)",
    "inside span sp{f=2} (name matches, value does not)",
];

#[derive(Clone, Copy, Debug, PartialEq, Eq)]
struct UM {
    level: usize,
    target: usize,
    span: bool,
    name_sp: bool,
    has_f: bool,
}
fn um(i: usize) -> UM {
    if i >= NU {
        // context spans: ERROR, target app, sp{f} / other{f} / sp{f}
        return UM { level: 1, target: 0, span: true, name_sp: i != NU + 1, has_f: true };
    }
    let v = i % 6;
    let lt = i / 6;
    UM {
        level: lt / 4 + 1,
        target: lt % 4,
        span: v < 4,
        name_sp: v < 2,
        has_f: v % 2 == 0,
    }
}
fn um_name(u: UM) -> &'static str {
    if !u.span {
        "event c08"
    } else if u.name_sp {
        "sp"
    } else {
        "other"
    }
}
fn um_json(i: usize) -> J {
    let u = um(i);
    json!({"uidx": i, "context_span": i >= NU, "level": LEVEL_NAMES[u.level], "target": TARGETS[u.target],
           "kind": if u.span { "span" } else { "event" },
           "name": if u.span { um_name(u) } else { "(event)" },
           "fields": if u.has_f { "id,f" } else { "id" }})
}
fn rank(l: &Level) -> usize {
    match *l {
        Level::ERROR => 1,
        Level::WARN => 2,
        Level::INFO => 3,
        Level::DEBUG => 4,
        _ => 5,
    }
}
fn filter_of(r: usize) -> LevelFilter {
    [LevelFilter::OFF, LevelFilter::ERROR, LevelFilter::WARN, LevelFilter::INFO, LevelFilter::DEBUG, LevelFilter::TRACE][r]
}
fn hint_rank(h: Option<LevelFilter>) -> Option<usize> {
    h.map(|f| (0..6).find(|&r| filter_of(r) == f).expect("HARNESS: unknown LevelFilter"))
}
fn iv(i: &Interest) -> u8 {
    if i.is_never() {
        0
    } else if i.is_sometimes() {
        1
    } else {
        2
    }
}
const INAMES: [&str; 3] = ["never", "sometimes", "always"];
fn iname(v: u8) -> &'static str {
    if v < 3 {
        INAMES[v as usize]
    } else {
        "(not asked)"
    }
}
fn hname(h: Option<usize>) -> String {
    match h {
        None => "None".into(),
        Some(r) => format!("Some({})", LEVEL_NAMES[r]),
    }
}

#[derive(Clone, Copy, Debug, PartialEq, Eq)]
enum Cls {
    U(usize),
    Probe,
    Other,
}
fn classify(m: &Metadata<'_>) -> Cls {
    if m.target() == "probe" {
        return Cls::Probe;
    }
    let fs = m.fields();
    if fs.field("ctx3").is_some() {
        return Cls::U(NU + 2);
    }
    if fs.field("ctx").is_some() {
        return Cls::U(if m.name() == "sp" { NU } else { NU + 1 });
    }
    let Some(t) = TARGETS.iter().position(|x| *x == m.target()) else {
        return Cls::Other;
    };
    if fs.field("id").is_none() {
        return Cls::Other;
    }
    let has_f = fs.field("f").is_some();
    let v = if m.is_span() {
        match (m.name(), has_f) {
            ("sp", true) => 0,
            ("sp", false) => 1,
            ("other", true) => 2,
            ("other", false) => 3,
            _ => return Cls::Other,
        }
    } else if m.is_event() {
        if has_f {
            4
        } else {
            5
        }
    } else {
        return Cls::Other;
    };
    Cls::U(((rank(m.level()) - 1) * 4 + t) * 6 + v)
}

// real macro callsites, one expansion each
type EmitFn = fn(u64) -> Option<tracing::Span>;
macro_rules! cs6 {
    ($lvl:ident, $tgt:literal) => {
        [
            (|id: u64| Some(tracing::span!(target: $tgt, tracing::Level::$lvl, "sp", id = id, f = 1u64))) as EmitFn,
            (|id: u64| Some(tracing::span!(target: $tgt, tracing::Level::$lvl, "sp", id = id))) as EmitFn,
            (|id: u64| Some(tracing::span!(target: $tgt, tracing::Level::$lvl, "other", id = id, f = 1u64))) as EmitFn,
            (|id: u64| Some(tracing::span!(target: $tgt, tracing::Level::$lvl, "other", id = id))) as EmitFn,
            (|id: u64| {
                tracing::event!(target: $tgt, tracing::Level::$lvl, id = id, f = 1u64);
                None
            }) as EmitFn,
            (|id: u64| {
                tracing::event!(target: $tgt, tracing::Level::$lvl, id = id);
                None
            }) as EmitFn,
        ]
    };
}
macro_rules! cs_level {
    ($lvl:ident) => {
        [cs6!($lvl, "app"), cs6!($lvl, "app::db"), cs6!($lvl, "application"), cs6!($lvl, "net")]
    };
}
static EMIT: [[[EmitFn; 6]; 4]; 5] = [cs_level!(ERROR), cs_level!(WARN), cs_level!(INFO), cs_level!(DEBUG), cs_level!(TRACE)];

fn emit_u(i: usize, id: u64) -> Option<tracing::Span> {
    let u = i / 6;
    EMIT[u / 4][u % 4][i % 6](id)
}
fn ctx_span(c: usize, id: u64) -> Option<tracing::Span> {
    match c {
        0 => None,
        1 => Some(tracing::span!(target: "app", tracing::Level::ERROR, "sp", id = id, f = 1u64, ctx = true)),
        2 => Some(tracing::span!(target: "app", tracing::Level::ERROR, "other", id = id, f = 2u64, ctx = true)),
        _ => Some(tracing::span!(target: "app", tracing::Level::ERROR, "sp", id = id, f = 2u64, ctx3 = true)),
    }
}
fn probe(id: u64) {
    tracing::event!(target: "probe", tracing::Level::ERROR, id = id);
}

// leaked static metadata mirroring the universe, for the direct calls (never zero-sized)
struct LeakCs {
    meta: OnceLock<&'static Metadata<'static>>,
    _pad: u64,
}
impl Callsite for LeakCs {
    fn set_interest(&self, _: Interest) {}
    fn metadata(&self) -> &Metadata<'_> {
        self.meta.get().expect("HARNESS: callsite without metadata")
    }
}
fn leak_meta(i: usize) -> &'static Metadata<'static> {
    let u = um(i);
    let cs: &'static LeakCs = Box::leak(Box::new(LeakCs {
        meta: OnceLock::new(),
        _pad: i as u64 + 1,
    }));
    let names: &'static [&'static str] = if u.has_f { &["id", "f"] } else { &["id"] };
    let level = [Level::ERROR, Level::ERROR, Level::WARN, Level::INFO, Level::DEBUG, Level::TRACE][u.level];
    let meta: &'static Metadata<'static> = Box::leak(Box::new(Metadata::new(
        um_name(u),
        TARGETS[u.target],
        level,
        None,
        None,
        None,
        FieldSet::new(names, tracing_core::identify_callsite!(cs)),
        if u.span { Kind::SPAN } else { Kind::EVENT },
    )));
    cs.meta.set(meta).ok();
    meta
}
fn leaked_universe() -> &'static [&'static Metadata<'static>] {
    static LU: OnceLock<Vec<&'static Metadata<'static>>> = OnceLock::new();
    LU.get_or_init(|| {
        let v: Vec<_> = (0..NU).map(leak_meta).collect();
        for (i, m) in v.iter().enumerate() {
            assert!(classify(m) == Cls::U(i), "HARNESS: leaked universe entry {i} classifies as {:?}", classify(m));
        }
        v
    })
}

// ---------------------------------------------------------------------------------------
// recorders (API boundary only)

struct Shared {
    /// (recorder index, id field of the emission)
    deliveries: Mutex<Vec<(u8, u64)>>,
    run: AtomicUsize,
    ctx: AtomicUsize,
    spans: AtomicU64,
}
const PLAIN_IDX: u8 = 62;

struct IdVisit(Option<u64>);
impl Visit for IdVisit {
    fn record_u64(&mut self, f: &Field, v: u64) {
        if f.name() == "id" {
            self.0 = Some(v);
        }
    }
    fn record_debug(&mut self, _: &Field, _: &dyn std::fmt::Debug) {}
}

struct Rec {
    idx: u8,
    sh: Arc<Shared>,
}
impl<C: Collect> Subscribe<C> for Rec {
    fn on_event(&self, ev: &Event<'_>, _: Context<'_, C>) {
        let mut v = IdVisit(None);
        ev.record(&mut v);
        self.sh.deliveries.lock().unwrap().push((self.idx, v.0.unwrap_or(0)));
    }
    fn on_new_span(&self, a: &span::Attributes<'_>, _: &span::Id, _: Context<'_, C>) {
        let mut v = IdVisit(None);
        a.record(&mut v);
        self.sh.deliveries.lock().unwrap().push((self.idx, v.0.unwrap_or(0)));
    }
}

#[derive(Default)]
struct SpySt {
    /// [phase][uidx] -> interest (255 = not asked)
    interest: Vec<[u8; NX]>,
    hint: Option<Option<usize>>,
    /// (run, ctx, uidx, enabled answer)
    calls: Vec<(u8, u8, u16, bool)>,
    /// (run, ctx, uidx) where event_enabled answered false
    ev_false: Vec<(u8, u8, u16)>,
    /// direct calls on the leaked universe
    d_interest: Vec<u8>,
    d_hint: Option<Option<usize>>,
    d_acc: Vec<(u8, Vec<bool>)>,
}
struct SpyLog {
    desc: String,
    what: &'static str,
    envs: Vec<usize>,
    st: Mutex<SpySt>,
}
impl SpyLog {
    fn new(desc: String, what: &'static str, envs: Vec<usize>) -> Arc<Self> {
        Arc::new(SpyLog {
            desc,
            what,
            envs,
            st: Mutex::new(SpySt {
                interest: vec![[255; NX]; 2],
                ..Default::default()
            }),
        })
    }
}

type BF<C> = Box<dyn Filter<C> + Send + Sync + 'static>;
type BS<C> = Box<dyn Subscribe<C> + Send + Sync + 'static>;
trait Cb: Collect + for<'a> LookupSpan<'a> + Send + Sync + 'static {}
impl<T: Collect + for<'a> LookupSpan<'a> + Send + Sync + 'static> Cb for T {}

/// forwarding `Filter` that records the wrapped filter's answers; on the harness-only
/// probe event it sweeps the leaked universe with the real `Context`
struct Spy<C> {
    inner: BF<C>,
    log: Arc<SpyLog>,
    sh: Arc<Shared>,
    direct: bool,
}
impl<C: Cb> Spy<C> {
    fn direct_register(&self) {
        let lu = leaked_universe();
        let mut s = Vec::with_capacity(NU);
        for m in lu {
            s.push(iv(&self.inner.callsite_enabled(m)));
        }
        let h = hint_rank(self.inner.max_level_hint());
        let mut st = self.log.st.lock().unwrap();
        st.d_interest = s;
        st.d_hint = Some(h);
    }
    fn sweep(&self, cx: &Context<'_, C>) {
        let lu = leaked_universe();
        let mut acc = Vec::with_capacity(NU);
        let one = 1u64;
        for m in lu {
            let mut r = self.inner.enabled(m, cx);
            if m.is_event() {
                let fs = m.fields();
                let fid = fs.field("id").expect("HARNESS: no id field");
                let er = if let Some(ff) = fs.field("f") {
                    let vals = [(&fid, Some(&one as &dyn Value)), (&ff, Some(&one as &dyn Value))];
                    let vs = fs.value_set(&vals);
                    self.inner.event_enabled(&Event::new(m, &vs), cx)
                } else {
                    let vals = [(&fid, Some(&one as &dyn Value))];
                    let vs = fs.value_set(&vals);
                    self.inner.event_enabled(&Event::new(m, &vs), cx)
                };
                r = r && er;
            }
            acc.push(r);
        }
        let c = self.sh.ctx.load(Ordering::Relaxed) as u8;
        self.log.st.lock().unwrap().d_acc.push((c, acc));
    }
}
impl<C: Cb> Filter<C> for Spy<C> {
    fn enabled(&self, meta: &Metadata<'_>, cx: &Context<'_, C>) -> bool {
        match classify(meta) {
            Cls::Probe => {
                if self.direct {
                    self.sweep(cx);
                }
                false
            }
            Cls::U(i) => {
                let r = self.inner.enabled(meta, cx);
                let run = self.sh.run.load(Ordering::Relaxed) as u8;
                let c = self.sh.ctx.load(Ordering::Relaxed) as u8;
                self.log.st.lock().unwrap().calls.push((run, c, i as u16, r));
                r
            }
            _ => self.inner.enabled(meta, cx),
        }
    }
    fn callsite_enabled(&self, meta: &'static Metadata<'static>) -> Interest {
        match classify(meta) {
            Cls::Probe => Interest::sometimes(),
            Cls::U(i) => {
                let r = self.inner.callsite_enabled(meta);
                let ph = self.sh.run.load(Ordering::Relaxed).min(1);
                self.log.st.lock().unwrap().interest[ph][i] = iv(&r);
                r
            }
            _ => self.inner.callsite_enabled(meta),
        }
    }
    fn max_level_hint(&self) -> Option<LevelFilter> {
        let h = self.inner.max_level_hint();
        self.log.st.lock().unwrap().hint = Some(hint_rank(h));
        h
    }
    fn event_enabled(&self, ev: &Event<'_>, cx: &Context<'_, C>) -> bool {
        let r = self.inner.event_enabled(ev, cx);
        if !r {
            if let Cls::U(i) = classify(ev.metadata()) {
                let run = self.sh.run.load(Ordering::Relaxed) as u8;
                let c = self.sh.ctx.load(Ordering::Relaxed) as u8;
                self.log.st.lock().unwrap().ev_false.push((run, c, i as u16));
            }
        }
        r
    }
    fn on_new_span(&self, a: &span::Attributes<'_>, id: &span::Id, cx: Context<'_, C>) {
        self.inner.on_new_span(a, id, cx)
    }
    fn on_record(&self, id: &span::Id, v: &span::Record<'_>, cx: Context<'_, C>) {
        self.inner.on_record(id, v, cx)
    }
    fn on_enter(&self, id: &span::Id, cx: Context<'_, C>) {
        self.inner.on_enter(id, cx)
    }
    fn on_exit(&self, id: &span::Id, cx: Context<'_, C>) {
        self.inner.on_exit(id, cx)
    }
    fn on_close(&self, id: span::Id, cx: Context<'_, C>) {
        self.inner.on_close(id, cx)
    }
}

/// forwarding `Subscribe` around a global filter layer
struct GlobSpy<C> {
    inner: BS<C>,
    log: Arc<SpyLog>,
    sh: Arc<Shared>,
}
impl<C: Cb> Subscribe<C> for GlobSpy<C> {
    fn on_register_dispatch(&self, d: &Dispatch) {
        self.inner.on_register_dispatch(d)
    }
    fn on_subscribe(&mut self, c: &mut C) {
        self.inner.on_subscribe(c)
    }
    fn register_callsite(&self, meta: &'static Metadata<'static>) -> Interest {
        let r = self.inner.register_callsite(meta);
        if let Cls::U(i) = classify(meta) {
            let ph = self.sh.run.load(Ordering::Relaxed).min(1);
            self.log.st.lock().unwrap().interest[ph][i] = iv(&r);
        }
        r
    }
    fn enabled(&self, meta: &Metadata<'_>, cx: Context<'_, C>) -> bool {
        let r = self.inner.enabled(meta, cx);
        if let Cls::U(i) = classify(meta) {
            let run = self.sh.run.load(Ordering::Relaxed) as u8;
            let c = self.sh.ctx.load(Ordering::Relaxed) as u8;
            self.log.st.lock().unwrap().calls.push((run, c, i as u16, r));
        }
        r
    }
    fn max_level_hint(&self) -> Option<LevelFilter> {
        let h = self.inner.max_level_hint();
        self.log.st.lock().unwrap().hint = Some(hint_rank(h));
        h
    }
    fn event_enabled(&self, ev: &Event<'_>, cx: Context<'_, C>) -> bool {
        let r = self.inner.event_enabled(ev, cx);
        if !r {
            if let Cls::U(i) = classify(ev.metadata()) {
                let run = self.sh.run.load(Ordering::Relaxed) as u8;
                let c = self.sh.ctx.load(Ordering::Relaxed) as u8;
                self.log.st.lock().unwrap().ev_false.push((run, c, i as u16));
            }
        }
        r
    }
    fn on_new_span(&self, a: &span::Attributes<'_>, id: &span::Id, cx: Context<'_, C>) {
        self.inner.on_new_span(a, id, cx)
    }
    fn on_record(&self, id: &span::Id, v: &span::Record<'_>, cx: Context<'_, C>) {
        self.inner.on_record(id, v, cx)
    }
    fn on_follows_from(&self, a: &span::Id, b: &span::Id, cx: Context<'_, C>) {
        self.inner.on_follows_from(a, b, cx)
    }
    fn on_event(&self, ev: &Event<'_>, cx: Context<'_, C>) {
        self.inner.on_event(ev, cx)
    }
    fn on_enter(&self, id: &span::Id, cx: Context<'_, C>) {
        self.inner.on_enter(id, cx)
    }
    fn on_exit(&self, id: &span::Id, cx: Context<'_, C>) {
        self.inner.on_exit(id, cx)
    }
    fn on_close(&self, id: span::Id, cx: Context<'_, C>) {
        self.inner.on_close(id, cx)
    }
    fn on_id_change(&self, a: &span::Id, b: &span::Id, cx: Context<'_, C>) {
        self.inner.on_id_change(a, b, cx)
    }
}

/// forwarding `Collect` around the whole built stack
struct Top<C> {
    inner: C,
    log: Arc<SpyLog>,
    sh: Arc<Shared>,
}
impl<C: Collect> Collect for Top<C> {
    fn on_register_dispatch(&self, d: &Dispatch) {
        self.inner.on_register_dispatch(d)
    }
    fn register_callsite(&self, meta: &'static Metadata<'static>) -> Interest {
        let r = self.inner.register_callsite(meta);
        if let Cls::U(i) = classify(meta) {
            let ph = self.sh.run.load(Ordering::Relaxed).min(1);
            self.log.st.lock().unwrap().interest[ph][i] = iv(&r);
        }
        r
    }
    fn enabled(&self, meta: &Metadata<'_>) -> bool {
        let r = self.inner.enabled(meta);
        if let Cls::U(i) = classify(meta) {
            let run = self.sh.run.load(Ordering::Relaxed) as u8;
            let c = self.sh.ctx.load(Ordering::Relaxed) as u8;
            self.log.st.lock().unwrap().calls.push((run, c, i as u16, r));
        }
        r
    }
    fn max_level_hint(&self) -> Option<LevelFilter> {
        let h = self.inner.max_level_hint();
        self.log.st.lock().unwrap().hint = Some(hint_rank(h));
        h
    }
    fn new_span(&self, a: &span::Attributes<'_>) -> span::Id {
        self.inner.new_span(a)
    }
    fn record(&self, id: &span::Id, v: &span::Record<'_>) {
        self.inner.record(id, v)
    }
    fn record_follows_from(&self, a: &span::Id, b: &span::Id) {
        self.inner.record_follows_from(a, b)
    }
    fn event_enabled(&self, ev: &Event<'_>) -> bool {
        let r = self.inner.event_enabled(ev);
        if !r {
            if let Cls::U(i) = classify(ev.metadata()) {
                let run = self.sh.run.load(Ordering::Relaxed) as u8;
                let c = self.sh.ctx.load(Ordering::Relaxed) as u8;
                self.log.st.lock().unwrap().ev_false.push((run, c, i as u16));
            }
        }
        r
    }
    fn event(&self, ev: &Event<'_>) {
        self.inner.event(ev)
    }
    fn enter(&self, id: &span::Id) {
        self.inner.enter(id)
    }
    fn exit(&self, id: &span::Id) {
        self.inner.exit(id)
    }
    fn clone_span(&self, id: &span::Id) -> span::Id {
        self.inner.clone_span(id)
    }
    fn try_close(&self, id: span::Id) -> bool {
        self.inner.try_close(id)
    }
    fn current_span(&self) -> span::Current {
        self.inner.current_span()
    }
    unsafe fn downcast_raw(&self, id: TypeId) -> Option<NonNull<()>> {
        if id == TypeId::of::<Self>() {
            Some(NonNull::from(self).cast())
        } else {
            self.inner.downcast_raw(id)
        }
    }
}

/// non-registry base: a plain recording collector with a self-consistent filter
/// (`LookupSpan` is implemented only to satisfy the uniform builder; it knows no spans and
/// no `Filtered` layer is ever put on it)
#[derive(Clone, Copy, Debug, PartialEq, Eq, Hash)]
struct PSpec {
    thresh: usize,
    dynamic: bool,
    hint: Option<usize>,
}
const PSPECS: [PSpec; 4] = [
    PSpec { thresh: 5, dynamic: false, hint: None },
    PSpec { thresh: 3, dynamic: false, hint: None },
    PSpec { thresh: 3, dynamic: false, hint: Some(3) },
    PSpec { thresh: 4, dynamic: true, hint: Some(5) },
];
struct Plain {
    spec: PSpec,
    sh: Arc<Shared>,
}
impl Collect for Plain {
    fn register_callsite(&self, m: &'static Metadata<'static>) -> Interest {
        if rank(m.level()) <= self.spec.thresh {
            if self.spec.dynamic {
                Interest::sometimes()
            } else {
                Interest::always()
            }
        } else {
            Interest::never()
        }
    }
    fn enabled(&self, m: &Metadata<'_>) -> bool {
        rank(m.level()) <= self.spec.thresh
    }
    fn max_level_hint(&self) -> Option<LevelFilter> {
        self.spec.hint.map(filter_of)
    }
    fn new_span(&self, a: &span::Attributes<'_>) -> span::Id {
        let mut v = IdVisit(None);
        a.record(&mut v);
        self.sh.deliveries.lock().unwrap().push((PLAIN_IDX, v.0.unwrap_or(0)));
        span::Id::from_u64(self.sh.spans.fetch_add(1, Ordering::Relaxed) + 1)
    }
    fn record(&self, _: &span::Id, _: &span::Record<'_>) {}
    fn record_follows_from(&self, _: &span::Id, _: &span::Id) {}
    fn event(&self, ev: &Event<'_>) {
        let mut v = IdVisit(None);
        ev.record(&mut v);
        self.sh.deliveries.lock().unwrap().push((PLAIN_IDX, v.0.unwrap_or(0)));
    }
    fn enter(&self, _: &span::Id) {}
    fn exit(&self, _: &span::Id) {}
    fn current_span(&self) -> span::Current {
        span::Current::unknown()
    }
}
impl<'a> LookupSpan<'a> for Plain {
    type Data = tracing_subscriber::registry::Data<'a>;
    fn span_data(&'a self, _: &span::Id) -> Option<Self::Data> {
        None
    }
}

/// the second, always-`sometimes`, accept-all collector of the uncached run
struct Dummy {
    _pad: u64,
}
impl Collect for Dummy {
    fn register_callsite(&self, _: &'static Metadata<'static>) -> Interest {
        Interest::sometimes()
    }
    fn enabled(&self, _: &Metadata<'_>) -> bool {
        true
    }
    fn max_level_hint(&self) -> Option<LevelFilter> {
        None
    }
    fn new_span(&self, _: &span::Attributes<'_>) -> span::Id {
        span::Id::from_u64(1)
    }
    fn record(&self, _: &span::Id, _: &span::Record<'_>) {}
    fn record_follows_from(&self, _: &span::Id, _: &span::Id) {}
    fn event(&self, _: &Event<'_>) {}
    fn enter(&self, _: &span::Id) {}
    fn exit(&self, _: &span::Id) {}
    fn current_span(&self) -> span::Current {
        span::Current::unknown()
    }
}

include!("../c08_spec.rs");
include!("../c08_run.rs");
