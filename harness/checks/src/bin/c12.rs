//! C12 — after a reload returns, every thread filters with the new value (DESIGN.md 5/C12).
//! kinds: "hist" sequential reload/emit histories over a reloadable global layer
//! (Box<dyn Subscribe>) or a reloadable per-layer filter (Box<dyn Filter>), emissions from
//! cached and fresh callsites on the reloading thread and on others; "conc" emitters racing a
//! reloader, chaos at the reload / rebuild hook sites, stamp-ordered oracle.

use std::sync::atomic::{AtomicBool, Ordering};
use std::sync::{Arc, Barrier, Mutex};
use std::time::Instant;
use tracing_core::dispatch::{self, Dispatch};
use tracing_core::field::{Field, Visit};
use tracing_core::{Collect, Event, LevelFilter};
use tracing_subscriber::filter::{EnvFilter, Targets};
use tracing_subscriber::registry::{LookupSpan, Registry};
use tracing_subscriber::subscribe::{CollectExt, Context, Filter, Subscribe};
use tracing_subscriber::reload;
use vcs::{Cs, Emitted, Fresh, Kind, TARGETS};
use vlib::exec::Workers;
use vlib::run::{self, Finish};
use vlib::{chaos, json, stamps, Args, ChildSpec, Map, Mode, Out, Rng};

const ID: &str = "C12";

#[derive(Clone, Debug, PartialEq)]
enum FSpec {
    Level(usize),
    /// (target index, level) directives + default level
    Targets(Vec<(usize, usize)>, usize),
    Env(Vec<(usize, usize)>, usize),
    NoFilter,
}
impl FSpec {
    fn accept(&self, level: usize, target: usize) -> bool {
        match self {
            FSpec::Level(l) => level <= *l,
            FSpec::NoFilter => true,
            FSpec::Targets(v, d) | FSpec::Env(v, d) => {
                let t = TARGETS[target];
                let best = v
                    .iter()
                    .filter(|(ti, _)| t.starts_with(TARGETS[*ti]))
                    .max_by_key(|(ti, _)| TARGETS[*ti].len());
                match best {
                    Some((_, l)) => level <= *l,
                    None => level <= *d,
                }
            }
        }
    }
    fn code(&self) -> String {
        match self {
            FSpec::Level(l) => format!("level<={}", vcs::LEVEL_NAMES[*l]),
            FSpec::NoFilter => "none".into(),
            FSpec::Targets(v, d) => format!("targets({})", dir_string(v, *d)),
            FSpec::Env(v, d) => format!("env({})", dir_string(v, *d)),
        }
    }
    fn kind(&self) -> &'static str {
        match self {
            FSpec::Level(_) => "level",
            FSpec::NoFilter => "none",
            FSpec::Targets(..) => "targets",
            FSpec::Env(..) => "env",
        }
    }
}
fn dir_string(v: &[(usize, usize)], d: usize) -> String {
    let mut parts: Vec<String> = v.iter().map(|(t, l)| format!("{}={}", TARGETS[*t], vcs::LEVEL_NAMES[*l].to_lowercase())).collect();
    parts.push(vcs::LEVEL_NAMES[d].to_lowercase());
    parts.join(",")
}
fn gen_spec(rng: &mut Rng) -> FSpec {
    let dirs = |rng: &mut Rng| {
        let mut v: Vec<(usize, usize)> = vec![];
        for t in 0..4 {
            if rng.chance(1, 2) {
                v.push((t, rng.usize(6)));
            }
        }
        (v, rng.usize(6))
    };
    match rng.below(7) {
        0 | 1 => FSpec::Level(rng.usize(6)),
        2 | 3 => {
            let (v, d) = dirs(rng);
            FSpec::Targets(v, d)
        }
        4 | 5 => {
            let (v, d) = dirs(rng);
            FSpec::Env(v, d)
        }
        _ => FSpec::NoFilter,
    }
}
fn mk_targets(v: &[(usize, usize)], d: usize) -> Targets {
    let mut t = Targets::new().with_default(vcs::filter_of(d));
    for (ti, l) in v {
        t = t.with_target(TARGETS[*ti], vcs::filter_of(*l));
    }
    t
}
type BoxLayer = Box<dyn Subscribe<Registry> + Send + Sync>;
type BoxFilter = Box<dyn Filter<Registry> + Send + Sync>;
fn as_layer(s: &FSpec) -> BoxLayer {
    match s {
        FSpec::Level(l) => Box::new(vcs::filter_of(*l)),
        FSpec::Targets(v, d) => Box::new(mk_targets(v, *d)),
        FSpec::Env(v, d) => Box::new(EnvFilter::new(dir_string(v, *d))),
        FSpec::NoFilter => Box::new(None::<LevelFilter>),
    }
}
fn as_filter(s: &FSpec) -> BoxFilter {
    match s {
        FSpec::Level(l) => Box::new(vcs::filter_of(*l)),
        FSpec::Targets(v, d) => Box::new(mk_targets(v, *d)),
        FSpec::Env(v, d) => Box::new(EnvFilter::new(dir_string(v, *d))),
        FSpec::NoFilter => Box::new(LevelFilter::TRACE),
    }
}

struct IdVisit(Option<u64>);
impl Visit for IdVisit {
    fn record_u64(&mut self, f: &Field, v: u64) {
        if f.name() == "id" {
            self.0 = Some(v);
        }
    }
    fn record_debug(&mut self, _: &Field, _: &dyn std::fmt::Debug) {}
}
#[derive(Clone, Default)]
struct RecLayer(Arc<Mutex<Vec<u64>>>);
impl<C: Collect + for<'a> LookupSpan<'a>> Subscribe<C> for RecLayer {
    fn on_event(&self, e: &Event<'_>, _: Context<'_, C>) {
        let mut v = IdVisit(None);
        e.record(&mut v);
        self.0.lock().unwrap().push(v.0.unwrap_or(u64::MAX));
    }
    fn on_new_span(&self, a: &tracing_core::span::Attributes<'_>, _: &tracing_core::span::Id, _: Context<'_, C>) {
        let mut v = IdVisit(None);
        a.record(&mut v);
        self.0.lock().unwrap().push(v.0.unwrap_or(u64::MAX));
    }
}

enum Handle {
    Layer(reload::Handle<BoxLayer>),
    Filter(reload::Handle<BoxFilter>),
}
impl Handle {
    /// `reload` spelled through `modify` (which is what `reload` does), storing `tag` under the
    /// same write lock so that the order of the tags is the order of the values
    fn reload_tagged(&self, s: &FSpec, tag: usize, last: &std::sync::atomic::AtomicUsize) -> Result<(), reload::Error> {
        match self {
            Handle::Layer(h) => {
                let v = as_layer(s);
                h.modify(move |slot| {
                    *slot = v;
                    last.store(tag, Ordering::SeqCst);
                })
            }
            Handle::Filter(h) => {
                let v = as_filter(s);
                h.modify(move |slot| {
                    *slot = v;
                    last.store(tag, Ordering::SeqCst);
                })
            }
        }
    }
    fn reload(&self, s: &FSpec) -> Result<(), reload::Error> {
        match self {
            Handle::Layer(h) => h.reload(as_layer(s)),
            Handle::Filter(h) => h.reload(as_filter(s)),
        }
    }
}
fn mk_stack(per_layer: bool, initial: &FSpec, rec: RecLayer) -> (Dispatch, Handle) {
    mk_stack_pos(per_layer, false, initial, rec)
}
/// `outermost`: the reloadable global layer is added last (on top of the recording layer)
/// instead of directly on the registry.
fn mk_stack_pos(per_layer: bool, outermost: bool, initial: &FSpec, rec: RecLayer) -> (Dispatch, Handle) {
    if !per_layer && outermost {
        let (l, h) = reload::Subscriber::new(as_layer(initial));
        // (an and_then tree: the boxed layer is typed for `Registry`, so it cannot be `.with()`ed
        // on top of another layer; inside the tree it is the outer element all the same)
        return (Dispatch::new(Registry::default().with(rec.and_then(l))), Handle::Layer(h));
    }
    if per_layer {
        let (f, h) = reload::Subscriber::new(as_filter(initial));
        (Dispatch::new(Registry::default().with(rec.with_filter(f))), Handle::Filter(h))
    } else {
        let (l, h) = reload::Subscriber::new(as_layer(initial));
        (Dispatch::new(Registry::default().with(l).with(rec)), Handle::Layer(h))
    }
}

fn main() {
    let args = run::parse_args();
    match args.mode.clone() {
        Mode::Parent => parent(&args),
        Mode::Child(k) if k == "conc" => child_conc(&args),
        Mode::Child(k) if k == "conc2" => child_conc2(&args),
        Mode::Child(_) => child_hist(&args),
        Mode::Replay(p) => run::replay(ID, &p),
    }
}

fn parent(args: &Args) {
    let t0 = Instant::now();
    let mut out = Out::new();
    let n = args.get_u64("shards", args.tier.pick(256, 5120));
    let ends = run::run_children(args, &ChildSpec::new("hist", n).arg("hist", args.get_u64("hist", 120)).timeout(600), &mut out);
    run::classify_ends(&ends, &mut out, true);
    let n = args.get_u64("cshards", args.tier.pick(160, 3200));
    let ends = run::run_children(args, &ChildSpec::new("conc", n).arg("runs", args.get_u64("runs", 10)).timeout(600), &mut out);
    run::classify_ends(&ends, &mut out, true);
    let n = args.get_u64("c2shards", args.tier.pick(64, 1280));
    let ends = run::run_children(args, &ChildSpec::new("conc2", n).arg("runs", args.get_u64("runs2", 4)).timeout(600), &mut out);
    run::classify_ends(&ends, &mut out, true);
    let mut extra = Map::new();
    vlib::sanlayer::run_layers(ID, args, &mut out, &mut extra);
    run::dbg_build_layer(
        ID,
        args,
        vec![
            ChildSpec::new("hist", args.get_u64("dbg_shards", 1280)).arg("hist", args.get_u64("hist", 120)).timeout(900),
            ChildSpec::new("conc", args.get_u64("dbg_cshards", 800)).arg("runs", args.get_u64("runs", 10)).timeout(900),
        ],
        &mut out,
        &mut extra,
    );
    run::finish(
        Finish {
            id: ID,
            args,
            t0,
            rule: "stacks `Registry + reload::Subscriber<Box<dyn Subscribe>> + recording layer` (reloadable global layer) and `Registry + recording layer.with_filter(reload::Subscriber<Box<dyn Filter>>)` (reloadable per-layer filter); reloads between LevelFilter / Targets / EnvFilter(static directives) / no filter in any direction; emissions from fresh and previously hit (cached always / never) callsites on the reloading thread and on two others; concurrent runs: 2-3 emitter threads looping over a callsite pool while a reloader cycles filters with chaos delays at reload.after_unlock and the rebuild sites. \
                   evaluations = emissions judged (sequential: delivery == accept(current filter); concurrent: stamp-ordered) + reload results judged; \
                   non-trivial = emissions whose verdict under the new filter differs from the verdict under the previous one, or that hit a callsite cached under an earlier filter; distinct = distinct (previous filter kind, new filter kind, position, cached?, verdict flip direction, thread role) tuples + distinct interleaving signatures of concurrent runs",
            assumptions: vec![
                "exactly one Dispatch is live per history, so the global maximum level reflects this stack alone".into(),
                "EnvFilter values use static directives only (span-scoped directives and pre-existing spans are outside this check, see DESIGN 5/C12)".into(),
                "concurrent runs demand only stamp-ordered facts: an emission overlapping one or more reloads may be judged by any filter value that was current during its interval".into(),
            ],
            min_evals: 30000,
            min_distinct: 100,
            exhaustive: false,
            extra,
        },
        out,
    );
}

fn emit(cs: &'static Cs, id: u64) {
    if let Emitted::Span(s) = (cs.emit)(id) {
        drop(s)
    }
}

/// Downcasting through a reload wrapper is documented as unsupported (it answers `None`).  If a
/// build does hand out a reference into the reloadable value, that reference is an ordinary
/// shared reference obtained through safe code: it must not change its value, let alone dangle,
/// when the handle reloads.  (Under Miri / the sanitizers the stale use is reported by the tool.)
/// An installed `EnvFilter` with a span directive, extended IN PLACE through the handle
/// (`modify(|f| *f = take(f).add_directive(..))` - the only way to add to an installed filter
/// without losing its directives): emissions that start after `modify` returned are judged by
/// the extended filter, also at span callsites the old filter had already seen.  As a reloadable
/// global layer and as a reloadable per-layer filter.
fn env_modify_probe(out: &mut Out) {
    #[derive(Clone, Default)]
    struct Cnt(Arc<Mutex<Vec<&'static str>>>);
    impl<C: Collect> Subscribe<C> for Cnt {
        fn on_event(&self, e: &Event<'_>, _: Context<'_, C>) {
            struct V(Option<&'static str>);
            impl Visit for V {
                fn record_str(&mut self, f: &Field, v: &str) {
                    if f.name() == "tag" {
                        self.0 = Some(match v {
                            "d1" => "d1",
                            "t1" => "t1",
                            "d2" => "d2",
                            "t2" => "t2",
                            "out" => "out",
                            _ => "?",
                        });
                    }
                }
                fn record_debug(&mut self, _: &Field, _: &dyn std::fmt::Debug) {}
            }
            let mut v = V(None);
            e.record(&mut v);
            if let Some(t) = v.0 {
                self.0.lock().unwrap().push(t);
            }
        }
    }
    // one span callsite, hit before and after the modify
    fn req() -> tracing::Span {
        tracing::info_span!("c12_req")
    }
    fn body(modify: &dyn Fn()) {
        {
            let s = req();
            let _e = s.enter();
            tracing::debug!(tag = "d1");
            tracing::trace!(tag = "t1");
        }
        modify();
        {
            let s = req();
            let _e = s.enter();
            tracing::debug!(tag = "d2");
            tracing::trace!(tag = "t2");
        }
        tracing::trace!(tag = "out");
    }
    let want = vec!["d1", "d2", "t2"];
    for per_layer in [false, true] {
        let cnt = Cnt::default();
        let got = if per_layer {
            let (f, h) = reload::Subscriber::new(EnvFilter::new("[c12_req]=debug"));
            let d = Dispatch::new(Registry::default().with(cnt.clone().with_filter(f)));
            dispatch::with_default(&d, || body(&|| h.modify(|f| *f = std::mem::take(f).add_directive("[c12_req]=trace".parse().unwrap())).expect("HARNESS: modify")));
            cnt.0.lock().unwrap().clone()
        } else {
            let (f, h) = reload::Subscriber::new(EnvFilter::new("[c12_req]=debug"));
            let d = Dispatch::new(Registry::default().with(f).with(cnt.clone()));
            dispatch::with_default(&d, || body(&|| h.modify(|f| *f = std::mem::take(f).add_directive("[c12_req]=trace".parse().unwrap())).expect("HARNESS: modify")));
            cnt.0.lock().unwrap().clone()
        };
        out.evals += 1;
        out.count("env_filter_extended_in_place_probes", 1);
        if got != want {
            out.violation(
                "an EnvFilter extended in place through its reload handle does not judge emissions that started after modify() returned",
                json!({"position": if per_layer { "per-layer filter" } else { "global layer" },
                       "filter": "EnvFilter::new(\"[c12_req]=debug\"), then modify: add_directive(\"[c12_req]=trace\")",
                       "events_delivered": got, "expected": want,
                       "legend": "d1/t1 = DEBUG/TRACE inside span c12_req before the modify, d2/t2 = after it (a new span from the same callsite), out = TRACE outside any span"}),
            );
            return;
        }
    }
}

fn downcast_probe(out: &mut Out) {
    use tracing_subscriber::filter::Targets;
    // (a) a Copy value
    {
        let (l, h) = reload::Subscriber::new(LevelFilter::INFO);
        let d = Dispatch::new(Registry::default().with(l));
        out.count("downcast_probes_through_a_reload_wrapper", 1);
        if let Some(r) = d.downcast_ref::<LevelFilter>() {
            out.count("downcast_through_reload_answered_some", 1);
            let before = unsafe { std::ptr::read_volatile(r) };
            let _ = h.reload(LevelFilter::TRACE);
            let after = unsafe { std::ptr::read_volatile(r) };
            if before != after {
                out.violation(
                    "a shared reference handed out by downcast_ref through a reload wrapper changed its value when the handle reloaded (it points into the reloadable slot without holding its lock)",
                    json!({"type": "LevelFilter", "before": format!("{before:?}"), "after": format!("{after:?}")}),
                );
            }
        }
    }
    // (b) a value that owns heap memory: the old one is freed by the reload
    {
        let t0 = Targets::new().with_target("a_rather_long_target_name::with::segments", LevelFilter::DEBUG).with_target("b", LevelFilter::WARN);
        let (l, h) = reload::Subscriber::new(t0.clone());
        let d = Dispatch::new(Registry::default().with(l));
        out.count("downcast_probes_through_a_reload_wrapper", 1);
        if let Some(r) = d.downcast_ref::<Targets>() {
            out.count("downcast_through_reload_answered_some", 1);
            let before = format!("{r}");
            let _ = h.reload(Targets::new().with_target("zzz", LevelFilter::ERROR));
            let after = format!("{r}");
            if before != after {
                out.violation(
                    "a shared reference handed out by downcast_ref through a reload wrapper changed its value when the handle reloaded (it points into the reloadable slot without holding its lock)",
                    json!({"type": "Targets", "before": before, "after": after}),
                );
            }
        }
        // the boxed forms used by the histories
        let (l, h) = reload::Subscriber::new(Box::new(t0) as BoxLayer);
        let d = Dispatch::new(Registry::default().with(l));
        out.count("downcast_probes_through_a_reload_wrapper", 1);
        if let Some(r) = d.downcast_ref::<Targets>() {
            out.count("downcast_through_reload_answered_some", 1);
            let before = format!("{r}");
            let _ = h.reload(Box::new(Targets::new().with_target("zzz", LevelFilter::ERROR)) as BoxLayer);
            let after = format!("{r}");
            if before != after {
                out.violation(
                    "a shared reference handed out by downcast_ref through a reload wrapper changed its value when the handle reloaded (it points into the reloadable slot without holding its lock)",
                    json!({"type": "Box<dyn Subscribe> holding Targets", "before": before, "after": after}),
                );
            }
        }
        if let Some(r) = d.downcast_ref::<BoxLayer>() {
            out.count("downcast_through_reload_answered_some", 1);
            let p0 = &**r as *const dyn Subscribe<Registry> as *const u8 as usize;
            let _ = h.reload(Box::new(LevelFilter::OFF) as BoxLayer);
            let p1 = &**r as *const dyn Subscribe<Registry> as *const u8 as usize;
            if p0 != p1 {
                out.violation(
                    "a shared reference handed out by downcast_ref through a reload wrapper changed its value when the handle reloaded (it points into the reloadable slot without holding its lock)",
                    json!({"type": "Box<dyn Subscribe>", "before": p0, "after": p1}),
                );
            }
        }
    }
}

fn child_hist(args: &Args) {
    let nh = args.get_u64("hist", 120);
    let only = args.get("only").and_then(|s| s.parse::<u64>().ok());
    let mut out = Out::new();
    downcast_probe(&mut out);
    env_modify_probe(&mut out);
    let fresh = Fresh::new();
    let mut used: Vec<&'static Cs> = vec![];
    let mut opid = 1u64;
    for h in 0..nh {
        if let Some(o) = only {
            if h != o {
                continue;
            }
        }
        let mut rng = Rng::derive(args.seed, 0xC12 + args.shard, h);
        let per_layer = rng.bool();
        let outermost = rng.bool();
        let rec = RecLayer::default();
        let mut cur = gen_spec(&mut rng);
        let (disp, handle) = mk_stack_pos(per_layer, outermost, &cur, rec.clone());
        let workers = Workers::new(3);
        for t in 0..3 {
            let d = disp.clone();
            workers
                .run(t, move || {
                    let g = dispatch::set_default(&d);
                    std::mem::forget(g); // the worker thread ends with the history
                })
                .expect("HARNESS: install");
        }
        let handle = Arc::new(handle);
        let mut ops: Vec<String> = vec![format!(
            "stack: {} initial {}",
            if per_layer { "per-layer filter" } else if outermost { "global layer, outermost (above the recording layer)" } else { "global layer, directly on the registry" },
            cur.code()
        )];
        out.count(if per_layer { "histories_per_layer_filter" } else if outermost { "histories_global_layer_outermost" } else { "histories_global_layer_innermost" }, 1);
        let mut prev: Option<FSpec> = None;
        // callsite -> spec code under which it was last hit (what its cache was computed from)
        let mut last_hit: std::collections::HashMap<usize, String> = Default::default();
        let nops = 10 + rng.usize(30);
        let mut nreload = 0;
        out.count("histories", 1);
        let mut failed = false;
        for _ in 0..nops {
            if rng.chance(1, 4) {
                let ns = gen_spec(&mut rng);
                let t = rng.usize(3);
                ops.push(format!("Reload(t{t}, {})", ns.code()));
                let h2 = handle.clone();
                let ns2 = ns.clone();
                let r = workers.run(t, move || h2.reload(&ns2).map_err(|e| e.to_string()));
                out.evals += 1;
                match r {
                    Ok(Ok(())) => {}
                    Ok(Err(e)) => {
                        out.violation("reload on a live collector returned an error", json!({"ops": ops, "error": e, "history_index": h, "shard": args.shard}));
                        failed = true;
                        break;
                    }
                    Err(p) => {
                        out.violation("panic in Handle::reload", json!({"ops": ops, "panic": p, "history_index": h, "shard": args.shard}));
                        failed = true;
                        break;
                    }
                }
                out.count("reloads", 1);
                out.count(&format!("reload_{}_to_{}", cur.kind(), ns.kind()), 1);
                prev = Some(cur.clone());
                cur = ns;
                nreload += 1;
            } else {
                let t = rng.usize(3);
                let (cs, first) = if !used.is_empty() && rng.chance(3, 5) {
                    (*rng.pick(&used), false)
                } else {
                    let kind = if rng.chance(1, 5) { Kind::Span } else { Kind::Event };
                    match fresh.take(1 + rng.usize(5), rng.usize(4), kind) {
                        Some(c) => {
                            used.push(c);
                            (c, true)
                        }
                        None => (*rng.pick(&used), false),
                    }
                };
                let id = opid;
                opid += 1;
                let want = cur.accept(cs.level, cs.target);
                ops.push(format!("Emit(t{t}, #{} {:?} {} {}, first_hit={first}) op{id} expect {want}", cs.idx, cs.kind, vcs::LEVEL_NAMES[cs.level], TARGETS[cs.target]));
                if let Err(p) = workers.run(t, move || emit(cs, id)) {
                    out.violation("panic during an emission", json!({"ops": ops, "panic": p, "history_index": h, "shard": args.shard}));
                    failed = true;
                    break;
                }
                let got: Vec<u64> = std::mem::take(&mut *rec.0.lock().unwrap());
                out.evals += 1;
                out.count("emissions", 1);
                let flipped = prev.as_ref().map(|p| p.accept(cs.level, cs.target) != want).unwrap_or(false);
                let cached_under = last_hit.get(&cs.idx).cloned();
                let stale_cache = cached_under.as_ref().map(|c| *c != cur.code()).unwrap_or(false);
                if flipped {
                    out.count("emissions_whose_verdict_changed_with_the_last_reload", 1);
                }
                if stale_cache {
                    out.count("emissions_at_callsites_cached_under_an_earlier_filter", 1);
                }
                if flipped || stale_cache {
                    out.distinct_str(&format!(
                        "{}|{}|{}|{}|{}|{}|{}",
                        prev.as_ref().map(|p| p.kind()).unwrap_or("-"),
                        cur.kind(),
                        nreload.min(4),
                        stale_cache,
                        if flipped { if want { "now_on" } else { "now_off" } } else { "same" },
                        per_layer,
                        cs.kind == Kind::Span
                    ));
                }
                last_hit.insert(cs.idx, cur.code());
                let expect: Vec<u64> = if want { vec![id] } else { vec![] };
                if got != expect {
                    out.violation(
                        if want {
                            "an emission that started after the reload returned was not delivered although the new filter accepts it"
                        } else {
                            "an emission that started after the reload returned was delivered although the new filter rejects it"
                        },
                        json!({"ops": ops, "current_filter": cur.code(), "previous_filter": prev.as_ref().map(|p| p.code()), "delivered": got,
                               "callsite_last_hit_under": cached_under, "LevelFilter::current": format!("{}", LevelFilter::current()),
                               "history_index": h, "shard": args.shard, "replay_hint": "child args + only=<history_index>"}),
                    );
                    failed = true;
                    break;
                }
            }
        }
        drop(workers);
        if failed {
            break;
        }
        // a handle whose collector is gone must report an error
        drop(disp);
        let r = handle.reload(&FSpec::Level(3));
        out.evals += 1;
        out.count("reloads_after_collector_dropped", 1);
        match r {
            Err(e) if e.is_dropped() => {}
            other => {
                out.violation(
                    "reload through a handle whose collector was dropped did not report CollectorGone",
                    json!({"ops": ops, "result": format!("{other:?}"), "history_index": h, "shard": args.shard}),
                );
                break;
            }
        }
        if out.samples.is_empty() && args.shard == 0 && ops.len() > 12 {
            out.sample(json!({"ops": ops}));
        }
    }
    out.emit();
}

// ---------------------------------------------------------------------------------------------
fn child_conc(args: &Args) {
    let runs = args.get_u64("runs", 10);
    let mut out = Out::new();
    let fresh = Fresh::new();
    chaos::install();
    for r in 0..runs {
        let mut rng = Rng::derive(args.seed, 0xC12C + args.shard, r);
        let per_layer = rng.bool();
        let rec = RecLayer::default();
        let initial = gen_spec(&mut rng);
        let (disp, handle) = mk_stack(per_layer, &initial, rec.clone());
        let mut pool: Vec<&'static Cs> = vec![];
        for _ in 0..8 {
            if let Some(c) = fresh.take(1 + rng.usize(5), rng.usize(4), Kind::Event) {
                pool.push(c);
            }
        }
        if pool.len() < 4 {
            break;
        }
        let nemit = 2 + rng.usize(2);
        let nreload = 20 + rng.usize(31);
        let specs: Vec<FSpec> = (0..nreload).map(|_| gen_spec(&mut rng)).collect();
        let intensity = [0u32, 20, 50, 80][rng.usize(4)];
        let barrier = Arc::new(Barrier::new(nemit + 1));
        let stop = Arc::new(AtomicBool::new(false));
        // (call, ret, id, callsite index in pool)
        let mut hs = vec![];
        for t in 0..nemit {
            let d = disp.clone();
            let pool = pool.clone();
            let barrier = barrier.clone();
            let stop = stop.clone();
            let cseed = rng.next_u64();
            let mut trng = rng.fork();
            hs.push(std::thread::spawn(move || {
                let _g = dispatch::set_default(&d);
                chaos::arm(t + 1, cseed, intensity, false);
                let mut v: Vec<(u64, u64, u64, usize)> = vec![];
                barrier.wait();
                let mut id = (t as u64 + 1) << 32;
                while !stop.load(Ordering::SeqCst) && v.len() < 4000 {
                    let k = trng.usize(pool.len());
                    id += 1;
                    let (sp, _) = stamps::timed(|| emit(pool[k], id));
                    v.push((sp.call, sp.ret, id, k));
                    if trng.chance(1, 8) {
                        std::thread::yield_now();
                    }
                }
                (v, chaos::disarm())
            }));
        }
        let rcseed = rng.next_u64();
        chaos::arm(0, rcseed, intensity, true);
        barrier.wait();
        let mut rl: Vec<(u64, u64)> = vec![];
        let mut bad: Option<String> = None;
        for s in &specs {
            let (sp, r) = stamps::timed(|| handle.reload(s));
            if let Err(e) = r {
                bad = Some(e.to_string());
                break;
            }
            rl.push((sp.call, sp.ret));
            // leave room for emissions that are strictly ordered between two reloads
            match rng.below(4) {
                0 => {}
                1 => std::thread::yield_now(),
                _ => std::thread::sleep(std::time::Duration::from_micros(10 + rng.below(150))),
            }
        }
        stop.store(true, Ordering::SeqCst);
        let rlog = chaos::disarm();
        let mut emis = vec![];
        let mut hooklogs = vec![(0usize, rlog)];
        let mut panicked = None;
        for (t, h) in hs.into_iter().enumerate() {
            match h.join() {
                Ok((v, hl)) => {
                    emis.extend(v);
                    hooklogs.push((t + 1, hl));
                }
                Err(p) => panicked = Some(run::panic_msg(&p)),
            }
        }
        if let Some(p) = panicked {
            out.violation("panic in an emitter racing reloads", json!({"panic": p, "run": r, "shard": args.shard}));
            break;
        }
        if let Some(e) = bad {
            out.violation("reload on a live collector returned an error while emitters were running", json!({"error": e, "run": r, "shard": args.shard}));
            break;
        }
        out.count("conc_runs", 1);
        out.count("conc_reloads", rl.len() as u64);
        let delivered: std::collections::HashSet<u64> = rec.0.lock().unwrap().iter().copied().collect();
        // spec index active over time: before rl[0].call -> initial; after rl[k].ret and before rl[k+1].call -> specs[k]
        let mut viol = None;
        for (call, ret, id, k) in &emis {
            out.evals += 1;
            let cs = pool[*k];
            // candidate specs: every spec that was current at some instant of [call, ret]
            let mut cands: Vec<&FSpec> = vec![];
            // index of last reload completed before `call`
            let done_before = rl.iter().rposition(|(_, rr)| rr < call);
            let first_possible = match done_before {
                Some(i) => i as isize,
                None => -1,
            };
            // reloads that had started before `ret`
            let started_before_ret = rl.iter().rposition(|(rc, _)| rc < ret).map(|i| i as isize).unwrap_or(-1);
            for i in first_possible..=started_before_ret.max(first_possible) {
                cands.push(if i < 0 { &initial } else { &specs[i as usize] });
            }
            let got = delivered.contains(id);
            let allowed: Vec<bool> = cands.iter().map(|s| s.accept(cs.level, cs.target)).collect();
            if cands.len() == 1 {
                out.count("conc_emissions_ordered_after_a_reload", 1);
            } else {
                out.count("conc_emissions_overlapping_a_reload", 1);
            }
            if !allowed.contains(&got) {
                viol = Some(json!({"emission": {"call": call, "ret": ret, "id": id, "callsite": format!("{} {}", vcs::LEVEL_NAMES[cs.level], TARGETS[cs.target])},
                                   "delivered": got, "filters_current_during_its_interval": cands.iter().map(|s| s.code()).collect::<Vec<_>>(),
                                   "reload_stamps": rl.iter().take(60).collect::<Vec<_>>(), "initial": initial.code(),
                                   "specs": specs.iter().map(|s| s.code()).collect::<Vec<_>>(), "per_layer": per_layer, "run": r, "shard": args.shard, "chaos_intensity": intensity}));
                break;
            }
        }
        if let Some(w) = viol {
            out.violation("an emission that started after a reload returned (and before the next began) was not judged by that reload's filter", w);
            break;
        }
        let (sig, ord) = chaos::signature(&hooklogs, &[tracing_core::verif::site::MC_INTEREST_LOADED, tracing_core::verif::site::GD_AFTER_SCOPED_LOAD]);
        out.distinct(sig);
        out.count("conc_hook_events", ord.len() as u64);
        drop(disp);
    }
    chaos::uninstall();
    out.emit();
}

// ---------------------------------------------------------------------------------------------
// several handles reloading CONCURRENTLY, judged at quiescence: after every racing reload has
// returned, the value stored last (known through a tag written under the same write lock) must
// be what every thread filters with - interests and the global max level included.
fn child_conc2(args: &Args) {
    use std::sync::atomic::AtomicUsize;
    let runs = args.get_u64("runs", 4);
    let mut out = Out::new();
    let fresh = Fresh::new();
    chaos::install();
    for r in 0..runs {
        let mut rng = Rng::derive(args.seed, 0xC12D + args.shard, r);
        let per_layer = rng.bool();
        let rec = RecLayer::default();
        let initial = gen_spec(&mut rng);
        let (disp, handle) = mk_stack(per_layer, &initial, rec.clone());
        let handle = Arc::new(handle);
        let mut pool: Vec<&'static Cs> = vec![];
        for _ in 0..6 {
            if let Some(c) = fresh.take(1 + rng.usize(5), rng.usize(4), Kind::Event) {
                pool.push(c);
            }
        }
        if pool.len() < 3 {
            break;
        }
        let nrel = 2 + rng.usize(2);
        let rounds = 30 + rng.usize(40);
        // specs[round][reloader]
        let specs: Vec<Vec<FSpec>> = (0..rounds).map(|_| (0..nrel).map(|_| gen_spec(&mut rng)).collect()).collect();
        let intensity = [0u32, 30, 60, 90][rng.usize(4)];
        let last = Arc::new(AtomicUsize::new(usize::MAX));
        let start = Arc::new(Barrier::new(nrel + 1));
        let done = Arc::new(Barrier::new(nrel + 1));
        let mut hs = vec![];
        for t in 0..nrel {
            let handle = handle.clone();
            let last = last.clone();
            let start = start.clone();
            let done = done.clone();
            let my: Vec<FSpec> = specs.iter().map(|v| v[t].clone()).collect();
            let cseed = rng.next_u64();
            hs.push(std::thread::spawn(move || {
                chaos::arm(t, cseed, intensity, true);
                let mut err = None;
                for (round, s) in my.iter().enumerate() {
                    start.wait();
                    if let Err(e) = handle.reload_tagged(s, round * 8 + t, &last) {
                        err = Some(e.to_string());
                    }
                    done.wait();
                }
                (err, chaos::disarm())
            }));
        }
        let workers = Workers::new(2);
        for t in 0..2 {
            let d = disp.clone();
            workers.run(t, move || std::mem::forget(dispatch::set_default(&d))).expect("HARNESS: install");
        }
        let mut opid = (args.shard + 1) << 32 | (r << 24);
        let mut viol = None;
        for round in 0..rounds {
            start.wait();
            done.wait();
            // quiescent: every reload of this round has returned
            let tag = last.load(Ordering::SeqCst);
            let cur = &specs[tag / 8][tag % 8];
            for (k, cs) in pool.iter().enumerate() {
                opid += 1;
                let id = opid;
                let cs: &'static Cs = cs;
                workers.run(k % 2, move || emit(cs, id)).expect("HARNESS: emit");
                let got = std::mem::take(&mut *rec.0.lock().unwrap());
                let want = cur.accept(cs.level, cs.target);
                out.evals += 1;
                out.count("conc2_quiescent_emissions", 1);
                if got != if want { vec![id] } else { vec![] } {
                    viol = Some(json!({"round": round, "reloaders": nrel, "racing_values": specs[round].iter().map(|s| s.code()).collect::<Vec<_>>(),
                                       "value_stored_last": cur.code(), "callsite": format!("{} {}", vcs::LEVEL_NAMES[cs.level], TARGETS[cs.target]),
                                       "expected_delivery": want, "delivered": got, "LevelFilter::current": format!("{}", LevelFilter::current()),
                                       "per_layer": per_layer, "run": r, "shard": args.shard, "chaos_intensity": intensity}));
                    break;
                }
            }
            if viol.is_some() {
                // let the reloaders finish their remaining rounds
                for _ in round + 1..rounds {
                    start.wait();
                    done.wait();
                }
                break;
            }
        }
        let mut hooklogs = vec![];
        for (t, h) in hs.into_iter().enumerate() {
            match h.join() {
                Ok((e, hl)) => {
                    if let Some(e) = e {
                        out.violation("reload on a live collector returned an error while another reload was racing", json!({"error": e, "run": r, "shard": args.shard}));
                    }
                    hooklogs.push((t, hl));
                }
                Err(p) => out.violation("panic in a thread racing reloads", json!({"panic": run::panic_msg(&p), "run": r, "shard": args.shard})),
            }
        }
        drop(workers);
        if let Some(w) = viol {
            out.violation("after concurrently racing reloads had all returned, an emission was not judged by the value stored last (stale interest cache or stale global maximum level)", w);
            break;
        }
        out.count("conc2_runs", 1);
        out.count("conc2_rounds", rounds as u64);
        let (sig, ord) = chaos::signature(&hooklogs, &[]);
        out.distinct(sig);
        out.count("conc2_hook_events", ord.len() as u64);
        drop(disp);
    }
    chaos::uninstall();
    out.emit();
}
