//! C05 — a registry span closes exactly once, after its last reference and last child
//! (DESIGN.md 5/C05).  kinds: "hist" sequential multi-thread histories judged by the refcount
//! model (owner default only); "foreign" the same with segments under a different / no default
//! collector (known finding F2); "race" racing last-handle drops / cascades / enter-exit with
//! chaos delays at the sharded.rs hook sites, order-free oracle.
use std::sync::{Arc, Barrier};
use std::time::Instant;
use vcs::Fresh;
use vlib::run::{self, Finish};
use vlib::{chaos, json, Args, ChildSpec, Map, Mode, Out, Rng};

#[path = "../reg_interp.rs"]
mod interp;
use interp::{run_history, Tag, Weights};

const ID: &str = "C05";
const MY: Tag = Tag::C05;

fn main() {
    let args = run::parse_args();
    match args.mode.clone() {
        Mode::Parent => parent(&args),
        Mode::Child(k) if k == "race" => child_race(&args),
        Mode::Child(k) => child_hist(&args, k == "foreign"),
        Mode::Replay(p) => run::replay(ID, &p),
    }
}

fn parent(args: &Args) {
    let t0 = Instant::now();
    let mut out = Out::new();
    let per = args.get_u64("hist", 300);
    let n1 = args.get_u64("shards", args.tier.pick(72, 1440));
    let ends = run::run_children(args, &ChildSpec::new("hist", n1).arg("hist", per).timeout(600), &mut out);
    run::classify_ends(&ends, &mut out, true);
    let n2 = args.get_u64("fshards", args.tier.pick(28, 560));
    let ends = run::run_children(args, &ChildSpec::new("foreign", n2).arg("hist", per).timeout(600), &mut out);
    // a process death in the foreign-default class is attributed to F2 only when it died in
    // the registry's own "no such span" panics (double panic while unwinding)
    for e in &ends {
        if !e.timed_out && e.status != Some(0) && !e.stderr_tail.contains("HARNESS:")
            && (e.stderr_tail.contains("no such span exists") || e.stderr_tail.contains("but no span exists with that ID"))
        {
            out.finding("F2", "Registry::exit / DataInner::clear close through the thread's default collector: under a foreign default the process aborted in the registry's 'no such span' panic", json!({"args": e.args, "stderr_tail": e.stderr_tail}));
        } else {
            run::classify_ends(std::slice::from_ref(e), &mut out, true);
        }
    }
    let n3 = args.get_u64("rshards", args.tier.pick(64, 1280));
    let ends = run::run_children(args, &ChildSpec::new("race", n3).arg("scen", args.get_u64("scen", 320)).timeout(600), &mut out);
    run::classify_ends(&ends, &mut out, true);
    let mut extra = Map::new();
    vlib::sanlayer::run_layers(ID, args, &mut out, &mut extra);
    // thorough: own-default histories and races on a build with the registry's debug assertions live
    run::dbg_build_layer(
        ID,
        args,
        vec![
            ChildSpec::new("hist", args.get_u64("dbg_shards", 360)).arg("hist", per).timeout(900),
            ChildSpec::new("race", args.get_u64("dbg_rshards", 320)).arg("scen", args.get_u64("scen", 320)).timeout(900),
        ],
        &mut out,
        &mut extra,
    );
    run::finish(
        Finish {
            id: ID,
            args,
            t0,
            rule: "histories over span forests in two `Registry + 2 recording layers + ErrorSubscriber` stacks on 1-3 threads (create contextual/root/explicit, clone, drop, enter guards dropped/exited out of order, scoped and duplicate enters, events, Span::current, SpanTrace) judged op by op by a refcount reference model; racing scenarios (last-handle drops, cascades, enter/exit on 2-3 threads) with chaos delays at the registry hook sites judged by order-free facts. \
                   evaluations = operations judged + racing scenarios judged; non-trivial = every judged operation on a live span; \
                   distinct = distinct (operation, relation of span's stack to the thread default, has parent, open children (capped), entered count, handle count, duplicate on thread stack, depth, threads) tuples + distinct interleaving signatures of racing scenarios",
            assumptions: vec![
                "each layer stores a unique serial + canary string in the span's extensions at on_new_span and re-reads it in every later callback".into(),
                "foreign-default steps (exit, or release of a parent, while the thread's default is not the span's own stack) are generated only in the `foreign` class; once such a step ran, later divergences of that history are attributed to known finding F2".into(),
                "racing scenarios demand only order-free facts: exactly one close per layer, data readable in on_close, children before parents in the observed callback order, no panic".into(),
            ],
            min_evals: 50000,
            min_distinct: 300,
            exhaustive: false,
            extra,
        },
        out,
    );
}

fn child_hist(args: &Args, foreign: bool) {
    let n = args.get_u64("hist", 300);
    let only = args.get("only").and_then(|s| s.parse::<u64>().ok());
    let mut out = Out::new();
    let mut fresh = Arc::new(Fresh::new());
    run::quiet_panics();
    for i in 0..n {
        if let Some(o) = only {
            if i != o { continue; }
        }
        let idx = (if foreign { 1u64 << 40 } else { 0 }) + args.shard * 1_000_000 + i;
        if fresh.remaining(1, 0, vcs::Kind::Span) < 6 || fresh.remaining(3, 1, vcs::Kind::Event) < 6 {
            fresh = Arc::new(Fresh::new());
        }
        let o = run_history(args.seed, idx, fresh.clone(), Weights { foreign, c06: false, own_only: false }, 48);
        out.evals += o.trace.len() as u64;
        out.count(if foreign { "histories_with_foreign_default_segments" } else { "histories" }, 1);
        if o.tainted { out.count("histories_tainted_by_a_foreign_default_step", 1); }
        for (k, v) in &o.stats { out.count(k, *v); }
        if o.f28 > 0 {
            out.count("f28_on_exit_after_close_callbacks", o.f28);
            out.finding("F28", "Layered::exit runs the registry's exit before the layers' on_exit: when an exit through the collector API releases the span's last reference, every layer gets on_close first and then an on_exit for a span that is already gone (ctx.span(id) == None; fmt's on_exit would panic on its expect)", json!({"history_index": i, "shard": args.shard, "trace": o.trace}));
        }
        for s in &o.sigs { out.distinct_str(s); }
        if let Some((tag, e)) = o.errors.first() {
            let w = json!({"history_index": i, "shard": args.shard, "class": if foreign { "foreign" } else { "hist" }, "errors": o.errors.iter().map(|(t, e)| format!("{t:?}: {e}")).collect::<Vec<_>>(), "trace": o.trace, "tainted": o.tainted,
                           "replay_hint": "child args + only=<history_index>"});
            if o.tainted {
                out.finding("F2", "Registry::exit / DataInner::clear close through dispatch::get_default: a span exited (or a parent released by a closing child) while the thread's default is a different collector is closed on / leaked by the wrong collector", w);
                // the process-wide state is fine (registries are per history); continue
            } else if *tag == MY || e.contains("panic") {
                out.violation(e.clone(), w);
                break;
            } else {
                out.count("divergences_of_the_sibling_property", 1);
            }
        }
        if out.samples.is_empty() && o.trace.len() > 15 && args.shard == 0 {
            out.sample(json!({"trace": o.trace}));
        }
    }
    out.emit();
}

// ---------------------------------------------------------------------------------------------
// racing scenarios
fn child_race(args: &Args) {
    use tracing::Span;
    use tracing_core::dispatch;
    let nscen = args.get_u64("scen", 320);
    let only = args.get("only").and_then(|s| s.parse::<u64>().ok());
    let mut out = Out::new();
    let mut fresh = Fresh::new();
    chaos::install();
    for s in 0..nscen {
        if let Some(o) = only { if s != o { continue; } }
        if fresh.remaining(1, 0, vcs::Kind::Span) < 8 { fresh = Fresh::new(); }
        let mut rng = Rng::derive(args.seed, 0xC05C + args.shard, s);
        let (disp, log) = interp::mk_stack_pub();
        // build a small forest sequentially
        let nsp = 2 + rng.usize(4);
        let mut spans: Vec<(u64, Option<usize>, Span)> = vec![];
        {
            let _g = dispatch::set_default(&disp);
            for k in 0..nsp {
                let serial = k as u64 + 1;
                let (lv, tg) = (1 + rng.usize(5), rng.usize(4));
                let cs = match fresh.take(lv, tg, vcs::Kind::Span) {
                    Some(c) => c,
                    None => {
                        // callsites are only a source of metadata here: start over with the pool
                        fresh = Fresh::new();
                        fresh.take(lv, tg, vcs::Kind::Span).expect("HARNESS: pool")
                    }
                };
                let parent = if k > 0 && rng.chance(2, 3) { Some(rng.usize(k)) } else { None };
                let sp = match parent {
                    Some(p) => { let _e = spans[p].2.enter(); match (cs.emit)(serial) { vcs::Emitted::Span(s) => s, _ => unreachable!() } }
                    None => match (cs.emit)(serial) { vcs::Emitted::Span(s) => s, _ => unreachable!() },
                };
                spans.push((serial, parent, sp));
            }
        }
        log.entries.lock().unwrap().clear();
        // distribute: every span's handle is cloned 0-2 times; each handle goes to a random thread,
        // which enters/exits it 0-2 times and then drops it
        let nt = 2 + rng.usize(2);
        let mut work: Vec<Vec<(Span, usize, u64)>> = (0..nt).map(|_| vec![]).collect();
        let mut desc = vec![];
        {
            let _g = dispatch::set_default(&disp);
            for (serial, parent, sp) in spans.drain(..) {
                let extra = rng.usize(3);
                for _ in 0..extra {
                    let t = rng.usize(nt);
                    work[t].push((sp.clone(), rng.usize(3), serial));
                }
                let t = rng.usize(nt);
                desc.push(format!("span {serial} parent {:?}: {} handles", parent.map(|p| p + 1), extra + 1));
                work[t].push((sp, rng.usize(3), serial));
            }
        }
        log.entries.lock().unwrap().clear();
        for w in work.iter_mut() { rng.shuffle(w); }
        for (t, w) in work.iter().enumerate() {
            desc.push(format!("T{t}: {:?}", w.iter().map(|x| format!("s{} enter x{}", x.2, x.1)).collect::<Vec<_>>()));
        }
        let parents: Vec<(u64, Option<u64>)> = desc.iter().filter_map(|_| None).collect();
        let _ = parents;
        let intensity = [0u32, 20, 50, 80][rng.usize(4)];
        let barrier = Arc::new(Barrier::new(nt));
        let mut hs = vec![];
        for (t, w) in work.into_iter().enumerate() {
            let disp = disp.clone();
            let barrier = barrier.clone();
            let cseed = rng.next_u64();
            hs.push(std::thread::spawn(move || {
                let _g = dispatch::set_default(&disp);
                chaos::arm(t, cseed, intensity, true);
                barrier.wait();
                for (k, (sp, enters, _)) in w.into_iter().enumerate() {
                    // every fourth handle is entered through the collector API and dropped WHILE
                    // entered: the exit may then be what releases the span's last reference -
                    // racing with the drops of the span's other handles on other threads
                    if (k + t) % 4 == 3 {
                        if let Some(id) = sp.id() {
                            disp.enter(&id);
                            drop(sp);
                            std::hint::spin_loop();
                            disp.exit(&id);
                            continue;
                        }
                    }
                    for _ in 0..enters {
                        let e = sp.enter();
                        std::hint::spin_loop();
                        drop(e);
                    }
                    drop(sp);
                }
                chaos::disarm()
            }));
        }
        let t0 = Instant::now();
        let mut logs = vec![];
        let mut failed = false;
        for (t, h) in hs.into_iter().enumerate() {
            while !h.is_finished() {
                if t0.elapsed().as_secs() > 30 * run::slow_factor() {
                    out.inconclusive(format!("racing scenario {s} of shard {} did not finish in 30 s", args.shard));
                    out.emit();
                    std::process::exit(0);
                }
                std::thread::sleep(std::time::Duration::from_micros(100));
            }
            match h.join() {
                Ok(l) => logs.push((t, l)),
                Err(p) => {
                    out.violation("panic while racing span handle drops / enter-exit on the registry", json!({"panic": run::panic_msg(&p), "scenario": desc, "scenario_index": s, "shard": args.shard}));
                    failed = true;
                }
            }
        }
        if failed { break; }
        out.evals += 1;
        out.count("racing_scenarios", 1);
        // oracle: every span closed exactly once per layer, children before parents, no layer error
        let entries = std::mem::take(&mut *log.entries.lock().unwrap());
        let errs = std::mem::take(&mut *log.errors.lock().unwrap());
        let closes: Vec<(u8, u64)> = entries.iter().filter_map(|e| if let interp::LEv::Close { layer, serial, .. } = e { Some((*layer, *serial)) } else { None }).collect();
        // (an on_exit that arrives after the close callbacks is recorded finding F28: counted)
        let f28n = errs.iter().filter(|(_, e)| e.starts_with("EXIT-AFTER-CLOSE")).count();
        if f28n > 0 {
            out.count("f28_on_exit_after_close_callbacks", f28n as u64);
        }
        let mut problem: Option<String> = errs.iter().find(|(_, e)| !e.starts_with("EXIT-AFTER-CLOSE")).map(|(_, e)| e.clone());
        for serial in 1..=nsp as u64 {
            for layer in 0..2u8 {
                let n = closes.iter().filter(|c| **c == (layer, serial)).count();
                if n != 1 && problem.is_none() {
                    problem = Some(format!("span {serial} was reported closed {n} times to layer {layer} after every handle was dropped (exactly once expected)"));
                }
            }
        }
        // children before parents: parent info from desc is textual; recompute from New entries is gone (cleared) -> use the descriptions
        for d in &desc {
            if let Some(rest) = d.strip_prefix("span ") {
                let mut it = rest.split_whitespace();
                let c: u64 = it.next().unwrap().parse().unwrap();
                let _ = it.next();
                let p = it.next().unwrap();
                if let Some(p) = p.strip_prefix("Some(").and_then(|x| x.strip_suffix("):")).and_then(|x| x.parse::<u64>().ok()) {
                    for layer in 0..2u8 {
                        let pc = closes.iter().position(|x| *x == (layer, c));
                        let pp = closes.iter().position(|x| *x == (layer, p));
                        if let (Some(pc), Some(pp)) = (pc, pp) {
                            if pp < pc && problem.is_none() {
                                problem = Some(format!("parent span {p} was reported closed before its child {c} (layer {layer})"));
                            }
                        }
                    }
                }
            }
        }
        if let Some(p) = problem {
            let (_, ord) = chaos::signature(&logs, &[]);
            out.violation(p, json!({"interleaving": ord.iter().map(|(t, s)| format!("T{t}:{}", chaos::site_name(*s))).collect::<Vec<_>>(), "scenario": desc, "closes_in_observed_order": format!("{closes:?}"), "scenario_index": s, "shard": args.shard, "chaos_intensity": intensity}));
            break;
        }
        let active = logs.iter().filter(|(_, l)| !l.is_empty()).count();
        let (sig, ord) = chaos::signature(&logs, &[]);
        if active >= 2 {
            out.distinct(sig);
            for (a, b) in chaos::pair_orders(&ord) {
                out.set("registry_site_pair_orders", format!("{}<{}", chaos::site_name(a), chaos::site_name(b)));
            }
        }
        out.count("race_hook_events", ord.len() as u64);
        if out.samples.is_empty() && args.shard == 0 && ord.len() > 10 {
            out.sample(json!({"racing_scenario": desc, "interleaving": ord.iter().map(|(t, s)| format!("T{t}:{}", chaos::site_name(*s))).collect::<Vec<_>>()}));
        }
        drop(disp);
    }
    chaos::uninstall();
    out.emit();
}
