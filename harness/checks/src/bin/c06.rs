//! C06 — current span, parent and scope mirror each thread's enter/exit history
//! (DESIGN.md 5/C06).  Same registry interpreter as C05, weighted toward enter/exit sequences,
//! events, Span::current and SpanTrace captures; judges the C06 clauses.
use std::sync::Arc;
use std::time::Instant;
use vcs::Fresh;
use vlib::run::{self, Finish};
use vlib::{json, Args, ChildSpec, Map, Mode, Out};

#[path = "../reg_interp.rs"]
mod interp;
use interp::{run_history, Tag, Weights};

const ID: &str = "C06";
const MY: Tag = Tag::C06;

fn main() {
    let args = run::parse_args();
    match args.mode.clone() {
        Mode::Parent => parent(&args),
        Mode::Child(k) if k == "trace" => child_trace(&args),
        Mode::Child(k) => child(&args, k == "nested"),
        Mode::Replay(p) => run::replay(ID, &p),
    }
}

fn parent(args: &Args) {
    let t0 = Instant::now();
    let mut out = Out::new();
    let n = args.get_u64("shards", args.tier.pick(80, 2000));
    let ends = run::run_children(args, &ChildSpec::new("hist", n).arg("hist", args.get_u64("hist", 300)).timeout(600), &mut out);
    run::classify_ends(&ends, &mut out, true);
    // two registries alternating as the default of the same threads (nested `with_default`),
    // each operation touching only the registry that is the default at that moment
    let n3 = args.get_u64("tshards", args.tier.pick(16, 160));
    let ends = run::run_children(args, &ChildSpec::new("trace", n3).arg("rounds", args.get_u64("rounds", 40)).timeout(600), &mut out);
    run::classify_ends(&ends, &mut out, true);
    let n2 = args.get_u64("nshards", args.tier.pick(32, 800));
    let ends = run::run_children(args, &ChildSpec::new("nested", n2).arg("hist", args.get_u64("hist", 300)).timeout(600), &mut out);
    run::classify_ends(&ends, &mut out, true);
    let mut extra = Map::new();
    vlib::sanlayer::run_layers(ID, args, &mut out, &mut extra);
    run::dbg_build_layer(ID, args, vec![ChildSpec::new("hist", args.get_u64("dbg_shards", 500)).arg("hist", args.get_u64("hist", 300)).timeout(900)], &mut out, &mut extra);
    run::finish(
        Finish {
            id: ID,
            args,
            t0,
            rule: "per-thread enter/exit histories over span forests (out-of-order guard exits, the same span entered on several threads, scoped and duplicate enters) on 1-3 threads in a `Registry + 2 recording layers + ErrorSubscriber` stack, with span creation (contextual / explicit / root), events, Span::current and SpanTrace captures at every point; judged against a per-thread stack model + forest model: lookup_current / Span::current / collector current_span, contextual and explicit parents, scope() leaf->root and from_root(), SpanTrace chains with metadata and fields. \
                   evaluations = operations judged; non-trivial = every judged operation; distinct = distinct (operation, has parent, open children (capped), entered count, handle count, duplicate-on-thread-stack, depth, threads) tuples",
            assumptions: vec![
                "every 'current'-dependent clause is skipped while the model stack of that thread holds a duplicate entry of a span (the property excludes exactly that); the parent observed by layer 0 is then adopted by the model".into(),
                "in the main class all threads keep the owning stack as default; in the `nested` class two registries alternate as the default of the same threads (nested with_default blocks) but every operation touches only handles, guards and traces of the registry that is the default at that moment and a block exits what it entered before it ends - no step closes a span through another collector (that is C05's F2 business)".into(),
            ],
            min_evals: 100000,
            min_distinct: 150,
            exhaustive: false,
            extra,
        },
        out,
    );
}

/// SpanTrace chains read while another thread records on a span of the chain.  Stack: Registry +
/// fmt subscriber + ErrorSubscriber (they share the span's `FormattedFields`).  Thread A captures
/// a SpanTrace inside nested spans and walks it; inside the callback for one span it lets thread
/// B record a long value on that span (which makes fmt re-allocate the stored field text) and
/// waits a bounded number of yields.  What the callback was handed (`&Metadata`, `&str`) must
/// read the same before and after; the walk must list the chain leaf -> root.  Natively a stale
/// `&str` often still reads the old bytes - the Miri / ASan layers over this kind report it.
fn child_trace(args: &Args) {
    use std::sync::atomic::{AtomicUsize, Ordering};
    use tracing_error::{ErrorSubscriber, SpanTrace};
    use tracing_subscriber::prelude::*;
    let rounds = args.get_u64("rounds", 40);
    let mut out = Out::new();
    for r in 0..rounds {
        let mut rng = vlib::Rng::derive(args.seed ^ 0x7ACE, args.shard, r);
        let depth = 1 + rng.usize(3);
        let victim = rng.usize(depth);
        let d = tracing_core::Dispatch::new(
            tracing_subscriber::registry()
                .with(tracing_subscriber::fmt::subscriber().with_ansi(false).with_writer(std::io::sink))
                .with(ErrorSubscriber::default()),
        );
        // phase: 0 idle, 1 = callback reached the victim span, 2 = recorder done
        let phase = AtomicUsize::new(0);
        let spans: Vec<tracing::Span> = tracing::dispatch::with_default(&d, || {
            let mut v: Vec<tracing::Span> = vec![];
            for k in 0..depth {
                let parent = v.last().cloned();
                let s = match parent {
                    Some(p) => tracing::info_span!(parent: &p, "chain", k = k as u64, late = tracing::field::Empty),
                    None => tracing::info_span!("chain", k = k as u64, late = tracing::field::Empty),
                };
                v.push(s);
            }
            v
        });
        let mut problems: Vec<String> = vec![];
        std::thread::scope(|sc| {
            let recorder = sc.spawn(|| {
                // bounded wait for the walker to reach the victim
                for _ in 0..200_000 {
                    if phase.load(Ordering::SeqCst) == 1 {
                        break;
                    }
                    std::thread::yield_now();
                }
                spans[victim].record("late", "a value that is long enough to make the stored field text grow beyond its current allocation, twice over if need be");
                phase.store(2, Ordering::SeqCst);
            });
            let _g = tracing::dispatch::set_default(&d);
            let leaf = spans[depth - 1].clone();
            let trace = leaf.in_scope(SpanTrace::capture);
            let mut listed: Vec<u64> = vec![];
            trace.with_spans(|meta, fields| {
                let k: u64 = fields.strip_prefix("k=").and_then(|x| x.split_whitespace().next()).and_then(|x| x.parse().ok()).unwrap_or(u64::MAX);
                listed.push(k);
                if k == victim as u64 {
                    let before = (meta.name().to_string(), fields.to_string());
                    phase.store(1, Ordering::SeqCst);
                    // bounded: on a build that keeps the span's data locked during the callback
                    // the recorder can only finish after the callback has returned
                    for _ in 0..2_000 {
                        if phase.load(Ordering::SeqCst) == 2 {
                            break;
                        }
                        std::thread::yield_now();
                    }
                    let after = (meta.name().to_string(), fields.to_string());
                    if before != after {
                        problems.push(format!("the text handed to the with_spans callback changed while the callback was running: {before:?} -> {after:?}"));
                    }
                    if phase.load(Ordering::SeqCst) == 2 {
                        out.count("trace_walks_overlapped_by_a_completed_record", 1);
                    }
                }
                true
            });
            let want: Vec<u64> = (0..depth as u64).rev().collect();
            if listed != want {
                problems.push(format!("SpanTrace lists spans {listed:?}, the chain leaf->root is {want:?}"));
            }
            phase.store(1, Ordering::SeqCst);
            recorder.join().expect("HARNESS: recorder panicked");
        });
        out.evals += 1;
        out.count("trace_walks_with_a_concurrent_record", 1);
        out.distinct_str(&format!("trace|d{depth}|v{victim}"));
        if let Some(p) = problems.first() {
            out.violation(p.clone(), json!({"part": "trace", "round": r, "shard": args.shard, "depth": depth, "victim": victim, "problems": problems}));
            break;
        }
    }
    out.emit();
}

fn child(args: &Args, nested: bool) {
    let n = args.get_u64("hist", 300);
    let only = args.get("only").and_then(|s| s.parse::<u64>().ok());
    let mut out = Out::new();
    let mut fresh = Arc::new(Fresh::new());
    run::quiet_panics();
    for i in 0..n {
        if let Some(o) = only {
            if i != o { continue; }
        }
        let idx = ((if nested { 3u64 } else { 2u64 }) << 40) + args.shard * 1_000_000 + i;
        if fresh.remaining(1, 0, vcs::Kind::Span) < 6 || fresh.remaining(3, 1, vcs::Kind::Event) < 6 {
            fresh = Arc::new(Fresh::new());
        }
        let o = run_history(args.seed, idx, fresh.clone(), Weights { foreign: nested, c06: true, own_only: nested }, 64);
        out.evals += o.trace.len() as u64;
        out.count(if nested { "histories_with_two_registries_on_the_same_threads" } else { "histories" }, 1);
        if o.tainted {
            out.harness_errors.push(format!("HARNESS: nested-registry history {i} of shard {} ran a foreign-default step", args.shard));
        }
        for (k, v) in &o.stats { out.count(k, *v); }
        if o.f28 > 0 {
            out.count("f28_on_exit_after_close_callbacks", o.f28);
        }
        for s in &o.sigs { out.distinct_str(s); }
        if let Some((tag, e)) = o.errors.first() {
            if *tag == MY || e.contains("panic") {
                out.violation(e.clone(), json!({"history_index": i, "shard": args.shard, "errors": o.errors.iter().map(|(t, e)| format!("{t:?}: {e}")).collect::<Vec<_>>(), "trace": o.trace,
                                               "replay_hint": "child args + only=<history_index>"}));
                break;
            } else {
                out.count("divergences_of_the_sibling_property", 1);
            }
        }
        if out.samples.is_empty() && o.trace.len() > 15 && args.shard == 0 {
            out.sample(json!({"trace": o.trace}));
        }
    }
    out.emit();
}
