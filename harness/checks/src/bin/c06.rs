//! C06 — current span, parent and scope mirror each thread's enter/exit history
//! (DESIGN.md 5/C06).  Same registry interpreter as C05, weighted toward enter/exit sequences,
//! events, Span::current and SpanTrace captures; judges the C06 clauses.
use std::sync::Arc;
use std::time::Instant;
use vcs::Fresh;
use vlib::run::{self, Finish};
use vlib::{json, Args, ChildSpec, Map, Mode, Out};

#[path = "../reg_interp.rs"]
mod interp;
use interp::{run_history, Tag, Weights};

const ID: &str = "C06";
const MY: Tag = Tag::C06;

fn main() {
    let args = run::parse_args();
    match args.mode.clone() {
        Mode::Parent => parent(&args),
        Mode::Child(k) => child(&args, k == "nested"),
        Mode::Replay(p) => run::replay(ID, &p),
    }
}

fn parent(args: &Args) {
    let t0 = Instant::now();
    let mut out = Out::new();
    let n = args.get_u64("shards", args.tier.pick(80, 2000));
    let ends = run::run_children(args, &ChildSpec::new("hist", n).arg("hist", args.get_u64("hist", 300)).timeout(600), &mut out);
    run::classify_ends(&ends, &mut out, true);
    // two registries alternating as the default of the same threads (nested `with_default`),
    // each operation touching only the registry that is the default at that moment
    let n2 = args.get_u64("nshards", args.tier.pick(32, 800));
    let ends = run::run_children(args, &ChildSpec::new("nested", n2).arg("hist", args.get_u64("hist", 300)).timeout(600), &mut out);
    run::classify_ends(&ends, &mut out, true);
    let mut extra = Map::new();
    vlib::sanlayer::run_layers(ID, args, &mut out, &mut extra);
    run::dbg_build_layer(ID, args, vec![ChildSpec::new("hist", args.get_u64("dbg_shards", 500)).arg("hist", args.get_u64("hist", 300)).timeout(900)], &mut out, &mut extra);
    run::finish(
        Finish {
            id: ID,
            args,
            t0,
            rule: "per-thread enter/exit histories over span forests (out-of-order guard exits, the same span entered on several threads, scoped and duplicate enters) on 1-3 threads in a `Registry + 2 recording layers + ErrorSubscriber` stack, with span creation (contextual / explicit / root), events, Span::current and SpanTrace captures at every point; judged against a per-thread stack model + forest model: lookup_current / Span::current / collector current_span, contextual and explicit parents, scope() leaf->root and from_root(), SpanTrace chains with metadata and fields. \
                   evaluations = operations judged; non-trivial = every judged operation; distinct = distinct (operation, has parent, open children (capped), entered count, handle count, duplicate-on-thread-stack, depth, threads) tuples",
            assumptions: vec![
                "every 'current'-dependent clause is skipped while the model stack of that thread holds a duplicate entry of a span (the property excludes exactly that); the parent observed by layer 0 is then adopted by the model".into(),
                "in the main class all threads keep the owning stack as default; in the `nested` class two registries alternate as the default of the same threads (nested with_default blocks) but every operation touches only handles, guards and traces of the registry that is the default at that moment and a block exits what it entered before it ends - no step closes a span through another collector (that is C05's F2 business)".into(),
            ],
            min_evals: 100000,
            min_distinct: 150,
            exhaustive: false,
            extra,
        },
        out,
    );
}

fn child(args: &Args, nested: bool) {
    let n = args.get_u64("hist", 300);
    let only = args.get("only").and_then(|s| s.parse::<u64>().ok());
    let mut out = Out::new();
    let mut fresh = Arc::new(Fresh::new());
    run::quiet_panics();
    for i in 0..n {
        if let Some(o) = only {
            if i != o { continue; }
        }
        let idx = ((if nested { 3u64 } else { 2u64 }) << 40) + args.shard * 1_000_000 + i;
        if fresh.remaining(1, 0, vcs::Kind::Span) < 6 || fresh.remaining(3, 1, vcs::Kind::Event) < 6 {
            fresh = Arc::new(Fresh::new());
        }
        let o = run_history(args.seed, idx, fresh.clone(), Weights { foreign: nested, c06: true, own_only: nested }, 64);
        out.evals += o.trace.len() as u64;
        out.count(if nested { "histories_with_two_registries_on_the_same_threads" } else { "histories" }, 1);
        if o.tainted {
            out.harness_errors.push(format!("HARNESS: nested-registry history {i} of shard {} ran a foreign-default step", args.shard));
        }
        for (k, v) in &o.stats { out.count(k, *v); }
        if o.f28 > 0 {
            out.count("f28_on_exit_after_close_callbacks", o.f28);
        }
        for s in &o.sigs { out.distinct_str(s); }
        if let Some((tag, e)) = o.errors.first() {
            if *tag == MY || e.contains("panic") {
                out.violation(e.clone(), json!({"history_index": i, "shard": args.shard, "errors": o.errors.iter().map(|(t, e)| format!("{t:?}: {e}")).collect::<Vec<_>>(), "trace": o.trace,
                                               "replay_hint": "child args + only=<history_index>"}));
                break;
            } else {
                out.count("divergences_of_the_sibling_property", 1);
            }
        }
        if out.samples.is_empty() && o.trace.len() > 15 && args.shard == 0 {
            out.sample(json!({"trace": o.trace}));
        }
    }
    out.emit();
}
