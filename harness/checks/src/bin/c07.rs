//! C07 — per-layer filters are isolated: a layer sees exactly what its own filters accept
//! (DESIGN.md 5/C07).  Generated stack specs -> real stacks (tree-shaped through
//! `Box<dyn Subscribe<Registry>>` + `and_then` / `Vec` / `Option` / `Box`, list-shaped through a
//! ladder of `Layered<Box<dyn Subscribe<Cn>>, Cn>` types) x histories through the real macros
//! (spans create/enter/exit/record/close, contextual events, `enabled!` probes, `log_enabled!`
//! probes through a `LogTracer`) on two threads with one or two stacks.  Oracle: an independent
//! reference evaluator of every filter over (metadata, spans visible to THAT filter), expected
//! per-layer logs compared after every operation, including `lookup_current()` / scopes inside
//! the callbacks.  Known finding F3 is matched under its narrow signature only.

use std::cell::RefCell;
use std::collections::{BTreeMap, HashMap};
use std::sync::{Arc, Mutex};
use std::time::Instant;
use tracing::span::EnteredSpan;
use tracing::Span;
use tracing_core::collect::Interest;
use tracing_core::dispatch::{self, DefaultGuard, Dispatch};
use tracing_core::field::{Field, Visit};
use tracing_core::span::{Attributes, Id, Record};
use tracing_core::{Collect, Event, LevelFilter, Metadata};
use tracing_log::LogTracer;
use tracing_subscriber::filter::{dynamic_filter_fn, filter_fn, EnvFilter, FilterExt, Targets};
use tracing_subscriber::registry::{LookupSpan, Registry, SpanRef};
use tracing_subscriber::subscribe::{CollectExt, Context, Filter, Layered, Subscribe};
use vcs::{Cs, Emitted, Fresh, Kind, TARGETS};
use vlib::exec::Workers;
use vlib::run::{self, Finish};
use vlib::{json, Args, ChildSpec, Map, Mode, Out, Rng, Value};

const ID: &str = "C07";

include!("../c07_spec.rs");
include!("../c07_run.rs");

fn main() {
    let args = run::parse_args();
    match args.mode.clone() {
        Mode::Parent => parent(&args),
        Mode::Child(_) => child(&args),
        Mode::Replay(p) => run::replay(ID, &p),
    }
}

fn parent(args: &Args) {
    let t0 = Instant::now();
    let mut out = Out::new();
    let shards = args.get_u64("shards", args.tier.pick(2048, 24576));
    let hist = args.get_u64("hist", 50);
    let ends = run::run_children(args, &ChildSpec::new("hist", shards).arg("hist", hist).timeout(900), &mut out);
    run::classify_ends(&ends, &mut out, true);
    let mut extra = Map::new();
    vlib::sanlayer::run_layers(ID, args, &mut out, &mut extra);
    // the same workload on a build with the repository's debug assertions live (FilterState
    // carries debug counters that turn a leaked filter bit into a panic)
    if let Ok(p) = std::env::var("VERIF_C07_DBG_BIN") {
        let mut dbg = Out::new();
        let dshards = args.get_u64("dbg_shards", args.tier.pick(256, 4096));
        let mut dspec = ChildSpec::new("hist", dshards).arg("hist", hist).arg("dbg", 1).timeout(1800);
        dspec.exe = Some(std::path::PathBuf::from(&p));
        let ends = run::run_children(args, &dspec, &mut dbg);
        run::classify_ends(&ends, &mut dbg, true);
        extra.insert("debug_assertion_build".into(), json!({"binary": p, "evaluations": dbg.evals, "distinct": dbg.distinct.len(), "counters": dbg.counters}));
        let v = dbg.to_json();
        let evals = out.evals + dbg.evals;
        out.merge_json(&json!({"viols": v["viols"], "known": v["known"], "inconclusive": v["inconclusive"], "harness_errors": v["harness_errors"]}));
        out.evals = evals;
        for h in dbg.distinct {
            out.distinct.insert(h ^ 0x0dbd_0dbd);
        }
    }
    // F3 witnesses, one per path (kept out of the generic sets)
    let mut wit = Map::new();
    for k in ["enabled_probe", "log_enabled_probe", "event_enabled_veto"] {
        if let Some(s) = out.sets.remove(&format!("f3_witness_{k}")) {
            if let Some(first) = s.iter().next() {
                wit.insert(k.to_string(), serde_json::from_str::<Value>(first).unwrap_or(Value::Null));
            }
        }
    }
    extra.insert("f3_witnesses_by_path".into(), Value::Object(wit));
    run::finish(
        Finish {
            id: ID,
            args,
            t0,
            rule: "stack specs {plain recording layers, global filter layers at top-level positions (LevelFilter, Targets, FilterFn, DynFilterFn, static EnvFilter, an event_enabled-vetoing layer), Filtered layers whose filters are level / targets / static env directives / filter_fn / dynamic_filter_fn (context-free and 'only inside a span with property P that I can see') / and-or-not to depth 2, nested Filtered, and_then, Vec, Option, Box} built tree-shaped or list-shaped (type ladder to depth 5); one stack on two threads or two stacks on two threads; 40-80-op histories over fresh and reused callsites. \
                   evaluations = operations judged (every emission, probe and span follow-up: the complete per-layer callback log incl. lookup_current()/scope is compared with the reference evaluator); \
                   non-trivial = emissions for which the layers of one stack disagree (at least one must receive and at least one must not) and span follow-ups delivered to a strict subset of the layers; \
                   distinct = distinct (stack shape with filter kinds, emission kind, receiver bitmap, cached-always vs enabled-pass, number of stacks, entered-span depth) tuples among those",
            assumptions: vec![
                "global filters appear only at top-level positions (and_then / Box / Some at the root, list elements), never inside Filtered or Vec".into(),
                "EnvFilter values use static directives only; filters with a custom event_enabled are not generated (the event_enabled-vetoing global layer is a separately counted stack class)".into(),
                "every span handle is used only on threads whose default is the stack that owns it (exits under a foreign default are finding F2 / C05)".into(),
                "a span is never entered twice on one thread (duplicate entries are excluded by C06's property text)".into(),
                "close notifications are judged for WHO receives them and exactly-once at the end of the history; WHEN a span closes is C05's".into(),
                "whether a span handle is enabled is taken from the returned handle (interest summaries are C08's); who receives it is judged".into(),
                "F3 signature as implemented (observed at the API boundary through transparent recording wrappers around every per-layer filter and global filter): layer i misses exactly the first emission that reaches the collector on that thread after a dispatcher interaction in which one of i's filters answered reject and which ended before on_event/on_new_span (enabled!/log_enabled! probe, or an event a global layer's event_enabled vetoed) while no global filter answered reject in that pass; the missed emission ran no `enabled` pass (cached interest always); span enter/exit/record/drop operations and emissions that never reach the collector in between are not emissions in this sense. A span created in that state is stored as rejected by those filters, so its later enter/exit/record/close and its place in lookups are missed too (model follows the observation); if no recording layer sits under the filter the same is counted from the filter's own later answers".into(),
                "F3b (listed separately in known_findings.json): the same, but the reject stems from an EARLIER interaction and survived only because the filter is nested inside another Filtered whose reject cut every enabled pass since short and skipped its did_enable; any other surviving effect is a VIOLATION".into(),
                "emissions dropped before dispatch because their level is above LevelFilter::current() although a layer must receive them are reported under the ids of the repaired defects F24 (and_then tree, no None layer) / F26 (a None layer in a live stack); both are unlisted, so a recurrence is a VIOLATION".into(),
            ],
            min_evals: args.tier.pick(1_500_000, 20_000_000),
            min_distinct: args.tier.pick(60_000, 300_000),
            exhaustive: false,
            extra,
        },
        out,
    );
}
