//! C01 — caches never change what a collector's own filter decides (DESIGN.md 5/C01)
const CAP: usize = 5; // no compile-time level cap in this build
const CAP_BUILD: bool = false;
include!("../c01_body.rs");
