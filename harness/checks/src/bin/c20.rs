//! C20 — the default timestamp is the correct UTC calendar time for every instant
//! (DESIGN.md 5/C20).
//!
//! Drive: caller-supplied `SystemTime`s through hook 4
//! (`tracing_subscriber::fmt::time::verif_format_system_time`, the body of
//! `<SystemTime as FormatTime>::format_time` with the instant supplied).
//! Observe: the string written.  Oracle: `vlib::civil` (Hinnant, i128) for every instant;
//! inside years 0001..=9999 additionally the `time` crate and, in the day sweep, a plain
//! day-by-day calendar counter.  The three oracles must agree with each other (a
//! disagreement is a HARNESS failure, never a violation).
//!
//! Child kinds:
//!   sweep  — every day 0001-01-01 ..= 9999-12-31 at three times of day (shard = day range)
//!   win    — every second of a ±2-day window around one boundary instant (shard = anchor)
//!   edge   — hand-picked instants: extremes of SystemTime, powers of two, day multiples
//!   rnd    — random instants over the whole SystemTime range, in sorted batches
//!   single — one instant (or an ordered pair) given as secs=/nanos= (replay of a witness)

use std::fmt::Write as _;
use std::panic::{catch_unwind, AssertUnwindSafe};
use std::sync::atomic::{AtomicUsize, Ordering};
use std::time::{Duration, Instant, SystemTime, UNIX_EPOCH};
use tracing_subscriber::fmt::time::verif_format_system_time;
use vlib::civil::{self, Civil};
use vlib::run::{self, Finish, Tier, MAX_VIOLS};
use vlib::{json, Args, ChildSpec, Map, Mode, Out, Rng, Value};

const ID: &str = "C20";
const DAY: i128 = 86_400;
const NS: u32 = 1_000_000_000;
/// times of day of the complete sweep: 00:00:00.0, 12:34:56.789012345, 23:59:59.999999999
const TIMES: [(u32, u32); 3] = [(0, 0), (12 * 3600 + 34 * 60 + 56, 789_012_345), (86_399, 999_999_999)];
const SWEEP_SHARDS: u64 = 32;
const RND_PER_SHARD: u64 = 625_000;

fn main() {
    let args = run::parse_args();
    match args.mode.clone() {
        Mode::Parent => parent(&args),
        Mode::Child(kind) => child(&args, &kind),
        Mode::Replay(p) => run::replay(ID, &p),
    }
}

// ------------------------------------------------------------------------------------
// instants, the platform's SystemTime range
// ------------------------------------------------------------------------------------

/// The instant `secs + nanos/1e9` seconds after the unix epoch, 0 <= nanos < 1e9 (so for
/// instants before 1970 `secs` is the floor).  Derived ordering = time order.
#[derive(Clone, Copy, Debug, PartialEq, Eq, PartialOrd, Ord)]
struct Inst {
    secs: i128,
    nanos: u32,
}

/// What a printed timestamp says, as numbers.  Derived ordering = lexicographic on
/// (year, month, day, h, m, s, µs), the order the property speaks about.
#[derive(Clone, Copy, Debug, PartialEq, Eq, PartialOrd, Ord)]
struct Fields {
    year: i128,
    month: u32,
    day: u32,
    hour: u32,
    minute: u32,
    second: u32,
    micros: u32,
}

#[derive(Clone, Copy, Debug)]
struct Range {
    lo: Inst,
    hi: Inst,
}

/// largest x in [0, max] with ok(x), given ok(0) and monotone ok
fn bsearch_max(max: u64, ok: impl Fn(u64) -> bool) -> u64 {
    assert!(ok(0), "HARNESS: probe: 0 does not fit");
    if ok(max) {
        return max;
    }
    let (mut lo, mut hi) = (0u64, max); // ok(lo), !ok(hi)
    while hi - lo > 1 {
        let mid = lo + (hi - lo) / 2;
        if ok(mid) {
            lo = mid
        } else {
            hi = mid
        }
    }
    lo
}

/// Real minimum / maximum of `SystemTime` on this platform, found by probing
/// `checked_add` / `checked_sub`.
fn probe_range() -> Range {
    let add = |s: u64, n: u32| UNIX_EPOCH.checked_add(Duration::new(s, n)).is_some();
    let sub = |s: u64, n: u32| UNIX_EPOCH.checked_sub(Duration::new(s, n)).is_some();
    let smax = bsearch_max(u64::MAX, |s| add(s, 0));
    let nmax = bsearch_max((NS - 1) as u64, |n| add(smax, n as u32)) as u32;
    let smin = bsearch_max(u64::MAX, |s| sub(s, 0));
    let nmin = bsearch_max((NS - 1) as u64, |n| sub(smin, n as u32)) as u32;
    let lo = if nmin == 0 {
        Inst { secs: -(smin as i128), nanos: 0 }
    } else {
        Inst { secs: -(smin as i128) - 1, nanos: NS - nmin }
    };
    let r = Range { lo, hi: Inst { secs: smax as i128, nanos: nmax } };
    // the binary search assumed monotonicity; spot-check it
    assert!(!add(smax.saturating_add(1), 0) || smax == u64::MAX, "HARNESS: probe (add) not monotone");
    assert!(add(smax / 2, 0) && sub(smin / 2, 0), "HARNESS: probe not monotone");
    r
}

/// Build the `SystemTime` of an instant.  Instants before the epoch are built with
/// `UNIX_EPOCH - Duration` in one of two ways (`two_step`: subtract whole seconds, then
/// add the nanoseconds).  The result is verified through `duration_since`.
fn build(i: Inst, two_step: bool) -> (SystemTime, &'static str) {
    assert!(i.nanos < NS, "HARNESS: nanos out of range");
    let (t, how) = if i.secs >= 0 {
        let s = u64::try_from(i.secs).expect("HARNESS: secs does not fit u64");
        (UNIX_EPOCH.checked_add(Duration::new(s, i.nanos)), "UNIX_EPOCH + Duration::new(secs, nanos)")
    } else {
        let a = u64::try_from(-i.secs).expect("HARNESS: -secs does not fit u64");
        if i.nanos == 0 {
            (UNIX_EPOCH.checked_sub(Duration::new(a, 0)), "UNIX_EPOCH - Duration::new(-secs, 0)")
        } else if two_step {
            (
                UNIX_EPOCH
                    .checked_sub(Duration::new(a, 0))
                    .and_then(|t| t.checked_add(Duration::new(0, i.nanos))),
                "(UNIX_EPOCH - Duration::new(-secs, 0)) + Duration::new(0, nanos)",
            )
        } else {
            (
                UNIX_EPOCH.checked_sub(Duration::new(a - 1, NS - i.nanos)),
                "UNIX_EPOCH - Duration::new(-secs - 1, 1e9 - nanos)",
            )
        }
    };
    let t = t.unwrap_or_else(|| panic!("HARNESS: instant {i:?} is outside SystemTime ({how})"));
    // is it the instant we meant?  (std API only)
    let back = match t.duration_since(UNIX_EPOCH) {
        Ok(d) => Inst { secs: d.as_secs() as i128, nanos: d.subsec_nanos() },
        Err(e) => {
            let d = e.duration();
            if d.subsec_nanos() == 0 {
                Inst { secs: -(d.as_secs() as i128), nanos: 0 }
            } else {
                Inst { secs: -(d.as_secs() as i128) - 1, nanos: NS - d.subsec_nanos() }
            }
        }
    };
    assert!(back == i, "HARNESS: built {back:?} instead of {i:?} ({how})");
    (t, how)
}

// ------------------------------------------------------------------------------------
// reading a printed timestamp
// ------------------------------------------------------------------------------------

fn two(b: &[u8]) -> Option<u32> {
    if b.len() == 2 && b[0].is_ascii_digit() && b[1].is_ascii_digit() {
        Some((b[0] - b'0') as u32 * 10 + (b[1] - b'0') as u32)
    } else {
        None
    }
}

/// Parse `<year>-MM-DDTHH:MM:SS.ffffffZ`.  Everything after the year is fixed-width and
/// read strictly; the year is an optional sign followed by one or more digits (padding and
/// sign style are judged elsewhere, and only for years 0000..=9999).
fn parse(s: &str) -> Result<Fields, String> {
    if !s.is_ascii() {
        return Err("not ASCII".into());
    }
    let b = s.as_bytes();
    if b.len() < 24 {
        return Err(format!("too short ({} bytes)", b.len()));
    }
    let (yp, t) = b.split_at(b.len() - 23);
    for (pos, ch) in [(0, b'-'), (3, b'-'), (6, b'T'), (9, b':'), (12, b':'), (15, b'.'), (22, b'Z')] {
        if t[pos] != ch {
            return Err(format!(
                "expected '{}' at offset {} from the end, found '{}'",
                ch as char,
                23 - pos,
                t[pos] as char
            ));
        }
    }
    let f = |a: usize, name: &str| two(&t[a..a + 2]).ok_or_else(|| format!("{name} is not two digits"));
    let (month, day, hour, minute, second) = (f(1, "month")?, f(4, "day")?, f(7, "hour")?, f(10, "minute")?, f(13, "second")?);
    let mut micros = 0u32;
    for &c in &t[16..22] {
        if !c.is_ascii_digit() {
            return Err("fraction is not six digits".into());
        }
        micros = micros * 10 + (c - b'0') as u32;
    }
    let (neg, digits) = match yp.first() {
        Some(b'+') => (false, &yp[1..]),
        Some(b'-') => (true, &yp[1..]),
        _ => (false, yp),
    };
    if digits.is_empty() || digits.len() > 30 || !digits.iter().all(|c| c.is_ascii_digit()) {
        return Err(format!("year part {:?} is not [sign] digits", String::from_utf8_lossy(yp)));
    }
    let mut year: i128 = 0;
    for &c in digits {
        year = year * 10 + (c - b'0') as i128;
    }
    if neg {
        year = -year;
    }
    Ok(Fields { year, month, day, hour, minute, second, micros })
}

// ------------------------------------------------------------------------------------
// the monitor
// ------------------------------------------------------------------------------------

macro_rules! counters {
    ($($n:ident),* $(,)?) => {
        #[derive(Default)]
        struct Cnt { $($n: u64),* }
        impl Cnt {
            fn flush(&self, out: &mut Out) {
                $( if self.$n > 0 { out.count(stringify!($n), self.$n); } )*
            }
        }
    };
}
counters!(
    conversions,
    year_0000_9999_exact_string,
    year_above_9999_fields_only,
    year_below_0000_fields_only,
    expanded_year_style_as_in_repo_tests,
    expanded_year_style_other,
    second_opinion_time_crate,
    before_1970_whole_second,
    before_1970_with_subsecond,
    from_1970_on,
    built_one_step_sub,
    built_two_step_sub,
    feb29_instants,
    feb29_of_400_year,
    dec31_instants,
    jan1_instants,
    mar1_instants,
    nanos_zero,
    nanos_fraction_at_least_half_microsecond,
    nanos_999999xxx,
    ordered_pairs_checked,
    ordered_pairs_strictly_increasing,
    ordered_pairs_same_text,
    at_range_minimum,
    at_range_maximum,
    panics_in_formatter,
    sweep_days,
    window_seconds,
);

struct Mon {
    out: Out,
    n: Cnt,
    tag: u64,
    seed: u64,
    tier: &'static str,
    range: Range,
    obs: String,
    exp: String,
    prev: Option<(Inst, Fields)>,
    prev_obs: String,
    last_key: u64,
    force_two_step: Option<bool>,
}

fn mix(mut z: u64) -> u64 {
    z = (z ^ (z >> 30)).wrapping_mul(0xBF58_476D_1CE4_E5B9);
    z = (z ^ (z >> 27)).wrapping_mul(0x94D0_49BB_1331_11EB);
    z ^ (z >> 31)
}

fn leap_class(y: i128) -> &'static str {
    if y.rem_euclid(400) == 0 {
        "400-year"
    } else if y.rem_euclid(100) == 0 {
        "century"
    } else if y.rem_euclid(4) == 0 {
        "leap"
    } else {
        "non-leap"
    }
}

fn time_crate(i: Inst) -> Option<(Fields, u32)> {
    let total = i.secs.checked_mul(NS as i128)?.checked_add(i.nanos as i128)?;
    let dt = time::OffsetDateTime::from_unix_timestamp_nanos(total).ok()?;
    Some((
        Fields {
            year: dt.year() as i128,
            month: u8::from(dt.month()) as u32,
            day: dt.day() as u32,
            hour: dt.hour() as u32,
            minute: dt.minute() as u32,
            second: dt.second() as u32,
            micros: dt.microsecond(),
        },
        dt.nanosecond(),
    ))
}

fn fields_json(f: &Fields) -> Value {
    json!({"year": f.year.to_string(), "month": f.month, "day": f.day, "hour": f.hour,
           "minute": f.minute, "second": f.second, "micros": f.micros})
}

impl Mon {
    fn new(args: &Args, tag: u64) -> Mon {
        Mon {
            out: Out::new(),
            n: Cnt::default(),
            tag,
            seed: args.seed,
            tier: args.tier.name(),
            range: probe_range(),
            obs: String::with_capacity(64),
            exp: String::with_capacity(64),
            prev: None,
            prev_obs: String::with_capacity(64),
            last_key: 0,
            force_two_step: None,
        }
    }

    fn single_args(&self, a: Inst, b: Option<Inst>) -> Vec<String> {
        let mut v: Vec<String> = vec![
            self.tier.into(),
            "--child".into(),
            "single".into(),
            "--seed".into(),
            self.seed.to_string(),
            format!("secs={}", a.secs),
            format!("nanos={}", a.nanos),
        ];
        if let Some(b) = b {
            v.push(format!("secs2={}", b.secs));
            v.push(format!("nanos2={}", b.nanos));
        }
        v
    }

    fn report(&mut self, what: String, mut w: Map<String, Value>, a: Inst, b: Option<Inst>) {
        if self.out.viols.len() >= MAX_VIOLS {
            self.out.count("violations_seen", 1);
            return;
        }
        w.insert("child_args".into(), json!(self.single_args(a, b)));
        w.insert("found_by_child".into(), json!(run::raw_argv()));
        self.out.violation(what, Value::Object(w));
    }

    /// Format one instant with the code under test, judge the text, and check ordering
    /// against the previously judged instant if that one was not later.
    fn eval(&mut self, i: Inst) {
        self.out.evals += 1;
        self.n.conversions += 1;
        // -- drive
        // which of the two constructions: decided by the instant itself (both ways when forced)
        let two_step = self.force_two_step.unwrap_or(mix(i.secs as u64 ^ ((i.nanos as u64) << 1)) & 1 == 1);
        let (t, how) = build(i, two_step);
        if i.secs < 0 {
            if i.nanos == 0 {
                self.n.before_1970_whole_second += 1;
            } else {
                self.n.before_1970_with_subsecond += 1;
                if two_step {
                    self.n.built_two_step_sub += 1
                } else {
                    self.n.built_one_step_sub += 1
                }
            }
        } else {
            self.n.from_1970_on += 1;
        }
        if i == self.range.lo {
            self.n.at_range_minimum += 1;
        }
        if i == self.range.hi {
            self.n.at_range_maximum += 1;
        }
        self.obs.clear();
        let obs = &mut self.obs;
        let r = catch_unwind(AssertUnwindSafe(|| verif_format_system_time(t, obs)));

        // -- oracle
        let c: Civil = civil::civil_from_unix(i.secs, i.nanos);
        let want = Fields {
            year: c.year,
            month: c.month,
            day: c.day,
            hour: c.hour,
            minute: c.minute,
            second: c.second,
            micros: i.nanos / 1000, // floor: nanos is the non-negative part of the instant
        };
        assert!(
            (1..=12).contains(&want.month)
                && want.day >= 1
                && want.day <= civil::days_in_month(want.year, want.month)
                && want.hour < 24
                && want.minute < 60
                && want.second < 60,
            "HARNESS: oracle produced an impossible date {want:?} for {i:?}"
        );
        let mut tc: Option<Fields> = None;
        if (1..=9999).contains(&want.year) {
            let (tf, tn) = time_crate(i).unwrap_or_else(|| panic!("HARNESS: time crate rejects {i:?} (year {})", want.year));
            assert!(
                tf == want && tn == i.nanos,
                "HARNESS: oracles disagree on {i:?}: vlib::civil {want:?}, time crate {tf:?} nanos {tn}"
            );
            self.n.second_opinion_time_crate += 1;
            tc = Some(tf);
        }
        // bookkeeping on what kind of case this is
        if want.month == 2 && want.day == 29 {
            self.n.feb29_instants += 1;
            if want.year.rem_euclid(400) == 0 {
                self.n.feb29_of_400_year += 1;
            }
        } else if want.day == 1 && want.month == 3 {
            self.n.mar1_instants += 1;
        } else if want.day == 1 && want.month == 1 {
            self.n.jan1_instants += 1;
        } else if want.day == 31 && want.month == 12 {
            self.n.dec31_instants += 1;
        }
        if i.nanos == 0 {
            self.n.nanos_zero += 1;
        } else if i.nanos % 1000 >= 500 {
            self.n.nanos_fraction_at_least_half_microsecond += 1;
            if i.nanos >= 999_999_000 {
                self.n.nanos_999999xxx += 1;
            }
        }
        let class: u64 = if want.year < 0 {
            0
        } else if want.year <= 9999 {
            1
        } else {
            2
        };
        if self.tag != TAG_SWEEP {
            let cl = if self.tag == TAG_RND { 0 } else { class + 1 };
            let key = (self.tag << 60)
                | (cl << 40)
                | ((want.year.rem_euclid(400) as u64) << 16)
                | ((want.month as u64) << 8)
                | want.day as u64;
            if key != self.last_key {
                self.last_key = key;
                self.out.distinct(mix(key));
            }
        }

        let base = |obs: &str| -> Map<String, Value> {
            let mut m = Map::new();
            m.insert("unix_secs".into(), json!(i.secs.to_string()));
            m.insert("nanos".into(), json!(i.nanos));
            m.insert("built_as".into(), json!(how));
            m.insert("observed".into(), json!(obs));
            m.insert("expected_fields_vlib_civil".into(), fields_json(&want));
            m.insert("expected_fields_time_crate".into(), tc.as_ref().map(fields_json).unwrap_or(Value::Null));
            m
        };

        // -- judge
        match r {
            Err(p) => {
                self.n.panics_in_formatter += 1;
                let mut w = base(&self.obs.clone());
                w.insert("panic".into(), json!(run::panic_msg(&p)));
                self.report("formatting the instant panicked".into(), w, i, None);
                self.prev = None;
                return;
            }
            Ok(Err(_)) => {
                let w = base(&self.obs.clone());
                self.report("formatting the instant returned fmt::Error although the writer is a String".into(), w, i, None);
                self.prev = None;
                return;
            }
            Ok(Ok(())) => {}
        }
        self.exp.clear();
        let _ = write!(
            self.exp,
            "-{:02}-{:02}T{:02}:{:02}:{:02}.{:06}Z",
            want.month, want.day, want.hour, want.minute, want.second, want.micros
        );
        let got = match parse(&self.obs) {
            Ok(g) => g,
            Err(why) => {
                let mut w = base(&self.obs.clone());
                w.insert("parse_error".into(), json!(why));
                w.insert("expected_form".into(), json!(format!("<year>{}", self.exp)));
                self.report("timestamp is not of the form <year>-MM-DDTHH:MM:SS.ffffffZ".into(), w, i, None);
                self.prev = None;
                return;
            }
        };
        let ylen = self.obs.len() - 23;
        let mut bad: Option<String> = None;
        if got != want {
            let what = if (got.year, got.month, got.day) != (want.year, want.month, want.day) {
                "wrong calendar date"
            } else if (got.hour, got.minute, got.second) != (want.hour, want.minute, want.second) {
                "wrong time of day"
            } else if got.micros == want.micros + 1 || (want.micros == 999_999 && got.micros != want.micros) {
                "microseconds are not floor(nanos/1000): rounded up"
            } else {
                "microseconds are not floor(nanos/1000)"
            };
            bad = Some(what.into());
        } else if self.obs[ylen..] != self.exp[..] {
            // numbers right, fixed-width part spelled differently: cannot happen given the
            // strict parser, kept as a guard
            bad = Some("fixed-width part of the timestamp is spelled differently".into());
        }
        if class == 1 {
            // RFC 3339: four-digit year, exact string
            if bad.is_none() && (ylen != 4 || !self.obs.as_bytes()[..4].iter().all(|c| c.is_ascii_digit())) {
                bad = Some("year 0000..=9999 is not printed as exactly four digits".into());
            }
            if bad.is_none() {
                self.n.year_0000_9999_exact_string += 1;
            }
        } else if bad.is_none() {
            // outside RFC 3339's year range the Display impl documents nothing; the repo's
            // unit tests pin "+<digits>" above 9999 and "-" + at least four digits below 0.
            // Only the numbers are judged; the style is counted.
            let yp = &self.obs[..ylen];
            let pinned = if class == 2 {
                yp.starts_with('+') && yp.len() >= 6 && !yp[1..].starts_with('0')
            } else {
                yp.starts_with('-') && yp.len() >= 5 && (yp.len() == 5 || !yp[1..].starts_with('0'))
            };
            if pinned {
                self.n.expanded_year_style_as_in_repo_tests += 1;
            } else {
                self.n.expanded_year_style_other += 1;
            }
            if class == 2 {
                self.n.year_above_9999_fields_only += 1;
            } else {
                self.n.year_below_0000_fields_only += 1;
            }
        }
        if let Some(what) = bad {
            let mut w = base(&self.obs.clone());
            let ytxt = if class == 1 { format!("{:04}", want.year) } else { "<year, any padding>".to_string() };
            w.insert("expected".into(), json!(format!("{ytxt}{}", self.exp)));
            w.insert("observed_fields".into(), fields_json(&got));
            w.insert("leap_class_of_year".into(), json!(leap_class(want.year)));
            self.report(what, w, i, None);
        }

        // -- ordering: t1 <= t2  =>  fields(t1) <= fields(t2)
        if let Some((pi, pf)) = self.prev {
            if pi <= i {
                self.n.ordered_pairs_checked += 1;
                if pf < got {
                    self.n.ordered_pairs_strictly_increasing += 1;
                } else if pf == got {
                    self.n.ordered_pairs_same_text += 1;
                } else {
                    let mut w = base(&self.obs.clone());
                    w.insert(
                        "earlier_instant".into(),
                        json!({"unix_secs": pi.secs.to_string(), "nanos": pi.nanos, "observed": self.prev_obs, "observed_fields": fields_json(&pf)}),
                    );
                    w.insert("observed_fields".into(), fields_json(&got));
                    self.report(
                        "a later instant prints an earlier (year, month, day, h, m, s, µs) tuple than an earlier instant".into(),
                        w,
                        pi,
                        Some(i),
                    );
                }
            }
        }
        self.prev = Some((i, got));
        self.prev_obs.clear();
        self.prev_obs.push_str(&self.obs);
    }

    /// record the most recently judged instant as a sample
    fn sample(&mut self, note: &str) {
        if let Some((i, _)) = self.prev {
            self.out.sample(json!({"kind": note, "unix_secs": i.secs.to_string(), "nanos": i.nanos, "printed": self.obs}));
        }
    }

    fn finish(mut self) {
        let n = std::mem::take(&mut self.n);
        n.flush(&mut self.out);
        self.out.emit();
    }
}

const TAG_WIN: u64 = 1;
const TAG_RND: u64 = 2;
const TAG_SWEEP: u64 = 3;
const TAG_EDGE: u64 = 4;

// ------------------------------------------------------------------------------------
// workloads
// ------------------------------------------------------------------------------------

fn gen_nanos(rng: &mut Rng, allow_zero: bool) -> u32 {
    match rng.below(10) {
        0 => {
            if allow_zero {
                0
            } else {
                1
            }
        }
        1 => 1,
        2 => NS - 1,
        3 => 999,
        4 => 1000,
        5 => rng.below(1_000_000) as u32 * 1000 + 999,
        6 => rng.below(1_000_000) as u32 * 1000 + 500 + rng.below(500) as u32,
        7 => 999_999_000 + rng.below(1000) as u32,
        _ => 1 + rng.below((NS - 1) as u64) as u32,
    }
}

/// Boundary instants; each gets a ±2-day window, every second.
fn anchors(tier: Tier, r: &Range) -> Vec<(String, i128)> {
    let mut v: Vec<(String, i128)> = vec![];
    let year_end = |y: i128| {
        (
            format!("year end {y} -> {} ({} -> {})", y + 1, leap_class(y), leap_class(y + 1)),
            civil::unix_from_civil(y + 1, 1, 1, 0, 0, 0),
        )
    };
    let ye: &[i128] = &[
        -292277022657, -1000000, -10000, -9999, -401, -400, -101, -100, -5, -4, -1, 0, 1, 3, 4, 99, 100, 399, 400, 999, 1000,
        1582, 1599, 1600, 1699, 1700, 1799, 1800, 1899, 1900, 1968, 1969, 1970, 1971, 1972, 1999, 2000, 2001, 2023, 2024,
        2025, 2037, 2038, 2099, 2100, 2199, 2200, 2399, 2400, 9998, 9999, 10000, 99999, 999999, 292277026595,
    ];
    for &y in ye {
        v.push(year_end(y));
    }
    let feb_mar = |y: i128| {
        (
            format!("Feb -> Mar 1 of {y} ({})", leap_class(y)),
            civil::unix_from_civil(y, 3, 1, 0, 0, 0),
        )
    };
    let fm: &[i128] = &[
        -292277022400, -10000, -400, -100, -4, -1, 0, 1, 4, 100, 400, 1200, 1600, 1700, 1800, 1900, 1904, 1968, 1969, 1970,
        1972, 1999, 2000, 2001, 2004, 2020, 2023, 2024, 2100, 2200, 2300, 2400, 2800, 4000, 9996, 9999, 10000, 10100, 12000,
        100000, 292277026400,
    ];
    for &y in fm {
        v.push(feb_mar(y));
    }
    if tier == Tier::Thorough {
        // one full 400-year cycle (plus one year): every year end and every Feb -> Mar transition
        for y in 1800..=2200 {
            v.push(year_end(y));
            v.push(feb_mar(y));
        }
    }
    v.push(("unix epoch 1969-12-31 -> 1970-01-01".into(), 0));
    v.push(("2000-02-29 -> 2000-03-01 (epoch of the algorithm)".into(), civil::unix_from_civil(2000, 3, 1, 0, 0, 0)));
    v.push(("i32::MAX seconds (2038-01-19)".into(), i32::MAX as i128));
    v.push(("i32::MIN seconds (1901-12-13)".into(), i32::MIN as i128));
    v.push(("u32::MAX seconds (2106-02-07)".into(), u32::MAX as i128));
    v.push(("first 4 days of SystemTime".into(), r.lo.secs + 2 * DAY));
    v.push(("last 4 days of SystemTime".into(), r.hi.secs - 2 * DAY + 1));
    // de-duplicate by instant, keep first name
    let mut seen = std::collections::BTreeSet::new();
    v.retain(|(_, s)| seen.insert(*s));
    v
}

fn sweep_bounds() -> (i128, i128) {
    (civil::days_from_civil(1, 1, 1), civil::days_from_civil(9999, 12, 31))
}

fn child_sweep(args: &Args, m: &mut Mon) {
    let (d0, d1) = sweep_bounds();
    let total = d1 - d0 + 1;
    let (k, n) = (args.shard as i128, args.nshards as i128);
    let from = d0 + total * k / n;
    let to = d0 + total * (k + 1) / n; // exclusive
    let extra_times = args.get_u64("extra_times", 0);
    let mut rng = Rng::derive(args.seed, args.shard, 0x5EE9);
    // plain calendar counter, started from the oracle's date of the first day and stepped
    // with its own month lengths; must agree with Hinnant's closed form on every day
    let (mut y, mut mo, mut d) = civil::civil_from_days(from);
    if k == 0 {
        assert!((y, mo, d) == (1, 1, 1), "HARNESS: sweep does not start at 0001-01-01");
    }
    let own_dim = |y: i128, mo: u32| -> u32 {
        match mo {
            2 => {
                if y % 4 == 0 && (y % 100 != 0 || y % 400 == 0) {
                    29
                } else {
                    28
                }
            }
            4 | 6 | 9 | 11 => 30,
            _ => 31,
        }
    };
    let mut times: Vec<(u32, u32)> = Vec::with_capacity(8);
    for day in from..to {
        assert!(civil::civil_from_days(day) == (y, mo, d), "HARNESS: calendar counter and civil_from_days disagree on day {day}");
        times.clear();
        times.extend_from_slice(&TIMES);
        for _ in 0..extra_times {
            times.push((rng.below(86_400) as u32, gen_nanos(&mut rng, true)));
        }
        times.sort();
        for &(sod, nanos) in &times {
            m.eval(Inst { secs: day * DAY + sod as i128, nanos });
        }
        m.n.sweep_days += 1;
        m.out.distinct(mix((TAG_SWEEP << 60) | (day - d0) as u64));
        if (mo == 2 && d == 29 && y % 400 == 0 && m.out.samples.is_empty() && k % 16 == 8) || (day == from && k == 0) {
            m.sample("sweep");
        }
        d += 1;
        if d > own_dim(y, mo) {
            d = 1;
            mo += 1;
            if mo > 12 {
                mo = 1;
                y += 1;
            }
        }
    }
    if k == n - 1 {
        assert!((y, mo, d) == (10000, 1, 1), "HARNESS: sweep does not end at 9999-12-31");
    }
}

fn child_win(args: &Args, m: &mut Mon) {
    let list = anchors(args.tier, &m.range);
    assert!(args.nshards as usize == list.len(), "HARNESS: anchor list changed between parent and child");
    let (name, a) = list[args.shard as usize].clone();
    let mut rng = Rng::derive(args.seed, args.shard, 0xA11C);
    let from = (a - 2 * DAY).max(m.range.lo.secs);
    let to = (a + 2 * DAY - 1).min(m.range.hi.secs); // inclusive
    m.out.set("window_anchors", format!("{name} @ {a}"));
    for s in from..=to {
        m.eval(Inst { secs: s, nanos: 0 });
        m.eval(Inst { secs: s, nanos: gen_nanos(&mut rng, false) });
        m.n.window_seconds += 1;
        if s == a - 1 && args.shard % 16 == 0 {
            m.sample(&format!("window: {name}, last instant judged before the boundary"));
        }
    }
}

fn child_edge(_args: &Args, m: &mut Mon) {
    let r = m.range;
    let mut v: Vec<Inst> = vec![];
    let mut push = |secs: i128, nanos: u32| {
        let i = Inst { secs, nanos };
        if i >= r.lo && i <= r.hi {
            v.push(i);
        }
    };
    let subs = [0u32, 1, 999, 1000, 499_999_999, 500_000_000, 999_999_000, 999_999_499, 999_999_500, NS - 1];
    // extremes of SystemTime
    for d in 0..4i128 {
        for &n in &subs {
            push(r.lo.secs + d, n);
            push(r.hi.secs - d, n);
        }
    }
    // powers of two, both signs, +-1
    for k in 0..=64u32 {
        let p = 1i128 << k;
        for s in [p - 1, p, p + 1, -p - 1, -p, -p + 1] {
            for &n in &subs {
                push(s, n);
            }
        }
    }
    // instants before 1970 that are whole multiples of a day, +-1 s, with and without fraction
    for j in 1..=2000i128 {
        for ds in [-1i128, 0, 1] {
            push(-j * DAY + ds, 0);
            push(-j * DAY + ds, subs[(j as usize) % subs.len()]);
        }
    }
    // 400-year cycle boundaries of the algorithm's epoch (2000-03-01), far into both directions
    let leapoch = civil::unix_from_civil(2000, 3, 1, 0, 0, 0);
    for k in [-730_692_560i128, -1_000_000, -1000, -6, -5, -4, -3, -2, -1, 0, 1, 2, 3, 1000, 1_000_000, 730_692_560] {
        for ds in [-DAY - 1, -DAY, -1, 0, 1, DAY] {
            push(leapoch + k * 146_097 * DAY + ds, 0);
            push(leapoch + k * 146_097 * DAY + ds, NS - 1);
        }
    }
    // the instants the repository's own unit test uses (inputs only)
    for s in [0i128, 1, 61, 3661, 90061, -1, -61, -3661, -90061, -2208988800, -2208988801, -62167219200, -62167219201,
              -23215049511, -101097651111, 11847456541, -136154620259] {
        push(s, 0);
        push(s, 1000);
        push(s, 500_000_000);
    }
    v.sort();
    v.dedup();
    for (n, &i) in v.iter().enumerate() {
        m.eval(i);
        if n == 0 || n == v.len() - 1 {
            m.sample("edge: extreme of SystemTime");
        }
    }
    let (lo, hi) = (m.range.lo, m.range.hi);
    m.out.set("systemtime_range_probed", format!("min = {} s + {} ns", lo.secs, lo.nanos));
    m.out.set("systemtime_range_probed", format!("max = {} s + {} ns", hi.secs, hi.nanos));
}

fn child_rnd(args: &Args, m: &mut Mon) {
    let r = m.range;
    let total = args.get_u64("n", RND_PER_SHARD);
    let mut rng = Rng::derive(args.seed, args.shard, 0x20);
    let lo64 = i64::try_from(r.lo.secs).expect("HARNESS: SystemTime minimum does not fit i64 seconds");
    let hi64 = i64::try_from(r.hi.secs).expect("HARNESS: SystemTime maximum does not fit i64 seconds");
    let y1 = civil::unix_from_civil(1, 1, 1, 0, 0, 0) as i64;
    let y9999 = civil::unix_from_civil(9999, 12, 31, 23, 59, 59) as i64;
    let lo_day = r.lo.secs.div_euclid(DAY) + 1;
    let hi_day = r.hi.secs.div_euclid(DAY) - 1;
    let sods = [0u32, 1, 59, 60, 3599, 3600, 43_199, 43_200, 86_340, 86_398, 86_399];
    let clamp = |i: Inst| -> Inst {
        if i < r.lo {
            r.lo
        } else if i > r.hi {
            r.hi
        } else {
            i
        }
    };
    let gen = |rng: &mut Rng| -> Inst {
        let secs: i128 = match rng.below(10) {
            0..=3 => rng.range(lo64, hi64) as i128,
            4 | 5 => {
                let bits = rng.below(64) as u32; // magnitude below 2^(bits+1)
                let mag = (rng.next_u64() >> (63 - bits)) as i128;
                if rng.bool() {
                    mag
                } else {
                    -mag
                }
            }
            6 | 7 => rng.range(y1, y9999) as i128,
            8 => {
                let day = rng.range(lo_day as i64, hi_day as i64) as i128;
                let sod = if rng.bool() { *rng.pick(&sods) } else { rng.below(86_400) as u32 };
                day * DAY + sod as i128
            }
            _ => match rng.below(3) {
                0 => r.lo.secs + rng.below(1_000_000) as i128,
                1 => r.hi.secs - rng.below(1_000_000) as i128,
                _ => rng.range(-200_000, 200_000) as i128,
            },
        };
        clamp(Inst { secs, nanos: gen_nanos(rng, true) })
    };
    let mut batch: Vec<Inst> = Vec::with_capacity(4200);
    let mut done = 0u64;
    let mut first = true;
    while done < total {
        batch.clear();
        let want = (total - done).min(4096) as usize;
        if first && args.shard == 0 {
            batch.push(r.lo);
            batch.push(r.hi);
            batch.push(Inst { secs: 0, nanos: 0 });
        }
        while batch.len() < want {
            let i = gen(&mut rng);
            batch.push(i);
            if rng.below(8) == 0 && batch.len() < want {
                // a close later neighbour: same µs, next µs, next second
                let dn: u64 = *rng.pick(&[1u64, 1, 499, 999, 1000, 1001, NS as u64 - 1, NS as u64]);
                let tot = i.nanos as u64 + dn;
                let j = Inst { secs: i.secs + (tot / NS as u64) as i128, nanos: (tot % NS as u64) as u32 };
                if j <= r.hi {
                    batch.push(j);
                }
            }
        }
        batch.sort();
        m.prev = None;
        for &i in &batch {
            m.eval(i);
        }
        if first && args.shard % 8 == 0 {
            m.sample("random");
        }
        first = false;
        done += batch.len() as u64;
    }
}

fn child_single(args: &Args, m: &mut Mon) {
    let get = |ks: &str, kn: &str| -> Option<Inst> {
        let s: i128 = args.get(ks)?.parse().expect("HARNESS: bad secs");
        let n: u32 = args.get(kn).unwrap_or("0").parse().expect("HARNESS: bad nanos");
        Some(Inst { secs: s, nanos: n })
    };
    let a = get("secs", "nanos").expect("HARNESS: single needs secs=");
    for two_step in [false, true] {
        m.force_two_step = Some(two_step); // run both ways of building the instant
        m.prev = None;
        m.eval(a);
        println!("instant {} s + {} ns  ->  {:?}   (oracle: {:?})", a.secs, a.nanos, m.obs, civil::civil_from_unix(a.secs, a.nanos));
        if let Some(b) = get("secs2", "nanos2") {
            m.eval(b);
            println!("instant {} s + {} ns  ->  {:?}   (oracle: {:?})", b.secs, b.nanos, m.obs, civil::civil_from_unix(b.secs, b.nanos));
        }
    }
}

static PANICS: AtomicUsize = AtomicUsize::new(0);

fn child(args: &Args, kind: &str) {
    // panics of the code under test are caught per call and become witnesses; do not let
    // a broken formatter flood stderr, but always show harness failures
    let prev = std::panic::take_hook();
    std::panic::set_hook(Box::new(move |info| {
        let msg = info
            .payload()
            .downcast_ref::<&str>()
            .map(|s| s.to_string())
            .or_else(|| info.payload().downcast_ref::<String>().cloned())
            .unwrap_or_default();
        if msg.contains("HARNESS:") || PANICS.fetch_add(1, Ordering::Relaxed) < 3 {
            prev(info);
        }
    }));
    let tag = match kind {
        "sweep" => TAG_SWEEP,
        "win" => TAG_WIN,
        "rnd" => TAG_RND,
        "edge" | "single" => TAG_EDGE,
        other => panic!("HARNESS: unknown child kind {other}"),
    };
    let mut m = Mon::new(args, tag);
    match kind {
        "sweep" => child_sweep(args, &mut m),
        "win" => child_win(args, &mut m),
        "rnd" => child_rnd(args, &mut m),
        "edge" => child_edge(args, &mut m),
        _ => child_single(args, &mut m),
    }
    m.finish();
}

// ------------------------------------------------------------------------------------
// parent
// ------------------------------------------------------------------------------------

fn parent(args: &Args) {
    let t0 = Instant::now();
    let mut out = Out::new();
    let range = probe_range();
    let n_anchors = anchors(args.tier, &range).len() as u64;
    let rnd_total = args.get_u64("random", args.tier.pick(10_000_000, 300_000_000));
    let rnd_shards = args.get_u64("rnd_shards", args.tier.pick(16, 96));
    let rnd_per = rnd_total.div_ceil(rnd_shards);

    let specs = [
        ChildSpec::new("edge", 1).timeout(600),
        ChildSpec::new("sweep", SWEEP_SHARDS)
            .arg("extra_times", args.get_u64("extra_times", args.tier.pick(0, 4)))
            .timeout(900),
        ChildSpec::new("win", n_anchors).timeout(600),
        ChildSpec::new("rnd", rnd_shards).arg("n", rnd_per).timeout(1800),
    ];
    for spec in &specs {
        let ends = run::run_children(args, spec, &mut out);
        run::classify_ends(&ends, &mut out, true);
    }

    let (d0, d1) = sweep_bounds();
    let days = (d1 - d0 + 1) as u64;
    let swept = out.counters.get("sweep_days").copied().unwrap_or(0);
    let complete = swept == days;
    if !complete && out.inconclusive.is_empty() && out.viols.is_empty() {
        out.harness_errors
            .push(format!("day sweep incomplete: {swept} of {days} days judged"));
    }
    let mut extra = Map::new();
    extra.insert(
        "day_sweep".into(),
        json!({"from": "0001-01-01", "to": "9999-12-31", "days": days, "days_judged": swept, "complete": complete,
               "times_of_day": ["00:00:00.000000000", "12:34:56.789012345", "23:59:59.999999999"]}),
    );
    extra.insert(
        "systemtime_range_probed".into(),
        json!({"min_unix_secs": range.lo.secs.to_string(), "min_nanos": range.lo.nanos,
               "max_unix_secs": range.hi.secs.to_string(), "max_nanos": range.hi.nanos}),
    );
    extra.insert("boundary_windows".into(), json!({"anchors": n_anchors, "seconds_each_side": 2 * DAY as u64, "instants_per_second": 2}));
    extra.insert("random_instants_requested".into(), json!(rnd_total));

    run::finish(
        Finish {
            id: ID,
            args,
            t0,
            rule: "evaluations = instants formatted through the hook and judged (string compared, fields parsed, ordered against the \
                   previously judged instant); every instant exercises the calendar decomposition, so non-trivial = judged, and \
                   distinct_nontrivial = size of the union of (a) distinct days of the 0001-01-01..9999-12-31 sweep whose instants were \
                   judged (3 652 059 when the sweep is complete), (b) distinct (year class <0 | 0..9999 | >9999, year mod 400, month, day) \
                   calendar positions reached by the boundary-window and edge instants, (c) distinct (year mod 400, month, day) positions \
                   (of 146 097 possible) reached by the random instants",
            assumptions: vec![
                "the oracle is vlib::civil (Hinnant's civil_from_days in i128); in years 0001..=9999 every expectation was also computed with the time crate, and on every sweep day with a day-by-day calendar counter; the run aborts (HARNESS) if they ever disagree".into(),
                "years 0000..=9999 are judged on the exact RFC 3339 string YYYY-MM-DDTHH:MM:SS.ffffffZ; outside that range (not covered by RFC 3339, Display impl undocumented) only the parsed numbers and the fixed-width tail are judged and the year's sign/padding style is counted, not judged".into(),
                "microseconds expected = floor(nanos/1000) where nanos is the non-negative sub-second part of the instant (floor also before 1970)".into(),
                "release build (debug assertions off), as section 1.6 prescribes".into(),
                "leap seconds do not exist in SystemTime / unix time".into(),
            ],
            min_evals: 22_000_000,
            min_distinct: 900_000,
            exhaustive: false,
            extra,
        },
        out,
    );
}
