//! C19 — levels and level filters form one consistent total order; text round-trips
//! (DESIGN.md 5/C19).  Complete enumeration at run time against the integer rank
//! OFF=0 < ERROR=1 < WARN=2 < INFO=3 < DEBUG=4 < TRACE=5.
//!
//! child kinds
//!   ops  : operator / sort / conversion tables (c19_tables.rs), Display->FromStr, the
//!          tracing-subscriber `LevelFilter` layer/filter and the tracing-log level mapping
//!   cur  : hint -> `LevelFilter::current()` with a minimal collector (same code Miri runs)
//!   text : every case pattern of every name, digits, lenient numerics, noise strings
//!   hint : a `vlib::rec::FilterCollector` with a given max_level_hint as the ONLY live
//!          dispatcher => current() reads back exactly it; `level <= filter` == outcome of
//!          the real macros (event!/span!/enabled!/level_enabled!) under that hint
//! thorough: additionally `cargo +nightly miri run` of /verif/harness/san-c19 (debug-assertions
//! off, so the `unreachable_unchecked` arm of `LevelFilter::current` is what is interpreted).

use std::collections::{BTreeMap, HashSet};
use std::sync::Arc;
use std::time::{Duration, Instant};
use tracing_core::dispatch::{self, DefaultGuard, Dispatch};
use vcs::{Emitted, Fresh, Kind};
use vlib::exec::Workers;
use vlib::rec::{FilterCollector, Got, Shared, Spec};
use vlib::run::{self, Finish};
use vlib::{json, Args, ChildSpec, Map, Mode, Out, Rng, Value};

include!("../c19_tables.rs");

const ID: &str = "C19";

fn main() {
    let args = run::parse_args();
    match args.mode.clone() {
        Mode::Parent => parent(&args),
        Mode::Child(k) => child(&args, &k),
        Mode::Replay(p) => run::replay(ID, &p),
    }
}

// ------------------------------------------------------------------------------------------
// parent

fn parent(args: &Args) {
    let t0 = Instant::now();
    let mut out = Out::new();
    let mut extra = Map::new();
    // thorough: the Miri layer runs beside the native children (it is single-threaded)
    let miri = if args.tier == vlib::Tier::Thorough && std::env::var_os("VERIF_SKIP_MIRI").is_none() {
        Some(std::thread::spawn(|| {
            let mut o = Out::new();
            let mut x = Map::new();
            run_miri(&mut o, &mut x);
            (o, x)
        }))
    } else {
        None
    };
    for (kind, shards) in [
        ("ops", 1),
        ("cur", 1),
        ("text", args.get_u64("text_shards", 16)),
        ("hint", args.get_u64("hint_shards", args.tier.pick(42, 336))),
    ] {
        let spec = ChildSpec::new(kind, shards)
            .arg("tail", args.get_u64("tail", args.tier.pick(300, 3000)))
            .arg("noise", args.get_u64("noise", args.tier.pick(2_000, 40_000)))
            .timeout(600);
        let ends = run::run_children(args, &spec, &mut out);
        run::classify_ends(&ends, &mut out, true);
    }
    if let Some(h) = miri {
        match h.join() {
            Ok((mut mo, mx)) => {
                // keep the Miri witness in front of the (capped) list of violations
                let mv = std::mem::take(&mut mo.viols);
                out.merge(mo);
                for v in mv.into_iter().rev() {
                    out.viols.insert(0, v);
                }
                out.viols.truncate(run::MAX_VIOLS);
                extra = mx;
            }
            Err(_) => out.inconclusive("Miri layer: the driver thread panicked"),
        }
    } else {
        extra.insert(
            "miri".into(),
            json!(if args.tier == vlib::Tier::Thorough { "skipped (VERIF_SKIP_MIRI set)" } else { "thorough tier only" }),
        );
    }
    run::finish(
        Finish {
            id: ID,
            args,
            t0,
            rule: "evaluations = table cells judged (a cell = one operator/conversion/parse/current()/macro outcome compared with \
                   the integer-rank reference); distinct = distinct (table, operator, lhs, rhs[, third operand]) cells, where for the parse \
                   tables lhs = the input string and rhs = the target type, and for the hint tables the cell is \
                   (way of publishing, previous hint, hint) resp. (macro kind, hint, level, first hit of the callsite?); the \
                   operator, conversion, case-pattern, digit and hint-transition tables are enumerated completely, the noise \
                   strings are a fixed corpus plus seeded random mutations",
            assumptions: vec![
                "a value's rank is known by construction from the named constant; values returned by the code are identified by a structural match on the public constants".into(),
                "numeric spellings other than the plain digit that still denote a number in range ('+3', '03') are accepted either way (the only documentation is the error text 'a number 0-5'); if accepted the value must be that number".into(),
                "hint children hold exactly one live Dispatch at every judged moment (the previous one is dropped first; Arc count asserted)".into(),
                "STATIC_MAX_LEVEL is TRACE in this build (no max_level_* feature)".into(),
            ],
            min_evals: 200_000,
            min_distinct: 15_000,
            exhaustive: true,
            extra,
        },
        out,
    );
}

fn run_miri(out: &mut Out, extra: &mut Map<String, Value>) {
    let root = run::verif_root();
    let dir = root.join("harness/san-c19");
    if !dir.join("Cargo.lock").exists() {
        let _ = std::fs::copy("/repo/Cargo.lock", dir.join("Cargo.lock"));
    }
    let t = Instant::now();
    let mut cmd = std::process::Command::new("cargo");
    cmd.args(["+nightly", "miri", "run", "--offline"])
        .current_dir(&dir)
        .env("CARGO_TARGET_DIR", root.join("harness/target/miri-c19"))
        .env("MIRIFLAGS", "-Zmiri-disable-isolation")
        .stdin(std::process::Stdio::null())
        .stdout(std::process::Stdio::piped())
        .stderr(std::process::Stdio::piped());
    let mut child = match cmd.spawn() {
        Ok(c) => c,
        Err(e) => {
            out.inconclusive(format!("Miri layer: cannot spawn `cargo +nightly miri run`: {e}"));
            return;
        }
    };
    use std::io::Read;
    let mut so = child.stdout.take().unwrap();
    let mut se = child.stderr.take().unwrap();
    let t_out = std::thread::spawn(move || {
        let mut s = Vec::new();
        let _ = so.read_to_end(&mut s);
        String::from_utf8_lossy(&s).into_owned()
    });
    let t_err = std::thread::spawn(move || {
        let mut s = Vec::new();
        let _ = se.read_to_end(&mut s);
        String::from_utf8_lossy(&s).into_owned()
    });
    let limit = Duration::from_secs(1200);
    let mut timed_out = false;
    let status = loop {
        match child.try_wait() {
            Ok(Some(st)) => break Some(st),
            Ok(None) => {
                if t.elapsed() > limit {
                    let _ = child.kill();
                    timed_out = true;
                    break child.wait().ok();
                }
                std::thread::sleep(Duration::from_millis(50));
            }
            Err(_) => break None,
        }
    };
    let stdout = t_out.join().unwrap_or_default();
    let stderr = t_err.join().unwrap_or_default();
    let last = |s: &str, n: usize| -> String {
        let mut i = s.len().saturating_sub(n);
        while !s.is_char_boundary(i) {
            i += 1;
        }
        s[i..].to_string()
    };
    let tail = |s: &str| -> String { last(s, 3000) };
    let cells = stdout
        .lines()
        .find_map(|l| l.strip_prefix("C19-MIRI cells="))
        .and_then(|r| r.split_whitespace().next().and_then(|n| n.parse::<u64>().ok()));
    let cmdline = format!(
        "cd {} && CARGO_TARGET_DIR={} MIRIFLAGS=-Zmiri-disable-isolation cargo +nightly miri run --offline",
        dir.display(),
        root.join("harness/target/miri-c19").display()
    );
    extra.insert(
        "miri".into(),
        json!({"command": cmdline, "exit": status.and_then(|s| s.code()), "cells": cells, "wall_s": t.elapsed().as_secs_f64(),
               "profile": "dev with debug-assertions = false"}),
    );
    if timed_out {
        out.inconclusive(format!("Miri layer killed by the watchdog after {} s", limit.as_secs()));
    } else if stderr.contains("Undefined Behavior") {
        out.count("miri_ub_reports", 1);
        out.violation(
            "Miri reports Undefined Behavior while interpreting the level tables (debug-assertions off)",
            json!({"command": cmdline, "stderr_tail": tail(&stderr), "stdout_tail": tail(&stdout)}),
        );
    } else if stderr.contains("C19-MIRI-MISMATCH") || stdout.contains("C19-MIRI-MISMATCH") {
        out.violation(
            "level table cell differs from the integer-rank reference under Miri",
            json!({"command": cmdline, "stderr_tail": tail(&stderr), "stdout_tail": tail(&stdout)}),
        );
    } else if status.map(|s| s.success()).unwrap_or(false) && cells.is_some() {
        out.count("miri_ok", 1);
        out.count("miri_cells", cells.unwrap_or(0));
    } else {
        out.inconclusive(format!(
            "Miri layer did not run to completion (exit {:?}): {}",
            status.and_then(|s| s.code()),
            last(&stderr, 800)
        ));
    }
}

// ------------------------------------------------------------------------------------------
// sink used by the native children

fn mix(h: u64, x: u64) -> u64 {
    (h ^ x).wrapping_mul(0x0000_0100_0000_01B3).rotate_left(23) ^ x.wrapping_mul(0x9E37_79B9_7F4A_7C15)
}
fn cell_hash(table: &str, op: &str, a: i64, b: i64, c: i64) -> u64 {
    let mut h = vlib::rng::hash_str(table);
    h = mix(h, vlib::rng::hash_str(op));
    h = mix(h, a as u64);
    h = mix(h, b as u64);
    mix(h, c as u64)
}

struct NativeSink {
    out: Out,
    counts: BTreeMap<&'static str, u64>,
    distinct: HashSet<u64>,
    sampled: HashSet<&'static str>,
    budget: usize,
    ctx: String,
}
impl NativeSink {
    fn new() -> Self {
        NativeSink { out: Out::new(), counts: BTreeMap::new(), distinct: HashSet::new(), sampled: HashSet::new(), budget: 2, ctx: String::new() }
    }
    fn bump(&mut self, k: &'static str, n: u64) {
        *self.counts.entry(k).or_insert(0) += n;
    }
    fn finish(mut self) -> Out {
        for (k, n) in std::mem::take(&mut self.counts) {
            self.out.count(k, n);
        }
        for h in std::mem::take(&mut self.distinct) {
            self.out.distinct(h);
        }
        self.out
    }
}
fn operand(table: &str, op: &str, v: i64, pos: usize) -> String {
    let name = |v: i64| -> String {
        if (0..=5).contains(&v) {
            NAMES[v as usize].to_string()
        } else {
            code_name(v)
        }
    };
    let hint = |v: i64, pre: &str| -> String {
        match v {
            6 => format!("{pre}hint None"),
            7 => "nothing installed before".to_string(),
            v => format!("{pre}hint Some({})", name(v)),
        }
    };
    if table.starts_with("sort/") {
        return if pos == 0 { format!("permutation (digits = rank+1 .. ) {v}") } else { "-".into() };
    }
    let transition = op.starts_with("Dispatch::new") || op.starts_with("rebuild_interest_cache");
    if table == "current" && transition {
        return match pos {
            0 => hint(v, "previous "),
            1 => hint(v, ""),
            _ => "-".into(),
        };
    }
    if table == "current" || table == "macro" {
        return match pos {
            0 => hint(v, ""),
            1 => format!("level {}", name(v)),
            _ => format!("first hit of the callsite: {v}"),
        };
    }
    name(v)
}
impl Sink for NativeSink {
    fn cell(&mut self, table: &'static str, op: &'static str, a: i64, b: i64, c: i64, expected: i64, observed: i64) {
        self.out.evals += 1;
        self.bump(table, 1);
        self.distinct.insert(cell_hash(table, op, a, b, c));
        let describe = || {
            json!({"table": table, "operator": op, "lhs": operand(table, op, a, 0), "rhs": operand(table, op, b, 1),
                   "third": operand(table, op, c, 2), "lhs_code": a, "rhs_code": b, "third_code": c,
                   "expected": code_name(expected), "observed": code_name(observed),
                   "codes": "bool 0/1; Ordering -1/0/1; rank OFF=0..TRACE=5; hints 0..5 = Some(filter), 6 = None"})
        };
        if expected != observed {
            let mut w = describe();
            if !self.ctx.is_empty() {
                w["context"] = json!(self.ctx);
            }
            self.out.violation(
                format!(
                    "{table}: {} {op} {} gives {}, the total order OFF<ERROR<WARN<INFO<DEBUG<TRACE says {}",
                    operand(table, op, a, 0),
                    operand(table, op, b, 1),
                    code_name(observed),
                    code_name(expected)
                ),
                w,
            );
        } else if a != b
            && self.budget > 0
            && matches!(op, "<=" | "clamp(x;lo,hi)" | "rebuild_interest_cache" | "event! deliveries" | "Layered::enabled")
            && (table != "level/level" && table != "filter/level")
            && !self.sampled.contains(op)
        {
            self.sampled.insert(op);
            self.budget -= 1;
            let mut w = describe();
            if let Some(m) = w.as_object_mut() {
                m.remove("codes");
                m.remove("lhs_code");
                m.remove("rhs_code");
                m.remove("third_code");
                if op != "clamp(x;lo,hi)" && table != "macro" {
                    m.remove("third");
                }
            }
            self.out.sample(w);
        }
    }
}

// ------------------------------------------------------------------------------------------
// children

fn child(args: &Args, kind: &str) {
    // clamp(lo > hi) panics by contract: keep panics quiet, except the harness's own
    std::panic::set_hook(Box::new(|info| {
        let msg = info.to_string();
        if msg.contains("HARNESS:") {
            eprintln!("{msg}");
        }
    }));
    let out = match kind {
        "ops" => child_ops(),
        "cur" => child_cur(),
        "text" => child_text(args),
        "hint" => child_hint(args),
        other => panic!("HARNESS: unknown child kind {other}"),
    };
    out.emit();
}

fn child_cur() -> Out {
    let mut s = NativeSink::new();
    // value in a process that never had a dispatcher: must at least be one of the six filters
    let f0 = frank(LevelFilter::current());
    s.out.set("fresh_process_current", code_name(f0));
    s.out.evals += 1;
    if f0 == INVALID {
        s.out.violation(
            "LevelFilter::current() in a fresh process is none of the six filters",
            json!({"observed": code_name(f0)}),
        );
    }
    current_table(&mut s);
    s.finish()
}

// ---- static callsites of each level for direct calls into tracing-subscriber's LevelFilter

struct Cs19(u8);
macro_rules! cs19 {
    ($cs:ident, $meta:ident, $lvl:expr, $n:expr) => {
        static $cs: Cs19 = Cs19($n);
        static $meta: tracing_core::Metadata<'static> = tracing_core::metadata! {
            name: "c19",
            target: "c19",
            level: $lvl,
            fields: &[],
            callsite: &$cs,
            kind: tracing_core::metadata::Kind::EVENT,
        };
    };
}
cs19!(CS_E, META_E, Level::ERROR, 1);
cs19!(CS_W, META_W, Level::WARN, 2);
cs19!(CS_I, META_I, Level::INFO, 3);
cs19!(CS_D, META_D, Level::DEBUG, 4);
cs19!(CS_T, META_T, Level::TRACE, 5);
impl tracing_core::Callsite for Cs19 {
    fn set_interest(&self, _: tracing_core::collect::Interest) {}
    fn metadata(&self) -> &tracing_core::Metadata<'_> {
        match self.0 {
            1 => &META_E,
            2 => &META_W,
            3 => &META_I,
            4 => &META_D,
            _ => &META_T,
        }
    }
}
fn metas() -> [(i64, &'static tracing_core::Metadata<'static>); 5] {
    [(1, &META_E), (2, &META_W), (3, &META_I), (4, &META_D), (5, &META_T)]
}
fn interest_code(i: &tracing_core::collect::Interest) -> i64 {
    // 1 = always, 0 = never, 2 = sometimes
    if i.is_always() {
        1
    } else if i.is_never() {
        0
    } else {
        2
    }
}

fn child_ops() -> Out {
    let mut s = NativeSink::new();
    ops_table(&mut s);
    sort_table(&mut s, true);
    conv_table(&mut s);

    // metadata levels read back (the metas below are what the subscriber tables are fed)
    for (rl, m) in metas() {
        s.cell("conv", "Metadata::level", rl, 0, 0, rl, lrank(*m.level()));
    }

    // the re-exports are the same type with the same constants
    {
        use tracing::level_filters::LevelFilter as TF;
        use tracing_subscriber::filter::LevelFilter as SF;
        let t = [TF::OFF, TF::ERROR, TF::WARN, TF::INFO, TF::DEBUG, TF::TRACE];
        let u = [SF::OFF, SF::ERROR, SF::WARN, SF::INFO, SF::DEBUG, SF::TRACE];
        for r in 0..6usize {
            s.cell("conv", "tracing::level_filters::LevelFilter const", r as i64, 0, 0, r as i64, frank(t[r]));
            s.cell("conv", "tracing_subscriber::filter::LevelFilter const", r as i64, 0, 0, r as i64, frank(u[r]));
        }
        let tl = [tracing::Level::ERROR, tracing::Level::WARN, tracing::Level::INFO, tracing::Level::DEBUG, tracing::Level::TRACE];
        for (i, l) in tl.iter().enumerate() {
            s.cell("conv", "tracing::Level const", i as i64 + 1, 0, 0, i as i64 + 1, lrank(*l));
        }
        s.cell("conv", "STATIC_MAX_LEVEL", 5, 0, 0, 5, frank(tracing::level_filters::STATIC_MAX_LEVEL));
    }

    // tracing-subscriber: LevelFilter as a global layer (`Subscribe`) and as a per-layer `Filter`
    {
        use tracing_core::Collect;
        use tracing_subscriber::subscribe::{CollectExt, Filter, Subscribe};
        use tracing_subscriber::Registry;
        for &(rf, f) in FILTERS.iter() {
            let some_rank = |o: Option<LevelFilter>| o.map(frank).unwrap_or(NONE);
            s.cell("subscriber", "Subscribe::max_level_hint", rf, 0, 0, rf, some_rank(Subscribe::<Registry>::max_level_hint(&f)));
            s.cell("subscriber", "Filter::max_level_hint", rf, 0, 0, rf, some_rank(Filter::<Registry>::max_level_hint(&f)));
            let stack = tracing_subscriber::registry().with(f);
            s.cell("subscriber", "Layered::max_level_hint", rf, 0, 0, rf, some_rank(Collect::max_level_hint(&stack)));
            for (rl, m) in metas() {
                let en = (rl <= rf) as i64;
                s.cell("subscriber", "Subscribe::register_callsite", rf, rl, 0, en, interest_code(&Subscribe::<Registry>::register_callsite(&f, m)));
                s.cell("subscriber", "Filter::callsite_enabled", rf, rl, 0, en, interest_code(&Filter::<Registry>::callsite_enabled(&f, m)));
                s.cell("subscriber", "Layered::enabled", rf, rl, 0, en, Collect::enabled(&stack, m) as i64);
                s.cell("subscriber", "Layered::register_callsite", rf, rl, 0, en, interest_code(&Collect::register_callsite(&stack, m)));
            }
        }
    }

    // tracing-log: the level mapping is the identity on ranks in both directions and monotone
    {
        use tracing_log::{AsLog, AsTrace};
        let ll = [log::Level::Error, log::Level::Warn, log::Level::Info, log::Level::Debug, log::Level::Trace];
        let lf = [
            log::LevelFilter::Off,
            log::LevelFilter::Error,
            log::LevelFilter::Warn,
            log::LevelFilter::Info,
            log::LevelFilter::Debug,
            log::LevelFilter::Trace,
        ];
        let log_lrank = |l: log::Level| ll.iter().position(|x| *x == l).map(|p| p as i64 + 1).unwrap_or(INVALID);
        let log_frank = |l: log::LevelFilter| lf.iter().position(|x| *x == l).map(|p| p as i64).unwrap_or(INVALID);
        for &(rl, l) in LEVELS.iter() {
            s.cell("tracing-log", "Level::as_log", rl, 0, 0, rl, log_lrank(l.as_log()));
            s.cell("tracing-log", "log::Level::as_trace", rl, 0, 0, rl, lrank(ll[rl as usize - 1].as_trace()));
            s.cell("tracing-log", "as_log.as_trace", rl, 0, 0, rl, lrank(l.as_log().as_trace()));
            for &(rf, f) in FILTERS.iter() {
                // log's own order (Off < Error < .. < Trace) agrees after mapping
                s.cell("tracing-log", "as_log(l)<=as_log(f)", rl, rf, 0, (rl <= rf) as i64, (l.as_log() <= f.as_log()) as i64);
            }
        }
        for &(rf, f) in FILTERS.iter() {
            s.cell("tracing-log", "LevelFilter::as_log", rf, 0, 0, rf, log_frank(f.as_log()));
            s.cell("tracing-log", "log::LevelFilter::as_trace", rf, 0, 0, rf, frank(lf[rf as usize].as_trace()));
            s.cell("tracing-log", "as_log.as_trace(filter)", rf, 0, 0, rf, frank(f.as_log().as_trace()));
        }
    }

    // Display -> FromStr identity (and every other way of printing that is meant to parse back)
    for &(rl, l) in LEVELS.iter() {
        let printed = [("Display", format!("{l}")), ("to_string", l.to_string()), ("as_str", l.as_str().to_string())];
        for (how, text) in printed {
            let back = text.parse::<Level>().map(lrank).unwrap_or(NONE);
            let backf = text.parse::<LevelFilter>().map(frank).unwrap_or(NONE);
            s.ctx = format!("printed text {text:?}");
            match how {
                "Display" => {
                    s.cell("roundtrip", "Level Display->parse::<Level>", rl, 0, 0, rl, back);
                    s.cell("roundtrip", "Level Display->parse::<LevelFilter>", rl, 0, 0, rl, backf);
                }
                "to_string" => s.cell("roundtrip", "Level to_string->parse::<Level>", rl, 0, 0, rl, back),
                _ => s.cell("roundtrip", "Level as_str->parse::<Level>", rl, 0, 0, rl, back),
            }
            s.out.set("printed_forms", format!("Level {} -> {text:?} ({how})", NAMES[rl as usize]));
        }
    }
    for &(rf, f) in FILTERS.iter() {
        let text = format!("{f}");
        s.ctx = format!("printed text {text:?}");
        s.cell("roundtrip", "LevelFilter Display->parse::<LevelFilter>", rf, 0, 0, rf, text.parse::<LevelFilter>().map(frank).unwrap_or(NONE));
        s.cell("roundtrip", "LevelFilter to_string->parse::<LevelFilter>", rf, 0, 0, rf, f.to_string().parse::<LevelFilter>().map(frank).unwrap_or(NONE));
        if rf > 0 {
            s.cell("roundtrip", "LevelFilter Display->parse::<Level>", rf, 0, 0, rf, text.parse::<Level>().map(lrank).unwrap_or(NONE));
        }
        s.out.set("printed_forms", format!("LevelFilter {} -> {text:?} (Display)", NAMES[rf as usize]));
    }
    s.ctx.clear();
    s.finish()
}

// ------------------------------------------------------------------------------------------
// text

#[derive(Clone, Copy, Debug, PartialEq)]
enum Expect {
    /// documented spelling: must parse to this rank
    Must(i64),
    /// must be rejected
    Reject,
    /// a number in range written other than as the plain digit: reject, or accept as this rank
    Either(i64),
    /// the empty string for LevelFilter: must be rejected; Ok(ERROR) is finding F13
    F13,
}

/// Reference reading of "names in any letter case and the documented digits are accepted,
/// anything else is rejected" — written without any of the library's helpers.
fn classify(s: &str, is_filter: bool) -> Expect {
    let b = s.as_bytes();
    let lo: u128 = if is_filter { 0 } else { 1 };
    if !b.is_empty() && b.iter().all(|c| c.is_ascii_alphabetic()) {
        let lower: Vec<u8> = b.iter().map(|c| c | 0x20).collect();
        let r = match lower.as_slice() {
            b"off" => 0,
            b"error" => 1,
            b"warn" => 2,
            b"info" => 3,
            b"debug" => 4,
            b"trace" => 5,
            _ => return Expect::Reject,
        };
        return if r == 0 && !is_filter { Expect::Reject } else { Expect::Must(r) };
    }
    if b.len() == 1 && b[0].is_ascii_digit() {
        let v = (b[0] - b'0') as u128;
        return if v >= lo && v <= 5 { Expect::Must(v as i64) } else { Expect::Reject };
    }
    let digits = if !b.is_empty() && b[0] == b'+' { &b[1..] } else { b };
    if !digits.is_empty() && digits.iter().all(|c| c.is_ascii_digit()) {
        let mut v: u128 = 0;
        for d in digits {
            v = (v * 10 + (d - b'0') as u128).min(1u128 << 100);
        }
        return if v >= lo && v <= 5 { Expect::Either(v as i64) } else { Expect::Reject };
    }
    if b.is_empty() && is_filter {
        return Expect::F13;
    }
    Expect::Reject
}

struct TextJudge {
    out: Out,
    counts: BTreeMap<String, u64>,
    distinct: HashSet<u64>,
}
impl TextJudge {
    fn bump(&mut self, k: &str, n: u64) {
        *self.counts.entry(k.to_string()).or_insert(0) += n;
    }
    fn judge(&mut self, class: &str, s: &str) {
        for is_filter in [false, true] {
            let ty = if is_filter { "LevelFilter" } else { "Level" };
            let exp = classify(s, is_filter);
            let obs = match run::catch(|| {
                if is_filter {
                    s.parse::<LevelFilter>().map(frank).unwrap_or(NONE)
                } else {
                    s.parse::<Level>().map(lrank).unwrap_or(NONE)
                }
            }) {
                Ok(v) => v,
                Err(_) => PANIC,
            };
            self.out.evals += 1;
            self.distinct.insert(mix(mix(vlib::rng::hash_str("parse"), is_filter as u64), vlib::rng::hash_str(s)));
            self.bump(&format!("parse_{class}"), 1);
            let shown = |c: i64| -> String {
                match c {
                    NONE => "Err".into(),
                    c if (0..=5).contains(&c) => format!("Ok({})", NAMES[c as usize]),
                    c => code_name(c),
                }
            };
            let wit = |expected: &str| {
                json!({"table": "parse", "class": class, "input": s, "input_escaped": s.escape_unicode().to_string(),
                       "type": ty, "expected": expected, "observed": shown(obs)})
            };
            match exp {
                Expect::Must(r) => {
                    self.bump("parse_expected_accept", 1);
                    if obs != r {
                        self.out.violation(
                            format!("{s:?}.parse::<{ty}>() gives {}, the documented spelling means {}", shown(obs), shown(r)),
                            wit(&shown(r)),
                        );
                    } else if self.out.samples.len() < 1 && class == "case" && s.len() > 3 && s.bytes().any(|c| c.is_ascii_uppercase()) && s.bytes().any(|c| c.is_ascii_lowercase()) {
                        self.out.sample(wit(&shown(r)));
                    }
                }
                Expect::Reject => {
                    self.bump("parse_expected_reject", 1);
                    if obs != NONE {
                        self.out.violation(
                            format!("{s:?}.parse::<{ty}>() is accepted as {} although it is neither a level name nor a documented digit", shown(obs)),
                            wit("Err"),
                        );
                    } else if self.out.samples.len() < 2 && class == "lookalike" && !is_filter {
                        self.out.sample(wit("Err"));
                    }
                }
                Expect::Either(r) => {
                    if obs == NONE {
                        self.bump("parse_lenient_numeric_rejected", 1);
                    } else if obs == r {
                        self.bump("parse_lenient_numeric_accepted", 1);
                        if s.len() <= 4 {
                            self.out.set("lenient_numeric_accepted", format!("{s:?} as {ty} -> {}", NAMES[r as usize]));
                        }
                    } else {
                        self.out.violation(
                            format!("{s:?}.parse::<{ty}>() gives {}, the number it denotes means {}", shown(obs), shown(r)),
                            wit(&format!("Err or {}", shown(r))),
                        );
                    }
                }
                Expect::F13 => {
                    self.bump("parse_expected_reject", 1);
                    if obs == 1 {
                        self.out.finding(
                            "F13",
                            "\"\".parse::<LevelFilter>() is Ok(ERROR): the empty string is accepted as a level filter",
                            wit("Err"),
                        );
                    } else if obs != NONE {
                        self.out.violation(format!("\"\".parse::<LevelFilter>() gives {}", shown(obs)), wit("Err"));
                    }
                }
            }
        }
    }
    fn finish(mut self) -> Out {
        for (k, n) in std::mem::take(&mut self.counts) {
            self.out.count(&k, n);
        }
        for h in std::mem::take(&mut self.distinct) {
            self.out.distinct(h);
        }
        self.out
    }
}

const LNAMES: [&str; 6] = ["off", "error", "warn", "info", "debug", "trace"];
const WS: [&str; 16] = [
    " ", "  ", "\t", "\n", "\r", "\r\n", "\u{b}", "\u{c}", "\u{a0}", "\u{2003}", "\u{feff}", "\u{200b}", "\0", "\u{3000}", "\u{85}", "\u{2028}",
];
const PUNCT: &str = "+-!=~*#.,;:'\"`/\\|()[]{}<>?@$%^&_";

fn confusables(c: char) -> &'static [char] {
    match c {
        'e' => &['\u{435}', '\u{ff45}', 'é', 'ē', '\u{212f}', '3'],
        'r' => &['\u{433}', '\u{ff52}', 'ɾ'],
        'o' => &['\u{43e}', '\u{3bf}', '\u{ff4f}', '0', 'ö', '\u{585}'],
        'w' => &['\u{51d}', '\u{ff57}', 'ѡ'],
        'a' => &['\u{430}', '\u{ff41}', 'á', '@', 'ɑ'],
        'n' => &['\u{578}', '\u{ff4e}', 'ñ'],
        'i' => &['\u{456}', '\u{131}', '\u{ff49}', 'í', '1', 'l', '\u{130}', '!'],
        'f' => &['\u{ff46}', 'ƒ', '\u{17f}'],
        'd' => &['\u{501}', '\u{ff44}'],
        'b' => &['\u{42c}', '\u{ff42}', '6'],
        'u' => &['\u{3c5}', '\u{ff55}', 'ü', 'µ'],
        'g' => &['\u{261}', '\u{ff47}', '9'],
        't' => &['\u{ff54}', '\u{3c4}', '7'],
        'c' => &['\u{441}', '\u{ff43}', 'ç'],
        'E' => &['\u{415}', '\u{395}', '\u{ff25}', 'É'],
        'R' => &['\u{ff32}', 'Я'],
        'O' => &['\u{41e}', '\u{39f}', '\u{ff2f}', '0'],
        'W' => &['\u{ff37}', '\u{51c}'],
        'A' => &['\u{410}', '\u{391}', '\u{ff21}'],
        'N' => &['\u{39d}', '\u{ff2e}'],
        'I' => &['\u{406}', '\u{399}', '\u{ff29}', '\u{130}', 'l', '1', '|'],
        'F' => &['\u{ff26}', '\u{3dc}'],
        'D' => &['\u{ff24}'],
        'B' => &['\u{412}', '\u{392}', '\u{ff22}', '8'],
        'U' => &['\u{ff35}', 'Ü'],
        'G' => &['\u{ff27}', '\u{50c}'],
        'T' => &['\u{422}', '\u{3a4}', '\u{ff34}'],
        'C' => &['\u{421}', '\u{ff23}', '\u{3f9}'],
        _ => &[],
    }
}

fn valid_spellings() -> Vec<String> {
    let mut v = vec![];
    for n in LNAMES {
        v.push(n.to_string());
        v.push(n.to_ascii_uppercase());
        let mut c = n.to_string();
        c[..1].make_ascii_uppercase();
        v.push(c);
    }
    for d in 0..=5 {
        v.push(d.to_string());
    }
    v
}

/// The fixed corpus: (class, string).  Everything goes through `classify`, so a string that
/// happens to be a documented spelling is judged as such.
fn fixed_corpus() -> Vec<(&'static str, String)> {
    let mut c: Vec<(&'static str, String)> = vec![];
    let valid = valid_spellings();
    // every letter-case pattern of every name
    for n in LNAMES {
        let l = n.len();
        for mask in 0..(1u32 << l) {
            let s: String = n
                .chars()
                .enumerate()
                .map(|(i, ch)| if mask >> i & 1 == 1 { ch.to_ascii_uppercase() } else { ch })
                .collect();
            c.push(("case", s));
        }
    }
    // single digits
    for d in 0..=9 {
        c.push(("digit", d.to_string()));
    }
    c.push(("empty", String::new()));
    // non-ASCII strings whose Unicode case mappings spell a name (dotless i, ligatures, long s,
    // Kelvin sign, fullwidth letters): only ASCII case is ignored
    for s in ["ınfo", "ıNFO", "İNFO", "oﬀ", "Oﬀ", "OﬀF", "waRn\u{200b}", "tʀace", "ｉｎｆｏ", "ＯＦＦ", "ERROR\u{0301}", "error\u{feff}", "ſtrace", "debuɡ", "DEBUG\u{3000}", "trac\u{212f}", "\u{212a}"] {
        c.push(("unicode-lookalike", s.to_string()));
    }
    // numbers in range written differently (accepted either way), and out of range (rejected)
    for d in 0..=9 {
        for z in [1usize, 2, 3, 19, 20, 21, 40] {
            c.push(("numeric", format!("{}{d}", "0".repeat(z))));
            c.push(("numeric", format!("+{}{d}", "0".repeat(z))));
        }
        c.push(("numeric", format!("+{d}")));
        c.push(("numeric", format!("-{d}")));
        c.push(("numeric", format!("{d}0")));
        c.push(("numeric", format!("{d}.0")));
        c.push(("numeric", format!("{d}.")));
        c.push(("numeric", format!(".{d}")));
        c.push(("numeric", format!("{d}e0")));
        c.push(("numeric", format!("0x{d}")));
        c.push(("numeric", format!("0b{d}")));
        c.push(("numeric", format!("0o{d}")));
        c.push(("numeric", format!("{d}_")));
        c.push(("numeric", format!("_{d}")));
        c.push(("numeric", format!("{d}_0")));
        c.push(("numeric", format!("{d}u8")));
        c.push(("numeric", format!("{d}usize")));
        c.push(("numeric", format!("{d}i32")));
        c.push(("numeric", format!("++{d}")));
        c.push(("numeric", format!("+-{d}")));
        c.push(("numeric", format!("-+{d}")));
        c.push(("numeric", format!("--{d}")));
        c.push(("numeric", format!("+ {d}")));
        c.push(("numeric", format!("{d}+")));
        c.push(("numeric", format!("{d}-")));
        c.push(("numeric", format!("\u{2212}{d}")));
        c.push(("numeric", format!("\u{ff0b}{d}")));
        // other scripts' digits and digit-like characters
        for base in [0xff10u32, 0x660, 0x6f0, 0x966, 0x9e6, 0x1d7ce, 0x2080, 0x2460 - 1, 0x2070] {
            if let Some(ch) = char::from_u32(base + d) {
                c.push(("numeric", ch.to_string()));
                c.push(("numeric", format!("+{ch}")));
            }
        }
    }
    for n in 6..=130u32 {
        c.push(("numeric", n.to_string()));
    }
    for s in [
        "255", "256", "257", "1000", "65536", "65537", "4294967295", "4294967296", "4294967297", "4294967301", "18446744073709551615",
        "18446744073709551616", "18446744073709551617", "18446744073709551621", "99999999999999999999999999", "340282366920938463463374607431768211457",
        "+", "-", "+-", "-0", "+0", "00", "¹", "²", "³", "Ⅰ", "Ⅱ", "Ⅲ", "Ⅳ", "Ⅴ", "ⅰ", "ⅴ", "½", "1\u{fe0f}\u{20e3}", "1,", "1;", "1:", "1/1", "1 2", "1,2",
        "1e", "1f32", "١", "۳", "三", "five", "one", "zero", "NaN", "inf", "infinity", "-inf",
    ] {
        c.push(("numeric", s.to_string()));
    }
    // whitespace and invisible characters around every documented spelling
    for v in &valid {
        for w in WS {
            c.push(("whitespace", format!("{w}{v}")));
            c.push(("whitespace", format!("{v}{w}")));
            c.push(("whitespace", format!("{w}{v}{w}")));
        }
    }
    // punctuation / signs around names and digits
    for v in valid.iter().filter(|v| v.chars().all(|ch| ch.is_ascii_lowercase() || ch.is_ascii_digit())) {
        for p in PUNCT.chars() {
            c.push(("sign", format!("{p}{v}")));
            c.push(("sign", format!("{v}{p}")));
        }
    }
    // near misses: every single-character edit of every name (lower and upper case)
    let alphabet: Vec<char> = ('a'..='z').chain('0'..='9').chain(['_', '-']).collect();
    for n in LNAMES {
        for style in 0..2 {
            let base: Vec<char> = if style == 0 { n.chars().collect() } else { n.to_ascii_uppercase().chars().collect() };
            let conv = |ch: char| if style == 0 { ch } else { ch.to_ascii_uppercase() };
            for i in 0..base.len() {
                let mut d = base.clone();
                d.remove(i);
                c.push(("near-miss", d.iter().collect()));
                let mut d = base.clone();
                d.insert(i, base[i]);
                c.push(("near-miss", d.iter().collect()));
                if i + 1 < base.len() {
                    let mut d = base.clone();
                    d.swap(i, i + 1);
                    c.push(("near-miss", d.iter().collect()));
                }
                for &a in &alphabet {
                    let mut d = base.clone();
                    d[i] = conv(a);
                    c.push(("near-miss", d.iter().collect()));
                }
            }
            if style == 0 {
                for i in 0..=base.len() {
                    for &a in &alphabet {
                        let mut d = base.clone();
                        d.insert(i, a);
                        c.push(("near-miss", d.iter().collect()));
                    }
                }
            }
        }
    }
    for s in [
        "err", "errors", "erro", "warning", "warnings", "wrn", "information", "inf", "informational", "dbg", "debugging", "trc", "tracing", "traces",
        "crit", "critical", "fatal", "panic", "emerg", "alert", "notice", "verbose", "none", "all", "on", "of", "offf", "disabled", "enabled", "null",
        "nil", "false", "true", "max", "min", "default", "silent", "quiet", "log", "level", "filter", "e", "w", "i", "d", "t", "o", "ERR", "WARNING",
        "INFORMATION", "DBG", "OFFLINE", "of f", "o ff", "in fo", "war n", "e rror",
    ] {
        c.push(("near-miss", s.to_string()));
    }
    // two spellings glued together, directive-like strings
    for a in &valid {
        for b in &valid {
            c.push(("glued", format!("{a}{b}")));
        }
        for sep in [",", " ", "=", ";", "|", "::", "/", "\n"] {
            c.push(("glued", format!("{a}{sep}{}", valid[(a.len() * 7) % valid.len()])));
            c.push(("glued", format!("{a}{sep}")));
            c.push(("glued", format!("{sep}{a}")));
        }
        c.push(("glued", format!("target={a}")));
        c.push(("glued", format!("[span]={a}")));
        c.push(("glued", format!("\"{a}\"")));
        c.push(("glued", format!("'{a}'")));
        c.push(("glued", format!("`{a}`")));
        c.push(("glued", format!("({a})")));
        c.push(("glued", format!("Some({a})")));
    }
    // other printed forms of the same values
    for &(_, f) in FILTERS.iter() {
        c.push(("debug-form", format!("{f:?}")));
        c.push(("debug-form", format!("{:?}", f.into_level())));
        c.push(("debug-form", format!("{f:>8}")));
        c.push(("debug-form", format!("{f:<8}")));
    }
    for &(_, l) in LEVELS.iter() {
        c.push(("debug-form", format!("{l:?}")));
        c.push(("debug-form", format!("Level::{l}")));
        c.push(("debug-form", format!("LevelFilter::{l}")));
        c.push(("debug-form", format!("Level({l})")));
        c.push(("debug-form", format!("tracing::Level::{l}")));
        c.push(("debug-form", format!("log::Level::{l}")));
        c.push(("debug-form", format!("{l:>7}")));
        c.push(("debug-form", format!("{l:<7}")));
        c.push(("debug-form", format!("{l:^9}")));
    }
    // unicode look-alikes: one or all letters replaced, combining / invisible characters inserted
    for n in LNAMES {
        for style in 0..2 {
            let base: Vec<char> = if style == 0 { n.chars().collect() } else { n.to_ascii_uppercase().chars().collect() };
            for i in 0..base.len() {
                for &x in confusables(base[i]) {
                    let mut d = base.clone();
                    d[i] = x;
                    c.push(("lookalike", d.iter().collect()));
                }
                for inv in ['\u{301}', '\u{200d}', '\u{200c}', '\u{ad}', '\u{fe0f}', '\u{2060}', '\u{34f}'] {
                    let mut d = base.clone();
                    d.insert(i + 1, inv);
                    c.push(("lookalike", d.iter().collect()));
                }
            }
            // every letter replaced by its first confusable / by the fullwidth form
            c.push(("lookalike", base.iter().map(|&ch| confusables(ch).first().copied().unwrap_or(ch)).collect()));
            c.push((
                "lookalike",
                base.iter().map(|&ch| char::from_u32(ch as u32 - 0x20 + 0xff00).unwrap_or(ch)).collect(),
            ));
            for pre in ['\u{202e}', '\u{feff}', '\u{200e}', '\u{200f}', '\u{2066}'] {
                c.push(("lookalike", format!("{pre}{}", base.iter().collect::<String>())));
            }
        }
    }
    c
}

fn random_noise(rng: &mut Rng, valid: &[String]) -> String {
    const LETTERS: &[u8] = b"eErRoOwWaAnNiIfFdDbBuUgGtTcC";
    let extra: Vec<char> = " \t\n+-_=,.:0123456789xX\u{a0}\u{435}\u{43e}\u{131}\u{130}\u{ff11}\u{ff49}\u{200b}\u{301}\0sSlLkK\u{17f}\u{212a}"
        .chars()
        .collect();
    let any = |rng: &mut Rng| -> char {
        if rng.chance(2, 3) {
            *rng.pick(LETTERS) as char
        } else {
            *rng.pick(&extra)
        }
    };
    match rng.below(20) {
        0..=7 => {
            // 1-2 edits of a documented spelling in a random case pattern
            let mut s: Vec<char> = rng.pick(valid).chars().collect();
            for ch in s.iter_mut() {
                if rng.bool() {
                    *ch = if ch.is_ascii_lowercase() { ch.to_ascii_uppercase() } else { ch.to_ascii_lowercase() };
                }
            }
            for _ in 0..1 + rng.usize(2) {
                match rng.below(4) {
                    0 if !s.is_empty() => {
                        let i = rng.usize(s.len());
                        s.remove(i);
                    }
                    1 => {
                        let i = rng.usize(s.len() + 1);
                        let ch = any(rng);
                        s.insert(i, ch);
                    }
                    2 if !s.is_empty() => {
                        let i = rng.usize(s.len());
                        s[i] = any(rng);
                    }
                    _ if s.len() >= 2 => {
                        let i = rng.usize(s.len() - 1);
                        s.swap(i, i + 1);
                    }
                    _ => {}
                }
            }
            s.into_iter().collect()
        }
        8..=13 => {
            // random word over the letters of the names (hits real names now and then)
            let n = rng.usize(7);
            (0..n).map(|_| *rng.pick(LETTERS) as char).collect()
        }
        14..=16 => {
            // number-like
            let mut s = String::new();
            for _ in 0..rng.usize(3) {
                s.push(*rng.pick(&['+', '-', ' ', '0']));
            }
            for _ in 0..rng.usize(25) {
                s.push('0');
            }
            for _ in 0..rng.usize(3) {
                s.push((b'0' + rng.below(10) as u8) as char);
            }
            if rng.chance(1, 6) {
                s.push(any(rng));
            }
            s
        }
        _ => {
            let v = rng.pick(valid).clone();
            let a = any(rng);
            let b = any(rng);
            match rng.below(3) {
                0 => format!("{a}{v}"),
                1 => format!("{v}{b}"),
                _ => format!("{a}{v}{b}"),
            }
        }
    }
}

fn child_text(args: &Args) -> Out {
    let mut j = TextJudge { out: Out::new(), counts: BTreeMap::new(), distinct: HashSet::new() };
    if args.shard == 0 {
        let corpus = fixed_corpus();
        let mut seen: HashSet<String> = HashSet::new();
        let mut noise = 0u64;
        for (class, s) in &corpus {
            if !seen.insert(s.clone()) {
                continue;
            }
            if classify(s, true) == Expect::Reject && classify(s, false) == Expect::Reject {
                noise += 1;
            }
            j.judge(class, s);
        }
        j.out.count("fixed_corpus_strings", seen.len() as u64);
        j.out.count("fixed_corpus_noise_strings", noise);
    }
    let n = args.get_u64("noise", 400);
    let valid = valid_spellings();
    let mut rng = Rng::derive(args.seed, args.shard, 0x19);
    for _ in 0..n {
        let s = random_noise(&mut rng, &valid);
        if s.is_empty() {
            // judged exactly once, in the fixed corpus
            continue;
        }
        j.judge("random", &s);
    }
    j.out.count("random_strings", n);
    j.finish()
}

// ------------------------------------------------------------------------------------------
// hint: a FilterCollector with max_level_hint = h as the only live dispatcher

struct Live {
    arc: Arc<FilterCollector>,
    dispatch: Option<Dispatch>,
    guard: Option<DefaultGuard>,
}

fn hint_spec(h: usize) -> Spec {
    // accepts every level and target, answers `always`; only the hint varies
    Spec { thresh: 5, targets: 0b1111, dynamic: false, hint: if h == 6 { None } else { Some(h) } }
}

fn child_hint(args: &Args) -> Out {
    let mut s = NativeSink::new();
    let mode = (args.shard / 7) % 3; // 0 scoped guard, 1 global default, 2 with_default closure
    let mode_name = ["set_default", "set_global_default", "with_default"][mode as usize];
    s.out.set("install_modes", mode_name);
    let mut rng = Rng::derive(args.seed, args.shard, 0x48);
    let tail = args.get_u64("tail", 100) as usize;
    let workers = Workers::new(1);
    let fresh = Fresh::new();
    let mut used: Vec<&'static vcs::Cs> = vec![];
    let mut next_op = 1u64;
    let mut next_cid = 1u64;

    // the value before any dispatcher existed in this process
    let f0 = frank(LevelFilter::current());
    s.out.set("fresh_process_current", code_name(f0));
    s.out.evals += 1;
    if f0 == INVALID {
        s.out.violation("LevelFilter::current() in a fresh process is none of the six filters", json!({"observed": code_name(f0)}));
    }

    // plan: first hint = shard % 7; then every transition a -> b, first by a new Dispatch, then by
    // changing the hint in place + rebuild_interest_cache; then a seeded random tail
    let mut plan: Vec<(usize, bool)> = vec![((args.shard % 7) as usize, true)];
    for renew in [true, false] {
        for a in 0..7usize {
            for b in 0..7usize {
                plan.push((a, renew));
                plan.push((b, renew));
            }
        }
    }
    for _ in 0..tail {
        plan.push((rng.usize(7), rng.bool()));
    }

    let mut live: Option<Live> = None;
    let mut prev: usize = 7;
    let mut history: Vec<String> = vec![];
    for (step, &(h, renew)) in plan.iter().enumerate() {
        let renew = live.is_none() || (renew && mode != 1);
        let way: &'static str = if renew { "Dispatch::new" } else { "rebuild_interest_cache" };
        if renew {
            if let Some(mut old) = live.take() {
                drop(old.guard.take());
                drop(old.dispatch.take());
                assert_eq!(Arc::strong_count(&old.arc), 1, "HARNESS: the previous dispatcher is still alive");
            }
            let arc = Arc::new(FilterCollector::new(next_cid, hint_spec(h), true));
            next_cid += 1;
            let d = Dispatch::new(Shared(arc.clone()));
            let mut l = Live { arc, dispatch: Some(d), guard: None };
            match mode {
                0 => l.guard = Some(dispatch::set_default(l.dispatch.as_ref().unwrap())),
                1 => {
                    dispatch::set_global_default(l.dispatch.take().unwrap()).expect("HARNESS: global default already set");
                }
                _ => {}
            }
            live = Some(l);
        } else {
            live.as_ref().unwrap().arc.refilter(hint_spec(h));
            tracing_core::callsite::rebuild_interest_cache();
        }
        if history.len() < 400 {
            history.push(format!("{way}(hint {})", if h == 6 { "None".to_string() } else { format!("Some({})", NAMES[h]) }));
        }
        s.ctx = format!(
            "shard {} mode {mode_name} step {step}; last steps: {:?}",
            args.shard,
            &history[history.len().saturating_sub(6)..]
        );
        let l = live.as_ref().unwrap();
        let e = hint_rank(h);

        // 1. the published value, read on this thread and on another one
        s.cell("current", way, prev as i64, h as i64, 0, e, frank(LevelFilter::current()));
        let other = workers.run(0, || frank(LevelFilter::current())).unwrap_or(PANIC);
        s.cell("current", if renew { "Dispatch::new (other thread)" } else { "rebuild_interest_cache (other thread)" }, prev as i64, h as i64, 0, e, other);

        // 2. level <= filter == outcome of the real macros
        let arc = l.arc.clone();
        let mut body = |s: &mut NativeSink| {
            let _ = arc.take_log();
            for &(rl, lvl) in LEVELS.iter() {
                let en = (rl <= e) as i64;
                s.cell("macro", "level_enabled!", h as i64, rl, 0, en, tracing::level_enabled!(lvl) as i64);
                s.cell("macro", "level<=current()", h as i64, rl, 0, en, (lvl <= LevelFilter::current()) as i64);
                s.cell("macro", "!(level>current())", h as i64, rl, 0, en, !(lvl > LevelFilter::current()) as i64);
                for kind in [Kind::Event, Kind::Span, Kind::Probe] {
                    let reuse: Vec<&'static vcs::Cs> =
                        used.iter().copied().filter(|c| c.kind == kind && c.level == rl as usize).collect();
                    let target = rng.usize(4);
                    let want_fresh = reuse.is_empty() || rng.chance(1, 3);
                    let (cs, first) = match (want_fresh, fresh.take(rl as usize, target, kind)) {
                        (true, Some(c)) => {
                            used.push(c);
                            (c, 1i64)
                        }
                        _ if !reuse.is_empty() => (*rng.pick(&reuse), 0i64),
                        _ => continue,
                    };
                    let opid = next_op;
                    next_op += 1;
                    let res = run::catch(|| match (cs.emit)(opid) {
                        Emitted::Event => (None, None),
                        Emitted::Span(sp) => {
                            let d = sp.is_disabled();
                            drop(sp);
                            (Some(d), None)
                        }
                        Emitted::Probe(b) => (None, Some(b)),
                    });
                    let log = arc.take_log();
                    let mine = log
                        .iter()
                        .filter(|g| matches!(g, Got::Event { id, .. } | Got::NewSpan { id, .. } if *id == opid))
                        .count() as i64;
                    let foreign = log
                        .iter()
                        .filter(|g| matches!(g, Got::Event { id, .. } | Got::NewSpan { id, .. } if *id != opid))
                        .count() as i64;
                    let (dis, probe) = match res {
                        Ok(r) => r,
                        Err(_) => {
                            s.cell("macro", "no panic", h as i64, rl, first, 0, PANIC);
                            continue;
                        }
                    };
                    match kind {
                        Kind::Event => s.cell("macro", "event! deliveries", h as i64, rl, first, en, mine),
                        Kind::Span => {
                            s.cell("macro", "span! deliveries", h as i64, rl, first, en, mine);
                            s.cell("macro", "span! handle enabled", h as i64, rl, first, en, !dis.unwrap_or(true) as i64);
                        }
                        Kind::Probe => {
                            s.cell("macro", "enabled!", h as i64, rl, first, en, probe.unwrap_or(false) as i64);
                            s.cell("macro", "enabled! deliveries", h as i64, rl, first, 0, mine);
                        }
                    }
                    if foreign != 0 {
                        s.cell("macro", "foreign deliveries", h as i64, rl, first, 0, foreign);
                    }
                }
            }
        };
        if mode == 2 {
            let d = l.dispatch.clone().unwrap();
            dispatch::with_default(&d, || body(&mut s));
        } else {
            body(&mut s);
        }
        if l.arc.bad_deliveries.load(std::sync::atomic::Ordering::SeqCst) != 0 {
            panic!("HARNESS: collector accepting everything reports a bad delivery");
        }
        prev = h;
    }
    s.bump("hint_steps", plan.len() as u64);
    s.ctx.clear();
    drop(live);
    drop(workers);
    s.finish()
}
