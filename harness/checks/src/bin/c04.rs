//! C04 — racing callsite registration and collector turnover converge; none is stranded
//! (DESIGN.md 5/C04).  2-3 real threads per scenario over fresh callsites, chaos delays at
//! the verif hook sites; in-race oracle + quiescence oracle + panic / deadlock detector.

use std::sync::atomic::{AtomicBool, AtomicU64, Ordering};
use std::sync::{Arc, Barrier, Mutex};
use std::time::{Duration, Instant};
use tracing_core::collect::Interest;
use tracing_core::dispatch::{self, Dispatch};
use tracing_core::span::{Attributes, Current, Id, Record};
use tracing_core::{Collect, Event, Metadata};
use vcs::{Cs, Emitted, Fresh, Kind};
use vlib::rec::{FilterCollector, Got, Shared, Spec};
use vlib::run::{self, Finish};
use vlib::{chaos, json, Args, ChildSpec, Map, Mode, Out, Rng, Value};

const ID: &str = "C04";

fn main() {
    let args = run::parse_args();
    match args.mode.clone() {
        Mode::Parent => parent(&args),
        Mode::Child(k) if k == "raw" => child_raw(&args),
        Mode::Child(k) => child(&args, k == "evil"),
        Mode::Replay(p) => run::replay(ID, &p),
    }
}

/// Monitor-free race for the interpreter / sanitizer layers: the racing threads share nothing but
/// the library (no stamps, no chaos hook bookkeeping, collectors that only count with relaxed
/// atomics).  Emitters hit fresh callsites for the first time under a scoped default of their
/// own; another thread creates and drops collectors with varying hints and rebuilds the interest
/// cache.  The only oracle besides the tool: nothing is counted more often than it was emitted.
fn child_raw(args: &Args) {
    use std::sync::atomic::{AtomicU64, Ordering};
    use tracing_core::{span, Collect, Dispatch, Event, LevelFilter, Metadata};
    struct Counting {
        hint: Option<LevelFilter>,
        events: AtomicU64,
        registered: AtomicU64,
    }
    impl Collect for Counting {
        fn register_callsite(&self, _: &'static Metadata<'static>) -> tracing_core::collect::Interest {
            self.registered.fetch_add(1, Ordering::Relaxed);
            tracing_core::collect::Interest::sometimes()
        }
        fn enabled(&self, m: &Metadata<'_>) -> bool {
            self.hint.map(|h| *m.level() <= h).unwrap_or(true)
        }
        fn max_level_hint(&self) -> Option<LevelFilter> {
            self.hint
        }
        fn new_span(&self, _: &span::Attributes<'_>) -> span::Id {
            span::Id::from_u64(1)
        }
        fn record(&self, _: &span::Id, _: &span::Record<'_>) {}
        fn record_follows_from(&self, _: &span::Id, _: &span::Id) {}
        fn event(&self, _: &Event<'_>) {
            self.events.fetch_add(1, Ordering::Relaxed);
        }
        fn enter(&self, _: &span::Id) {}
        fn exit(&self, _: &span::Id) {}
        fn current_span(&self) -> tracing_core::span::Current {
            tracing_core::span::Current::none()
        }
    }
    let mut out = Out::new();
    let scen = args.get_u64("scen", 4);
    let fresh = vcs::Fresh::new();
    for sidx in 0..scen {
        let mut rng = Rng::derive(args.seed ^ 0xC04E, args.shard, sidx);
        let nemit = 1 + rng.usize(2);
        let rounds = 3 + rng.usize(4);
        let hints = [None, Some(LevelFilter::ERROR), Some(LevelFilter::INFO), Some(LevelFilter::TRACE)];
        let mut sites: Vec<Vec<&'static vcs::Cs>> = vec![];
        for _ in 0..nemit {
            sites.push((0..rounds).filter_map(|_| fresh.take(1 + rng.usize(5), rng.usize(4), vcs::Kind::Event)).collect());
        }
        let pre: Vec<&'static vcs::Cs> = (0..2).filter_map(|_| fresh.take(1 + rng.usize(5), rng.usize(4), vcs::Kind::Event)).collect();
        for c in &pre {
            let _ = (c.emit)(0);
        }
        if pre.is_empty() {
            break;
        }
                let counters: Vec<std::sync::Arc<Counting>> = (0..nemit).map(|i| std::sync::Arc::new(Counting { hint: hints[(i + sidx as usize) % 4], events: AtomicU64::new(0), registered: AtomicU64::new(0) })).collect();
        let emitted = AtomicU64::new(0);
        std::thread::scope(|sc| {
            for (i, my) in sites.iter().enumerate() {
                let c = counters[i].clone();
                let emitted = &emitted;
                sc.spawn(move || {
                    let d = Dispatch::new(SharedCounting(c));
                    let _g = tracing_core::dispatch::set_default(&d);
                    for (k, cs) in my.iter().enumerate() {
                        let _ = (cs.emit)(k as u64);
                        emitted.fetch_add(1, Ordering::Relaxed);
                        std::thread::yield_now();
                    }
                });
            }
            // plus one emitter WITHOUT a scope of its own: it takes the global-default path while
            // (in the first scenario of the process) the global default is being installed
            // (its callsites were hit before the race, so its loop takes no registry lock)
            let free = pre.clone();
            sc.spawn(move || {
                for k in 0..3 * rounds {
                    let _ = (free[k % free.len()].emit)(100 + k as u64);
                    std::thread::yield_now();
                }
            });
            sc.spawn(move || {
                for k in 0..rounds {
                    if sidx == 0 && k == 1 {
                        let _ = tracing_core::dispatch::set_global_default(Dispatch::new(SharedCounting(std::sync::Arc::new(Counting { hint: None, events: AtomicU64::new(0), registered: AtomicU64::new(0) }))));
                    }
                    let d = Dispatch::new(SharedCounting(std::sync::Arc::new(Counting { hint: hints[k % 4], events: AtomicU64::new(0), registered: AtomicU64::new(0) })));
                    std::thread::yield_now();
                    if k % 2 == 0 {
                        tracing_core::callsite::rebuild_interest_cache();
                    }
                    drop(d);
                }
            });
        });
        let got: u64 = counters.iter().map(|c| c.events.load(Ordering::Relaxed)).sum();
        out.evals += emitted.load(Ordering::Relaxed);
        out.count("raw_scenarios", 1);
        out.count("raw_first_hits", emitted.load(Ordering::Relaxed));
        out.count("raw_events_counted", got);
        if got > emitted.load(Ordering::Relaxed) {
            out.violation("more events were delivered than were emitted", json!({"kind": "raw", "scenario": sidx, "emitted": emitted.load(Ordering::Relaxed), "counted": got}));
        }
        out.distinct_str(&format!("raw|e{nemit}|r{rounds}"));
    }
    out.emit();
}
struct SharedCounting<T>(std::sync::Arc<T>);
impl<T: tracing_core::Collect> tracing_core::Collect for SharedCounting<T> {
    fn register_callsite(&self, m: &'static tracing_core::Metadata<'static>) -> tracing_core::collect::Interest {
        self.0.register_callsite(m)
    }
    fn enabled(&self, m: &tracing_core::Metadata<'_>) -> bool {
        self.0.enabled(m)
    }
    fn max_level_hint(&self) -> Option<tracing_core::LevelFilter> {
        self.0.max_level_hint()
    }
    fn new_span(&self, a: &tracing_core::span::Attributes<'_>) -> tracing_core::span::Id {
        self.0.new_span(a)
    }
    fn record(&self, s: &tracing_core::span::Id, r: &tracing_core::span::Record<'_>) {
        self.0.record(s, r)
    }
    fn record_follows_from(&self, a: &tracing_core::span::Id, b: &tracing_core::span::Id) {
        self.0.record_follows_from(a, b)
    }
    fn event(&self, e: &tracing_core::Event<'_>) {
        self.0.event(e)
    }
    fn enter(&self, s: &tracing_core::span::Id) {
        self.0.enter(s)
    }
    fn exit(&self, s: &tracing_core::span::Id) {
        self.0.exit(s)
    }
    fn current_span(&self) -> tracing_core::span::Current {
        self.0.current_span()
    }
}

fn parent(args: &Args) {
    let t0 = Instant::now();
    let mut out = Out::new();
    let shards = args.get_u64("shards", args.tier.pick(128, 4000));
    let spec = ChildSpec::new("race", shards)
        .arg("scen", args.get_u64("scen", 320))
        .timeout(240);
    let ends = run::run_children(args, &spec, &mut out);
    run::classify_ends(&ends, &mut out, true);
    // re-entrant collector class: one scenario per process (a deadlock ends the process)
    let nevil = args.get_u64("evil", args.tier.pick(96, 1600));
    let ends = run::run_children(args, &ChildSpec::new("evil", nevil).arg("scen", 1).timeout(120), &mut out);
    run::classify_ends(&ends, &mut out, true);
    let nraw = args.get_u64("raw", args.tier.pick(32, 320));
    let ends = run::run_children(args, &ChildSpec::new("raw", nraw).arg("scen", 24).timeout(240), &mut out);
    run::classify_ends(&ends, &mut out, true);
    let mut extra = Map::new();
    // pair-order coverage summary: for every unordered pair of sites seen on two threads, were both orders seen?
    let mut both = 0u64;
    let mut one = vec![];
    if let Some(s) = out.sets.get("pair_orders") {
        for p in s {
            if let Some((a, b)) = p.split_once('<') {
                if a < b {
                    if s.contains(&format!("{b}<{a}")) {
                        both += 1;
                    } else {
                        one.push(p.clone());
                    }
                } else if !s.contains(&format!("{b}<{a}")) {
                    one.push(p.clone());
                }
            }
        }
    }
    extra.insert("site_pairs_seen_in_both_orders".into(), json!(both));
    extra.insert("site_pairs_seen_in_one_order_only".into(), json!(one.iter().take(40).collect::<Vec<_>>()));
    vlib::sanlayer::run_layers(ID, args, &mut out, &mut extra);
    run::finish(
        Finish {
            id: ID,
            args,
            t0,
            rule: "scenarios of 2-3 racing threads over fresh macro callsites: first hits of the same/different callsites, Dispatch::new + set_default + emit, drop(Dispatch), rebuild_interest_cache, (first scenario of some processes) set_global_default, and a re-entrant collector that emits from register_callsite; chaos delays (yield/spin/sleep/park-until-n-foreign-hook-events) at every hook site. \
                   evaluations = in-race emissions judged exactly (emitter has its own installed collector) + quiescence emissions judged + offered-callsite checks; \
                   non-trivial = every scenario in which >=2 threads passed hook sites; distinct = distinct cross-thread orderings of hook sites (interleaving signatures)",
            assumptions: vec![
                "collectors are self-consistent FilterCollectors (static or dynamic with a constant flag); no filter changes during a race".into(),
                "deadlock = every unfinished scenario thread stuck after a before-lock hook with no hook progress for 3 s (wait-for witness); a watchdog firing without that witness is inconclusive".into(),
                "OS schedules are sampled, perturbed by the chaos injector; orderings never produced are not judged".into(),
            ],
            min_evals: 5000,
            min_distinct: 200,
            exhaustive: false,
            extra,
        },
        out,
    );
}

// ---- re-entrant ("evil") collector: emits at a fresh callsite from inside register_callsite ----
struct Evil {
    inner: Arc<FilterCollector>,
    cs: &'static Cs,
    armed: Arc<AtomicBool>,
    fired: Arc<AtomicU64>,
}
impl Collect for Evil {
    fn register_callsite(&self, m: &'static Metadata<'static>) -> Interest {
        if self.armed.swap(false, Ordering::SeqCst) {
            self.fired.fetch_add(1, Ordering::SeqCst);
            let _ = (self.cs.emit)(0xE011);
        }
        self.inner.register_callsite(m)
    }
    fn enabled(&self, m: &Metadata<'_>) -> bool {
        self.inner.enabled(m)
    }
    fn max_level_hint(&self) -> Option<tracing_core::LevelFilter> {
        self.inner.max_level_hint()
    }
    fn new_span(&self, a: &Attributes<'_>) -> Id {
        self.inner.new_span(a)
    }
    fn record(&self, s: &Id, r: &Record<'_>) {
        self.inner.record(s, r)
    }
    fn record_follows_from(&self, a: &Id, b: &Id) {
        self.inner.record_follows_from(a, b)
    }
    fn event(&self, e: &Event<'_>) {
        self.inner.event(e)
    }
    fn enter(&self, s: &Id) {
        self.inner.enter(s)
    }
    fn exit(&self, s: &Id) {
        self.inner.exit(s)
    }
    fn try_close(&self, s: Id) -> bool {
        self.inner.try_close(s)
    }
    fn current_span(&self) -> Current {
        Current::unknown()
    }
}

#[derive(Clone, Debug)]
enum Act {
    Hit(usize),
    NewInstallHit { spec: Spec, cs: usize, keep: bool, evil: bool },
    DropPre(usize),
    Rebuild,
    InstallPreHit { pre: usize, cs: usize },
    SetGlobal { spec: Spec },
}

struct EmitRec {
    call: u64,
    ret: u64,
    opid: u64,
    cid: Option<u64>,
    expected: bool,
    cs: usize,
}

fn gen_spec(rng: &mut Rng) -> Spec {
    let thresh = [0, 2, 3, 4, 5, 5][rng.usize(6)];
    let targets = if rng.chance(1, 2) { 0b1111 } else { rng.below(16) as u8 };
    let hint = if rng.bool() { None } else { Some(thresh + rng.usize(6 - thresh)) };
    Spec {
        thresh,
        targets,
        dynamic: rng.chance(1, 3),
        hint,
    }
}

fn emit(cs: &'static Cs, opid: u64) {
    match (cs.emit)(opid) {
        Emitted::Span(s) => drop(s),
        _ => {}
    }
}

fn delivered(arc: &FilterCollector, opid: u64) -> usize {
    arc.log
        .lock()
        .unwrap()
        .iter()
        .filter(|g| matches!(g, Got::Event { id, .. } | Got::NewSpan { id, .. } if *id == opid))
        .count()
}

fn child(args: &Args, evil: bool) {
    let nscen = args.get_u64("scen", 320);
    let only = args.get("only").and_then(|s| s.parse::<u64>().ok());
    let mut out = Out::new();
    let fresh = Fresh::new();
    chaos::install();
    let mut next_cid = 1u64;
    let mut global_used = false;
    let mut pglobal: Option<(Arc<FilterCollector>, Dispatch)> = None;
    for s in 0..nscen {
        if let Some(o) = only {
            if s != o {
                continue;
            }
        }
        let mut rng = Rng::derive(args.seed, if evil { 0xE04 } else { 0xC04 } + args.shard, s);
        match scenario(&mut rng, &fresh, &mut out, &mut next_cid, &mut global_used, &mut pglobal, args, s, evil) {
            Ok(true) => {}
            Ok(false) => break, // pool exhausted
            Err(()) => break,   // violation recorded; process-wide state may be off
        }
    }
    chaos::uninstall();
    out.emit();
}

#[allow(clippy::too_many_arguments)]
fn scenario(
    rng: &mut Rng,
    fresh: &Fresh,
    out: &mut Out,
    next_cid: &mut u64,
    global_used: &mut bool,
    pglobal: &mut Option<(Arc<FilterCollector>, Dispatch)>,
    args: &Args,
    sidx: u64,
    evil_class: bool,
) -> Result<bool, ()> {
    // ---- setup -----------------------------------------------------------------------
    let ncs = 1 + rng.usize(3);
    let mut css: Vec<&'static Cs> = vec![];
    for _ in 0..ncs {
        let kind = if rng.chance(1, 3) { Kind::Span } else { Kind::Event };
        match fresh.take(1 + rng.usize(5), rng.usize(4), kind) {
            Some(c) => css.push(c),
            None => return Ok(false),
        }
    }
    let evil_cs = if evil_class {
        match fresh.take(1 + rng.usize(5), rng.usize(4), Kind::Event) {
            Some(c) => Some(c),
            None => return Ok(false),
        }
    } else {
        None
    };
    let npre = rng.usize(3);
    let all: Arc<Mutex<Vec<Arc<FilterCollector>>>> = Arc::new(Mutex::new(vec![]));
    let mut pre: Vec<Arc<Mutex<Option<Dispatch>>>> = vec![];
    let mut pre_arcs = vec![];
    let mut desc: Vec<String> = vec![];
    for _ in 0..npre {
        let spec = gen_spec(rng);
        let a = Arc::new(FilterCollector::new(*next_cid, spec, true));
        *next_cid += 1;
        all.lock().unwrap().push(a.clone());
        pre.push(Arc::new(Mutex::new(Some(vlib::rec::dispatch_of(a.clone(), a.cid)))));
        desc.push(format!("pre c{} = {} as {}", a.cid, spec.code(), vlib::rec::DISPATCH_HOW[(a.cid % 4) as usize]));
        pre_arcs.push(a);
    }
    // a fraction of the callsites is hit once before the race (cached interest exists)
    for (i, c) in css.iter().enumerate() {
        if rng.chance(1, 4) {
            emit(c, 0);
            desc.push(format!("pre-hit cs{i}"));
        }
    }
    for a in all.lock().unwrap().iter() {
        a.take_log();
    }
    let nt = 2 + rng.usize(2);
    let use_global = !*global_used && sidx == 0 && rng.chance(1, 3);
    let mut scripts: Vec<Vec<Act>> = vec![];
    for t in 0..nt {
        let n = 1 + rng.usize(4);
        let mut v = vec![];
        for k in 0..n {
            let a = match rng.weighted(&[6, 6, if npre > 0 { 2 } else { 0 }, 2, if npre > 0 { 3 } else { 0 }]) {
                0 => Act::Hit(rng.usize(ncs)),
                1 => Act::NewInstallHit {
                    spec: gen_spec(rng),
                    cs: rng.usize(ncs),
                    keep: rng.bool(),
                    evil: evil_class && t == 0 && k == 0,
                },
                2 => Act::DropPre(rng.usize(npre)),
                3 => Act::Rebuild,
                _ => Act::InstallPreHit { pre: rng.usize(npre), cs: rng.usize(ncs) },
            };
            v.push(a);
        }
        if use_global && t == nt - 1 {
            v.insert(0, Act::SetGlobal { spec: gen_spec(rng) });
        }
        scripts.push(v);
    }
    if evil_class && !scripts[0].iter().any(|a| matches!(a, Act::NewInstallHit { evil: true, .. })) {
        scripts[0].insert(0, Act::NewInstallHit { spec: gen_spec(rng), cs: rng.usize(ncs), keep: true, evil: true });
    }
    if use_global {
        *global_used = true;
    }
    for (t, s) in scripts.iter().enumerate() {
        desc.push(format!("T{t}: {s:?}"));
    }
    let intensity = [0u32, 15, 40, 70, 90][rng.usize(5)];
    let park = rng.chance(2, 3);
    out.count("scenarios", 1);
    if evil_class {
        out.count("scenarios_reentrant_collector", 1);
    }
    if std::env::var("VERIF_C04_TRACE").is_ok() {
        eprintln!("C04-TRACE scenario {sidx}: {desc:?}");
    }
    let witness = |extra: Value| -> Value {
        json!({"scenario_index": sidx, "shard": args.shard, "callsites": css.iter().map(|c| format!("#{} {:?} {} {}", c.idx, c.kind, vcs::LEVEL_NAMES[c.level], vcs::TARGETS[c.target])).collect::<Vec<_>>(),
               "setup_and_scripts": desc, "chaos_intensity": intensity, "detail": extra,
               "replay_hint": "child args + only=<scenario_index> re-runs this scenario (same inputs and delay script; the OS schedule is not reproducible)"})
    };

    // ---- race ------------------------------------------------------------------------
    let barrier = Arc::new(Barrier::new(nt));
    let opctr = Arc::new(AtomicU64::new(sidx * 1000 + 1));
    let cidctr = Arc::new(AtomicU64::new(*next_cid));
    let evil_fired = Arc::new(AtomicU64::new(0));
    let evil_armed = Arc::new(AtomicBool::new(false));
    let global_arc: Arc<Mutex<Option<(Arc<FilterCollector>, Dispatch)>>> = Arc::new(Mutex::new(None));
    let global_stamp: Arc<Mutex<Option<(u64, u64)>>> = Arc::new(Mutex::new(None));
    type Ret = (Vec<EmitRec>, Vec<(Arc<FilterCollector>, Dispatch)>, Vec<(u64, u32)>);
    let mut hs: Vec<std::thread::JoinHandle<Ret>> = vec![];
    for (t, script) in scripts.iter().cloned().enumerate() {
        let barrier = barrier.clone();
        let css = css.clone();
        let pre = pre.clone();
        let pre_arcs = pre_arcs.clone();
        let all = all.clone();
        let opctr = opctr.clone();
        let cidctr = cidctr.clone();
        let cseed = rng.next_u64();
        let evil_fired = evil_fired.clone();
        let evil_armed = evil_armed.clone();
        let global_arc = global_arc.clone();
        let global_stamp = global_stamp.clone();
        hs.push(std::thread::spawn(move || {
            let mut recs = vec![];
            let mut kept = vec![];
            chaos::arm(t, cseed, intensity, park);
            barrier.wait();
            for act in script {
                match act {
                    Act::Hit(ci) => {
                        let opid = opctr.fetch_add(1, Ordering::SeqCst);
                        let (sp, _) = vlib::stamps::timed(|| emit(css[ci], opid));
                        recs.push(EmitRec { call: sp.call, ret: sp.ret, opid, cid: None, expected: false, cs: ci });
                    }
                    Act::NewInstallHit { spec, cs, keep, evil } => {
                        let cid = cidctr.fetch_add(1, Ordering::SeqCst);
                        let a = Arc::new(FilterCollector::new(cid, spec, true));
                        all.lock().unwrap().push(a.clone());
                        let d = if evil {
                            Dispatch::new(Evil { inner: a.clone(), cs: evil_cs.unwrap(), armed: evil_armed.clone(), fired: evil_fired.clone() })
                        } else {
                            vlib::rec::dispatch_of(a.clone(), cid)
                        };
                        if evil {
                            // arm after creation: the next callsite offered to it (a first hit by
                            // anybody, or a rebuild) makes it emit from inside register_callsite
                            evil_armed.store(true, Ordering::SeqCst);
                        }
                        let g = dispatch::set_default(&d);
                        let opid = opctr.fetch_add(1, Ordering::SeqCst);
                        let (sp, _) = vlib::stamps::timed(|| emit(css[cs], opid));
                        let c = css[cs];
                        recs.push(EmitRec { call: sp.call, ret: sp.ret, opid, cid: Some(cid), expected: spec.accepts(c.level, c.target), cs });
                        drop(g);
                        if keep {
                            kept.push((a, d));
                        } else {
                            drop(d);
                        }
                    }
                    Act::DropPre(i) => {
                        let d = pre[i].lock().unwrap().take();
                        drop(d);
                    }
                    Act::Rebuild => tracing_core::callsite::rebuild_interest_cache(),
                    Act::InstallPreHit { pre: i, cs } => {
                        let d = pre[i].lock().unwrap().clone();
                        if let Some(d) = d {
                            let g = dispatch::set_default(&d);
                            let opid = opctr.fetch_add(1, Ordering::SeqCst);
                            let (st, _) = vlib::stamps::timed(|| emit(css[cs], opid));
                            let c = css[cs];
                            let sp = pre_arcs[i].spec();
                            recs.push(EmitRec { call: st.call, ret: st.ret, opid, cid: Some(pre_arcs[i].cid), expected: sp.accepts(c.level, c.target), cs });
                            drop(g);
                        }
                    }
                    Act::SetGlobal { spec } => {
                        let cid = cidctr.fetch_add(1, Ordering::SeqCst);
                        let a = Arc::new(FilterCollector::new(cid, spec, true));
                        all.lock().unwrap().push(a.clone());
                        let d = vlib::rec::dispatch_of(a.clone(), cid);
                        let (st, ok) = vlib::stamps::timed(|| dispatch::set_global_default(d.clone()).is_ok());
                        if ok {
                            *global_arc.lock().unwrap() = Some((a, d));
                            *global_stamp.lock().unwrap() = Some((st.call, st.ret));
                        }
                    }
                }
            }
            (recs, kept, chaos::disarm())
        }));
    }
    // ---- watchdog / deadlock detector -------------------------------------------------
    let t0 = Instant::now();
    let mut last_seq = chaos::seq();
    let mut last_progress = Instant::now();
    loop {
        if hs.iter().all(|h| h.is_finished()) {
            break;
        }
        let s = chaos::seq();
        if s != last_seq {
            last_seq = s;
            last_progress = Instant::now();
        }
        if last_progress.elapsed() > Duration::from_secs(if evil_class { 1 } else { 3 } * run::slow_factor()) {
            let stuck: Vec<(usize, u32)> = hs
                .iter()
                .enumerate()
                .filter(|(_, h)| !h.is_finished())
                .map(|(t, _)| (t, chaos::last_site(t).0))
                .collect();
            let names: Vec<String> = stuck.iter().map(|(t, s)| format!("T{t} last passed `{}`", chaos::site_name(*s))).collect();
            let all_before_lock = stuck.iter().all(|(_, s)| chaos::is_before_lock(*s));
            // a wait-for witness needs a holder: some unfinished thread holds the dispatcher
            // lock (per the after-lock / unlocked hooks) while every unfinished thread is about
            // to block on it.  Without a holder the stall is CPU starvation, not a deadlock.
            let holders: Vec<(usize, u32)> = stuck.iter().map(|(t, _)| (*t, chaos::held_locks(*t))).filter(|x| x.1 > 0).collect();
            if all_before_lock && holders.is_empty() {
                // nobody holds the lock: keep waiting (the 60 s watchdog turns it into inconclusive)
                last_progress = Instant::now();
                out.count("stalls_without_a_lock_holder_waited_out", 1);
                continue;
            }
            if all_before_lock {
                let w = witness(json!({"stuck_threads": names, "evil_collector_emitted_from_register_callsite": evil_fired.load(Ordering::SeqCst), "no_hook_progress_for_s": if evil_class { 1 } else { 3 }, "threads_holding_the_dispatcher_lock": format!("{holders:?}")}));
                if evil_class && evil_fired.load(Ordering::SeqCst) > 0 {
                    let mut sites: Vec<&str> = stuck.iter().map(|(_, s)| chaos::site_name(*s)).collect();
                    sites.sort();
                    out.set("f15_stuck_sites", format!("{sites:?}"));
                    out.finding(
                        "F15",
                        "deadlock: a collector that emits at a not-yet-registered callsite from inside register_callsite takes the dispatcher read lock a second time while a writer (Dispatch::new / rebuild_interest_cache) is queued",
                        w,
                    );
                } else {
                    out.violation("deadlock: every unfinished thread is blocked acquiring the dispatcher lock", w);
                }
                out.emit();
                std::process::exit(0);
            }
            // no wait-for witness (threads not even at a lock): a stall, e.g. CPU starvation on a
            // loaded machine; keep waiting, the 60 s watchdog below makes it inconclusive
            last_progress = Instant::now();
            out.count("stalls_without_a_wait_for_witness_waited_out", 1);
            let _ = names;
        }
        if t0.elapsed() > Duration::from_secs(60 * run::slow_factor()) {
            out.inconclusive(format!("scenario {sidx} of shard {} exceeded the 60 s watchdog", args.shard));
            out.emit();
            std::process::exit(0);
        }
        std::thread::sleep(Duration::from_micros(100));
    }
    // the re-entrant collector is a harness object: stop it from emitting during the
    // sequential oracle phases below (its hazard under a held dispatcher lock is F15)
    evil_armed.store(false, Ordering::SeqCst);
    let mut recs: Vec<EmitRec> = vec![];
    let mut live: Vec<(Arc<FilterCollector>, Dispatch)> = vec![];
    let mut hooklogs = vec![];
    for (t, h) in hs.into_iter().enumerate() {
        match h.join() {
            Ok((r, k, hl)) => {
                recs.extend(r);
                live.extend(k);
                hooklogs.push((t, hl));
            }
            Err(p) => {
                out.violation(
                    "panic in a thread racing callsite registration / collector turnover",
                    witness(json!({"panic": run::panic_msg(&p), "thread": t})),
                );
                return Err(());
            }
        }
    }
    *next_cid = cidctr.load(Ordering::SeqCst);
    for (i, p) in pre.iter().enumerate() {
        if let Some(d) = p.lock().unwrap().clone() {
            live.push((pre_arcs[i].clone(), d));
        }
    }
    if let Some(g) = global_arc.lock().unwrap().take() {
        *pglobal = Some(g);
    }
    let global: Option<Arc<FilterCollector>> = pglobal.as_ref().map(|g| g.0.clone());
    let mut allv: Vec<Arc<FilterCollector>> = all.lock().unwrap().clone();
    if let Some((a, d)) = pglobal.as_ref() {
        if !allv.iter().any(|x| x.cid == a.cid) {
            allv.push(a.clone());
        }
        live.push((a.clone(), d.clone()));
    }

    // ---- in-race oracle ---------------------------------------------------------------
    // F30: an emission of a thread WITHOUT a scoped default whose cached interest was read as
    // `always` before another thread's set_global_default completed is handed to the new
    // global default without consulting its filter.  Narrow signature: the collector is the one
    // that became the global default in THIS scenario, every delivery it rejects comes from a
    // scope-less emission whose [call, ret] interval overlaps the set_global_default call.
    let gstamp = *global_stamp.lock().unwrap();
    let mut f30 = false;
    if let (Some((gc, gr)), Some(g)) = (gstamp, pglobal.as_ref().map(|x| x.0.clone())) {
        if g.bad_deliveries.load(Ordering::SeqCst) != 0 {
            let sp = g.spec();
            let rejected: Vec<u64> = g.log.lock().unwrap().iter().filter_map(|x| match x {
                Got::Event { id, level, target } | Got::NewSpan { id, level, target, .. } if !sp.accepts(*level, *target) => Some(*id),
                _ => None,
            }).collect();
            let all_match = !rejected.is_empty() && rejected.iter().all(|id| {
                recs.iter().any(|r| r.opid == *id && r.cid.is_none() && r.call < gr && r.ret > gc)
            });
            if all_match {
                f30 = true;
                out.finding(
                    "F30",
                    "an emission by a thread without a scoped default that read its callsite's cached interest as `always` before another thread's set_global_default completed is delivered to the new global default although that collector's filter rejects it (Event::dispatch does not re-ask enabled)",
                    witness(json!({"global_collector": sp.code(), "rejected_op_ids": rejected, "set_global_default_stamps": [gc, gr],
                                   "emissions": recs.iter().filter(|r| rejected.contains(&r.opid)).map(|r| format!("op{} [{}..{}] scope-less", r.opid, r.call, r.ret)).collect::<Vec<_>>()})),
                );
            }
        }
    }
    for a in &allv {
        if f30 && Some(a.cid) == pglobal.as_ref().map(|x| x.0.cid) {
            continue;
        }
        if a.bad_deliveries.load(Ordering::SeqCst) != 0 {
            out.violation(
                format!("during the race collector c{} was handed an emission its own filter rejects", a.cid),
                witness(json!({"collector": a.spec().code(),
                               "is_the_global_default": Some(a.cid) == pglobal.as_ref().map(|x| x.0.cid),
                               "rejected_deliveries": a.log.lock().unwrap().iter().filter_map(|x| match x {
                                   Got::Event { id, level, target } | Got::NewSpan { id, level, target, .. } if !a.spec().accepts(*level, *target) => Some(*id),
                                   _ => None,
                               }).map(|id| match recs.iter().find(|r| r.opid == id) {
                                   Some(r) => format!("op{id}: emitted by a thread whose own scoped collector is {:?}, stamps [{}..{}], callsite cs{}", r.cid, r.call, r.ret, r.cs),
                                   None => format!("op{id}: not an emission of this scenario's scripts"),
                               }).collect::<Vec<_>>()})),
            );
            return Err(());
        }
    }
    // (the counter is cumulative and the global default lives on into the next scenario of this
    // process: deliveries judged here - attributed to F30 above - must not be judged again)
    for a in &allv {
        a.bad_deliveries.store(0, Ordering::SeqCst);
    }
    for r in &recs {
        let c = css[r.cs];
        match r.cid {
            Some(cid) => {
                out.evals += 1;
                out.count("in_race_emissions_with_own_collector", 1);
                let a = allv.iter().find(|a| a.cid == cid).expect("HARNESS: collector");
                let n = delivered(a, r.opid);
                let elsewhere: usize = allv.iter().filter(|x| x.cid != cid).map(|x| delivered(x, r.opid)).sum();
                if n != r.expected as usize || elsewhere != 0 {
                    out.violation(
                        if r.expected {
                            "an emission that started after its thread's collector was installed was not delivered to it although its filter accepts"
                        } else {
                            "an emission was delivered although the emitting thread's installed collector rejects it"
                        },
                        witness(json!({"op": r.opid, "collector": format!("c{cid} = {}", a.spec().code()),
                                       "callsite": format!("cs{} {} {}", r.cs, vcs::LEVEL_NAMES[c.level], vcs::TARGETS[c.target]),
                                       "expected": r.expected, "delivered_to_it": n, "delivered_elsewhere": elsewhere})),
                    );
                    return Err(());
                }
            }
            None => {
                // emitter without a scoped default: the global default (if one was set in this
                // process) may or may not exist yet at that instant; nobody else may get it
                let others: usize = allv
                    .iter()
                    .filter(|x| Some(x.cid) != global.as_ref().map(|g| g.cid))
                    .map(|x| delivered(x, r.opid))
                    .sum();
                if others != 0 {
                    out.violation(
                        "an emission by a thread without a default collector was delivered to some thread's scoped collector",
                        witness(json!({"op": r.opid})),
                    );
                    return Err(());
                }
            }
        }
    }

    // ---- quiescence oracle --------------------------------------------------------------
    for a in &allv {
        a.take_log();
    }
    let mut touched: Vec<&'static Cs> = css.clone();
    if let Some(e) = evil_cs {
        if evil_fired.load(Ordering::SeqCst) > 0 {
            touched.push(e);
        }
    }
    let mut qid = 0xAAAA_0000u64 + sidx * 100;
    for (a, d) in &live {
        let g = dispatch::set_default(d);
        for c in &touched {
            qid += 1;
            emit(c, qid);
            out.evals += 1;
            out.count("quiescence_emissions", 1);
            let want = a.spec().accepts(c.level, c.target);
            let n = delivered(a, qid);
            let elsewhere: usize = allv.iter().filter(|x| x.cid != a.cid).map(|x| delivered(x, qid)).sum();
            if n != want as usize || elsewhere != 0 {
                drop(g);
                out.violation(
                    if want {
                        "after the activity quiesced a live collector does not receive an emission its filter accepts (callsite stranded / global level too low)"
                    } else {
                        "after the activity quiesced a live collector receives an emission its filter rejects"
                    },
                    witness(json!({"collector": format!("c{} = {}", a.cid, a.spec().code()),
                                   "callsite": format!("#{} {:?} {} {}", c.idx, c.kind, vcs::LEVEL_NAMES[c.level], vcs::TARGETS[c.target]),
                                   "expected": want, "delivered": n, "elsewhere": elsewhere,
                                   "LevelFilter::current": format!("{}", tracing_core::LevelFilter::current())})),
                );
                return Err(());
            }
        }
        drop(g);
    }
    // the process-wide default reached the way production code reaches it: from a thread that
    // has no scope (the losing set_global_default attempts of the race must not have harmed it)
    if let Some(ga) = &global {
        // (a further, necessarily refused, installation attempt first: it must not disturb the
        // installed one)
        let extra = Arc::new(FilterCollector::new(0xFFFE, Spec { thresh: 0, targets: 0, dynamic: false, hint: Some(0) }, true));
        if dispatch::set_global_default(Dispatch::new(Shared(extra))).is_ok() {
            out.violation("a second set_global_default returned Ok", witness(json!({"installed": format!("c{}", ga.cid)})));
            return Err(());
        }
        out.count("refused_set_global_default_attempts_at_quiescence", 1);
        for c in &touched {
            qid += 1;
            emit(c, qid);
            out.evals += 1;
            out.count("quiescence_emissions_to_the_global_default_without_a_scope", 1);
            let want = ga.spec().accepts(c.level, c.target);
            let n = delivered(ga, qid);
            let elsewhere: usize = allv.iter().filter(|x| x.cid != ga.cid).map(|x| delivered(x, qid)).sum();
            if n != want as usize || elsewhere != 0 {
                out.violation(
                    if want {
                        "after the activity quiesced the global default collector does not receive an emission (from a thread without a scope) that its filter accepts"
                    } else {
                        "after the activity quiesced the global default collector receives an emission its filter rejects"
                    },
                    witness(json!({"collector": format!("c{} = {} (set_global_default succeeded with it)", ga.cid, ga.spec().code()),
                                   "callsite": format!("#{} {:?} {} {}", c.idx, c.kind, vcs::LEVEL_NAMES[c.level], vcs::TARGETS[c.target]),
                                   "expected": want, "delivered": n, "elsewhere": elsewhere})),
                );
                return Err(());
            }
        }
    }
    // (snapshot of what each live collector has been offered so far: taken before the probe
    // collector below is created, because creating a Dispatch re-offers every callsite)
    let snapshots: Vec<Vec<usize>> = live.iter().map(|(a, _)| a.registered.lock().unwrap().clone()).collect();
    // a callsite that never got past the global max-level gate was never registered at all;
    // "registered during the scenario" is observable as: some collector was offered it
    let mut offered_to_anybody: std::collections::HashSet<usize> = Default::default();
    for a in &allv {
        offered_to_anybody.extend(a.registered.lock().unwrap().iter().copied());
    }
    // every touched callsite was offered to every collector that is live afterwards:
    // learn the callsites' metadata addresses through a fresh accept-all collector
    if !live.is_empty() {
        let z = Arc::new(FilterCollector::new(0xFFFF, Spec { thresh: 5, targets: 0b1111, dynamic: false, hint: None }, true));
        let before = z.registered.lock().unwrap().len();
        let _ = before;
        let dz = Dispatch::new(AddrProbe { inner: z.clone(), last: AtomicU64::new(0) });
        let g = dispatch::set_default(&dz);
        for c in &touched {
            if let Some(p) = dz.downcast_ref::<AddrProbe>() {
                p.last.store(0, Ordering::SeqCst);
            }
            emit(c, 1);
            let addr = dz.downcast_ref::<AddrProbe>().map(|p| p.last.load(Ordering::SeqCst)).unwrap_or(0) as usize;
            if addr == 0 {
                continue;
            }
            // after this emission the callsite IS registered (the probe collector accepts every
            // level, so the macro's level gate is open), and registering a callsite - like
            // creating the probe's Dispatch - offers it to every live collector:
            for (a, _) in live.iter() {
                out.evals += 1;
                out.count("offered_after_quiescence_checks", 1);
                if !a.registered.lock().unwrap().contains(&addr) {
                    drop(g);
                    out.violation(
                        "a registered callsite was never offered (register_callsite) to a live collector, not even when it was registered / a further Dispatch was created at quiescence",
                        witness(json!({"collector": format!("c{} = {}", a.cid, a.spec().code()),
                                       "callsite": format!("#{} {:?} {} {}", c.idx, c.kind, vcs::LEVEL_NAMES[c.level], vcs::TARGETS[c.target])})),
                    );
                    return Err(());
                }
            }
            if !offered_to_anybody.contains(&addr) {
                out.count("callsites_not_registered_before_quiescence", 1);
                continue;
            }
            for (k, (a, _)) in live.iter().enumerate() {
                out.evals += 1;
                out.count("offered_checks", 1);
                if !snapshots[k].contains(&addr) {
                    drop(g);
                    out.violation(
                        "a callsite hit during the race was never offered (register_callsite) to a collector that is live afterwards",
                        witness(json!({"collector": format!("c{} = {}", a.cid, a.spec().code()),
                                       "callsite": format!("#{} {:?} {} {}", c.idx, c.kind, vcs::LEVEL_NAMES[c.level], vcs::TARGETS[c.target])})),
                    );
                    return Err(());
                }
            }
        }
        drop(g);
    }
    drop(live);

    // ---- coverage ---------------------------------------------------------------------------
    let active = hooklogs.iter().filter(|(_, l)| !l.is_empty()).count();
    let (sig, ord) = chaos::signature(&hooklogs, &[tracing_core::verif::site::MC_INTEREST_LOADED, tracing_core::verif::site::GD_AFTER_SCOPED_LOAD]);
    if active >= 2 {
        out.distinct(sig);
        for (a, b) in chaos::pair_orders(&ord) {
            out.set("pair_orders", format!("{}<{}", chaos::site_name(a), chaos::site_name(b)));
        }
    }
    out.count("hook_events", ord.len() as u64);
    if ord.iter().any(|x| x.1 == tracing_core::verif::site::MC_REG_LOST) {
        out.count("scenarios_with_lost_registration_race", 1);
    }
    if ord.iter().any(|x| x.1 == tracing_core::verif::site::LL_PUSH_CAS_FAIL) {
        out.count("scenarios_with_list_cas_retry", 1);
    }
    if evil_fired.load(Ordering::SeqCst) > 0 {
        out.count("reentrant_emissions_from_register_callsite", 1);
    }
    if out.samples.len() < 2 && ord.len() > 12 && args.shard == 0 {
        out.sample(json!({"setup_and_scripts": desc, "interleaving": ord.iter().map(|(t, s)| format!("T{t}:{}", chaos::site_name(*s))).collect::<Vec<_>>()}));
    }
    Ok(true)
}

/// accept-all collector that remembers the metadata address of the last delivery
struct AddrProbe {
    inner: Arc<FilterCollector>,
    last: AtomicU64,
}
impl Collect for AddrProbe {
    fn register_callsite(&self, m: &'static Metadata<'static>) -> Interest {
        self.inner.register_callsite(m)
    }
    fn enabled(&self, m: &Metadata<'_>) -> bool {
        self.inner.enabled(m)
    }
    fn new_span(&self, a: &Attributes<'_>) -> Id {
        self.last.store(a.metadata() as *const _ as usize as u64, Ordering::SeqCst);
        self.inner.new_span(a)
    }
    fn record(&self, _: &Id, _: &Record<'_>) {}
    fn record_follows_from(&self, _: &Id, _: &Id) {}
    fn event(&self, e: &Event<'_>) {
        self.last.store(e.metadata() as *const _ as usize as u64, Ordering::SeqCst);
    }
    fn enter(&self, _: &Id) {}
    fn exit(&self, _: &Id) {}
    fn current_span(&self) -> Current {
        Current::unknown()
    }
}
