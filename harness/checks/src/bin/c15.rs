//! C15 — the non-blocking writer neither loses, duplicates nor reorders accepted lines
//! (DESIGN.md 5/C15, findings F9 and F11).
//!
//! Drive: real producer threads write lines `<thread,seq>filler\n` through clones of a
//! `NonBlocking` handle whose underlying writer is a `vlib::scripted_writer::ScriptedWriter`
//! (gate, fault script, chunking, pacing, drop stamp, stamped call log).  The guard is dropped
//! before / between / after / concurrently with the producers.  Oracle: a history checker over
//! (producer call records, underlying call log, `dropped_lines()`, guard-drop stamps).
include!("../c15_cfg.rs");
include!("../c15_exec.rs");
include!("../c15_judge.rs");
include!("../c15_main.rs");
