//! C18 — log and tracing interoperate without losing, inventing or mislabelling records
//! (DESIGN.md 5/C18).
//!
//! Part A  (log -> tracing, child kind `rec`): generated `log::Record`s (5 levels, arbitrary
//!   Unicode target / message, file / line / module path present or absent) enter the bridge by
//!   both of its public doors — a `LogTracer::new()` driven directly through
//!   `log::Log::{enabled, log}`, and `tracing_log::format_trace(&record)` (what the `env_logger`
//!   helper calls) — while a recording collector with a level x target-set filter (a third of
//!   them additionally rejecting a module-path / file prefix) is the thread's default.
//!   Oracle: `enabled` and, for EACH door, the number of events == [the current collector
//!   accepts (record level, record target)]; the event's message == the record's text;
//!   `normalized_metadata()` target / level / file / line / module path == the record's.  Where
//!   the collector accepts level and target but rejects the record's module path / file the
//!   documentation is silent about which metadata it is asked with: there only "both doors
//!   deliver the same number of events" and "no event after an `enabled` = false answer" are
//!   demanded.
//! Part A2 (child kind `ignore`): one `LogTracer::builder().ignore_crate(..).with_max_level(..)
//!   .init()` configuration per process (the `log` logger is one-shot); records go through the
//!   `log` macros / the global logger; a record whose target starts with an ignored string, or
//!   whose level is above the max level, must produce nothing.
//! Part B  (tracing -> log, child kind `hist`): children of the separate `c18log` binary
//!   (`tracing` with feature "log"), one history each; see c18log/src/main.rs.
//! Part C  (levels): `AsLog` / `AsTrace` on `Level` and `LevelFilter` enumerated completely.
//! Miri    (thorough): san-c18 pushes generated records through `LogTracer::log` under a
//!   recording collector (the lifetime-extending `unsafe` of `LogVisitor::record_str`).

use std::sync::atomic::{AtomicU64, Ordering};
use std::sync::{Arc, Mutex};
use std::time::Instant;
use tracing_core::dispatch::{self, Dispatch};
use tracing_core::field::{Field, Visit};
use tracing_core::span::{Attributes, Current, Id, Record};
use tracing_core::collect::Interest;
use tracing_core::{Collect, Event, LevelFilter, Metadata};
use tracing_log::{AsLog, AsTrace, LogTracer, NormalizeEvent};
use vlib::c18gen::{pathish, ustr};
use vlib::run::{self, Finish};
use vlib::{json, Args, ChildSpec, Map, Mode, Out, Rng, Value};

const ID: &str = "C18";

// ------------------------------------------------------------------ ranks (independent tables)

fn log_rank(l: log::Level) -> usize {
    match l {
        log::Level::Error => 1,
        log::Level::Warn => 2,
        log::Level::Info => 3,
        log::Level::Debug => 4,
        log::Level::Trace => 5,
    }
}
fn log_level_of(rank: usize) -> log::Level {
    [log::Level::Error, log::Level::Warn, log::Level::Info, log::Level::Debug, log::Level::Trace][rank - 1]
}
fn logf_rank(l: log::LevelFilter) -> usize {
    match l {
        log::LevelFilter::Off => 0,
        log::LevelFilter::Error => 1,
        log::LevelFilter::Warn => 2,
        log::LevelFilter::Info => 3,
        log::LevelFilter::Debug => 4,
        log::LevelFilter::Trace => 5,
    }
}
const LOG_FILTERS: [log::LevelFilter; 6] = [
    log::LevelFilter::Off,
    log::LevelFilter::Error,
    log::LevelFilter::Warn,
    log::LevelFilter::Info,
    log::LevelFilter::Debug,
    log::LevelFilter::Trace,
];
fn t_rank(l: &tracing_core::Level) -> usize {
    use tracing_core::Level as L;
    if *l == L::ERROR {
        1
    } else if *l == L::WARN {
        2
    } else if *l == L::INFO {
        3
    } else if *l == L::DEBUG {
        4
    } else if *l == L::TRACE {
        5
    } else {
        99
    }
}
const T_LEVELS: [tracing_core::Level; 5] = [
    tracing_core::Level::ERROR,
    tracing_core::Level::WARN,
    tracing_core::Level::INFO,
    tracing_core::Level::DEBUG,
    tracing_core::Level::TRACE,
];
const T_FILTERS: [LevelFilter; 6] =
    [LevelFilter::OFF, LevelFilter::ERROR, LevelFilter::WARN, LevelFilter::INFO, LevelFilter::DEBUG, LevelFilter::TRACE];
fn tf_rank(f: &LevelFilter) -> usize {
    T_FILTERS.iter().position(|x| x == f).unwrap_or(99)
}

// ------------------------------------------------------------------ collector filter

#[derive(Clone, Debug)]
enum TSel {
    All,
    Nothing,
    Exact(Vec<String>),
    NotExact(Vec<String>),
    Prefix(String),
    /// FNV(target) % modulus selected by bit mask
    Hash { modulus: u64, mask: u64 },
}
#[derive(Clone, Debug)]
struct Filt {
    /// 0 = OFF .. 5 = TRACE
    thresh: usize,
    tsel: TSel,
    /// `max_level_hint`: None or a true upper bound (>= thresh)
    hint: Option<usize>,
    /// `enabled(meta)` also rejects when `meta.module_path()` is Some and starts with this
    mod_veto: Option<String>,
    /// ... or when `meta.file()` is Some and starts with this
    file_veto: Option<String>,
}
impl Filt {
    fn target_ok(&self, t: &str) -> bool {
        match &self.tsel {
            TSel::All => true,
            TSel::Nothing => false,
            TSel::Exact(v) => v.iter().any(|x| x == t),
            TSel::NotExact(v) => !v.iter().any(|x| x == t),
            TSel::Prefix(p) => t.starts_with(p.as_str()),
            TSel::Hash { modulus, mask } => (mask >> (vlib::rng::hash_str(t) % modulus)) & 1 == 1,
        }
    }
    fn accepts(&self, level: usize, target: &str) -> bool {
        level >= 1 && level <= self.thresh && self.target_ok(target)
    }
    /// the whole filter, as the collector's `enabled` applies it to a metadata
    fn accepts_meta(&self, level: usize, target: &str, file: Option<&str>, module: Option<&str>) -> bool {
        self.accepts(level, target)
            && !matches!((&self.mod_veto, module), (Some(p), Some(m)) if m.starts_with(p.as_str()))
            && !matches!((&self.file_veto, file), (Some(p), Some(f)) if f.starts_with(p.as_str()))
    }
    fn code(&self) -> String {
        format!("{}|{:?}|{:?}|{:?}|{:?}", self.thresh, self.tsel, self.hint, self.mod_veto, self.file_veto)
    }
    fn js(&self) -> Value {
        json!({"max_level": self.thresh, "targets": format!("{:?}", self.tsel), "max_level_hint": self.hint,
               "rejects_module_path_starting_with": self.mod_veto, "rejects_file_starting_with": self.file_veto})
    }
}

/// fixed targets every filter / record generator draws from; "log" is the target of the
/// bridge's own synthetic callsites
const TPOOL: &[&str] =
    &["log", "app", "app::db", "application", "net", "", "tracing::span", "日本::語", "a b", "LOG", "log::x", "lo"];

fn gen_filt(rng: &mut Rng) -> Filt {
    let thresh = [0, 1, 2, 2, 3, 3, 4, 4, 5, 5, 5, 5][rng.usize(12)];
    let subset = |rng: &mut Rng| -> Vec<String> {
        let n = 1 + rng.usize(6);
        let mut v: Vec<String> = (0..n).map(|_| rng.pick(TPOOL).to_string()).collect();
        v.sort();
        v.dedup();
        v
    };
    let tsel = match rng.weighted(&[12, 4, 34, 16, 10, 24]) {
        0 => TSel::All,
        1 => TSel::Nothing,
        2 => TSel::Exact(subset(rng)),
        3 => TSel::NotExact(subset(rng)),
        4 => TSel::Prefix(rng.pick(&["app", "log", "l", "", "日本", "a"]).to_string()),
        _ => {
            let modulus = 2 + rng.below(4);
            TSel::Hash { modulus, mask: rng.below(1 << modulus) }
        }
    };
    let hint = match rng.below(10) {
        0..=3 => None,
        4..=6 => Some(thresh),
        _ => Some(thresh + rng.usize(6 - thresh)),
    };
    Filt { thresh, tsel, hint, mod_veto: None, file_veto: None }
}

// ------------------------------------------------------------------ recording collector

#[derive(Clone, Debug, PartialEq)]
enum Fv {
    Dbg(String),
    Str(String),
    U64(u64),
    I64(i64),
    Bool(bool),
    F64(u64),
}
#[derive(Clone, Debug)]
struct Norm {
    target: String,
    level: usize,
    file: Option<String>,
    line: Option<u32>,
    module: Option<String>,
}
#[derive(Clone, Debug)]
struct Ev {
    raw_level: usize,
    raw_target: String,
    is_log: bool,
    norm: Option<Norm>,
    fields: Vec<(String, Fv)>,
    /// the `message` field as a visitor that implements nothing but `record_debug` sees it
    /// (the way a message written with tracing's own macros is read)
    message_via_record_debug: Option<String>,
}
/// visitor with the one mandatory method only
struct DebugOnly(Option<String>);
impl Visit for DebugOnly {
    fn record_debug(&mut self, f: &Field, v: &dyn std::fmt::Debug) {
        if f.name() == "message" {
            self.0 = Some(format!("{:?}", v));
        }
    }
}
impl Ev {
    fn js(&self) -> Value {
        json!({
            "event_metadata": {"level": self.raw_level, "target": self.raw_target},
            "is_log": self.is_log,
            "normalized": self.norm.as_ref().map(|n| json!({"target": n.target, "level": n.level, "file": n.file, "line": n.line, "module_path": n.module})),
            "fields": self.fields.iter().map(|(k, v)| json!([k, format!("{:?}", v)])).collect::<Vec<_>>(),
        })
    }
}
struct FV(Vec<(String, Fv)>);
impl Visit for FV {
    fn record_debug(&mut self, f: &Field, v: &dyn std::fmt::Debug) {
        self.0.push((f.name().to_string(), Fv::Dbg(format!("{:?}", v))));
    }
    fn record_str(&mut self, f: &Field, v: &str) {
        self.0.push((f.name().to_string(), Fv::Str(v.to_string())));
    }
    fn record_u64(&mut self, f: &Field, v: u64) {
        self.0.push((f.name().to_string(), Fv::U64(v)));
    }
    fn record_i64(&mut self, f: &Field, v: i64) {
        self.0.push((f.name().to_string(), Fv::I64(v)));
    }
    fn record_bool(&mut self, f: &Field, v: bool) {
        self.0.push((f.name().to_string(), Fv::Bool(v)));
    }
    fn record_f64(&mut self, f: &Field, v: f64) {
        self.0.push((f.name().to_string(), Fv::F64(v.to_bits())));
    }
}

#[derive(Clone, Debug)]
struct Asked {
    level: usize,
    target: String,
    file: Option<String>,
    module: Option<String>,
    answer: bool,
}
fn asked_js(a: &[Asked]) -> Value {
    json!(a
        .iter()
        .map(|q| json!({"level": q.level, "target": q.target, "file": q.file, "module_path": q.module, "answered": q.answer}))
        .collect::<Vec<_>>())
}
struct RecCol {
    filt: Filt,
    events: Mutex<Vec<Ev>>,
    /// the most recent `enabled` queries and the answers given (bounded)
    asked: Mutex<Vec<Asked>>,
    enabled_calls: AtomicU64,
    other_calls: AtomicU64,
}
impl RecCol {
    fn new(filt: Filt) -> Arc<RecCol> {
        Arc::new(RecCol {
            filt,
            events: Mutex::new(vec![]),
            asked: Mutex::new(vec![]),
            enabled_calls: AtomicU64::new(0),
            other_calls: AtomicU64::new(0),
        })
    }
    fn take(&self) -> Vec<Ev> {
        std::mem::take(&mut *self.events.lock().unwrap())
    }
    fn take_asked(&self) -> Vec<Asked> {
        std::mem::take(&mut *self.asked.lock().unwrap())
    }
}
struct Shared(Arc<RecCol>);
impl Collect for Shared {
    fn register_callsite(&self, _: &'static Metadata<'static>) -> Interest {
        // the decision depends on the (dynamic) target of each record
        Interest::sometimes()
    }
    fn enabled(&self, m: &Metadata<'_>) -> bool {
        self.0.enabled_calls.fetch_add(1, Ordering::Relaxed);
        let l = t_rank(m.level());
        let answer = self.0.filt.accepts_meta(l, m.target(), m.file(), m.module_path());
        let mut a = self.0.asked.lock().unwrap();
        if a.len() < 8 {
            a.push(Asked {
                level: l,
                target: m.target().to_string(),
                file: m.file().map(String::from),
                module: m.module_path().map(String::from),
                answer,
            });
        }
        answer
    }
    fn max_level_hint(&self) -> Option<LevelFilter> {
        self.0.filt.hint.map(|h| T_FILTERS[h])
    }
    fn new_span(&self, _: &Attributes<'_>) -> Id {
        self.0.other_calls.fetch_add(1, Ordering::Relaxed);
        Id::from_u64(1)
    }
    fn record(&self, _: &Id, _: &Record<'_>) {
        self.0.other_calls.fetch_add(1, Ordering::Relaxed);
    }
    fn record_follows_from(&self, _: &Id, _: &Id) {}
    fn event(&self, e: &Event<'_>) {
        let mut v = FV(vec![]);
        e.record(&mut v);
        let norm = e.normalized_metadata().map(|m| Norm {
            target: m.target().to_string(),
            level: t_rank(m.level()),
            file: m.file().map(String::from),
            line: m.line(),
            module: m.module_path().map(String::from),
        });
        let ev = Ev {
            raw_level: t_rank(e.metadata().level()),
            raw_target: e.metadata().target().to_string(),
            is_log: e.is_log(),
            norm,
            fields: v.0,
            message_via_record_debug: {
                let mut d = DebugOnly(None);
                e.record(&mut d);
                d.0
            },
        };
        self.0.events.lock().unwrap().push(ev);
    }
    fn enter(&self, _: &Id) {}
    fn exit(&self, _: &Id) {}
    fn current_span(&self) -> Current {
        Current::unknown()
    }
}

// ------------------------------------------------------------------ record generator

const STATIC_FILES: &[&str] = &["src/static.rs", "", "/abs/path/ü.rs"];
const STATIC_MODS: &[&str] = &["static_mod::inner", "", "m"];

#[derive(Clone, Debug)]
struct RecSpec {
    level: usize,
    target: String,
    msg_kind: u64,
    m1: String,
    n: i64,
    file: Option<String>,
    line: Option<u32>,
    module: Option<String>,
    /// use the `*_static` builder methods with entry `static_ix` of the static pools
    statics: bool,
    static_ix: usize,
}
impl RecSpec {
    fn mask(&self) -> u8 {
        (self.file.is_some() as u8) | (self.line.is_some() as u8) << 1 | (self.module.is_some() as u8) << 2
    }
    fn text(&self) -> String {
        match self.msg_kind {
            0 => self.m1.to_string(),
            1 => format!("{}-{}", self.m1, self.n),
            2 => format!("lit {{}} {:?}", self.m1),
            3 => "plain literal".to_string(),
            _ => format!("{:>8}|{:<3}|", self.n, self.m1),
        }
    }
    fn js(&self) -> Value {
        json!({"level": self.level, "target": self.target, "text": self.text(), "file": self.file, "line": self.line,
               "module_path": self.module, "static_strs": self.statics})
    }
    /// build the `log::Record` and hand it to `f`
    fn with<R>(&self, f: impl FnOnce(&log::Record<'_>) -> R) -> R {
        let mut b = log::Record::builder();
        b.level(log_level_of(self.level)).target(&self.target).line(self.line);
        if self.statics {
            b.file_static(self.file.as_ref().map(|_| STATIC_FILES[self.static_ix]));
            b.module_path_static(self.module.as_ref().map(|_| STATIC_MODS[self.static_ix]));
        } else {
            b.file(self.file.as_deref());
            b.module_path(self.module.as_deref());
        }
        match self.msg_kind {
            0 => f(&b.args(format_args!("{}", self.m1)).build()),
            1 => f(&b.args(format_args!("{}-{}", self.m1, self.n)).build()),
            2 => f(&b.args(format_args!("lit {{}} {:?}", self.m1)).build()),
            3 => f(&b.args(format_args!("plain literal")).build()),
            _ => f(&b.args(format_args!("{:>8}|{:<3}|", self.n, self.m1)).build()),
        }
    }
}

fn gen_target(rng: &mut Rng) -> String {
    match rng.weighted(&[50, 25, 15, 10]) {
        0 => rng.pick(TPOOL).to_string(),
        1 => ustr(rng, 16),
        2 => pathish(rng),
        _ => format!("{}{}", rng.pick(TPOOL), ustr(rng, 3)),
    }
}

fn gen_rec(rng: &mut Rng, target: String) -> RecSpec {
    let statics = rng.chance(1, 6);
    let static_ix = rng.usize(STATIC_FILES.len());
    let mask = match rng.below(4) {
        0 => 7,
        1 => 0,
        _ => rng.below(8),
    };
    let file = (mask & 1 != 0).then(|| {
        if statics {
            STATIC_FILES[static_ix].to_string()
        } else if rng.bool() {
            format!("src/{}.rs", ustr(rng, 6))
        } else {
            ustr(rng, 20)
        }
    });
    let line = (mask & 2 != 0).then(|| match rng.below(5) {
        0 => 0,
        1 => u32::MAX,
        2 => 1,
        _ => rng.next_u32() >> rng.below(32),
    });
    let module = (mask & 4 != 0).then(|| {
        if statics {
            STATIC_MODS[static_ix].to_string()
        } else if rng.bool() {
            pathish(rng)
        } else {
            ustr(rng, 12)
        }
    });
    RecSpec {
        level: 1 + rng.usize(5),
        target,
        msg_kind: rng.below(5),
        m1: ustr(rng, 30),
        n: rng.next_u64() as i64 >> rng.below(64),
        file,
        line,
        module,
        statics,
        static_ix,
    }
}

// ------------------------------------------------------------------ judging one record

struct Case<'a> {
    part: &'a str,
    scenario: &'a str,
    filt: Option<&'a Filt>,
    config: Value,
    rec: &'a RecSpec,
    /// expected number of events at the current collector (0 / 1)
    expect: bool,
    /// how the record reached the logger
    route: &'a str,
}

fn message_of(ev: &Ev) -> Option<String> {
    ev.fields.iter().find(|(k, _)| k == "message").map(|(_, v)| match v {
        Fv::Dbg(s) | Fv::Str(s) => s.clone(),
        other => format!("{:?}", other),
    })
}

/// compare the events the current collector got (and what stray collectors got) with the
/// expectation; returns true if a violation was reported
fn judge_events(out: &mut Out, c: &Case<'_>, got: &[Ev], stray: usize, asked: &[Asked], want: usize) -> bool {
    let mut problem: Option<String> = None;
    if stray != 0 {
        problem = Some(format!("{stray} event(s) delivered to a collector that is not the thread's current one"));
    } else if !got.is_empty() && asked.iter().any(|q| !q.answer) {
        problem = Some(format!("{} event(s) delivered although the collector answered `enabled` = false for this record", got.len()));
    } else if got.len() != want {
        problem = Some(format!(
            "{} event(s) for one log record, expected {} (current collector {} level {} target {:?})",
            got.len(),
            want,
            if c.filt.map(|f| f.accepts(c.rec.level, &c.rec.target)).unwrap_or(false) { "accepts" } else { "rejects" },
            c.rec.level,
            c.rec.target
        ));
    } else if want == 1 {
        let ev = &got[0];
        let text = c.rec.text();
        match message_of(ev) {
            None => problem = Some("event has no `message` field".into()),
            Some(m) if m != text => problem = Some(format!("event message {:?} != record text {:?}", m, text)),
            _ => {}
        }
        if problem.is_none() && ev.message_via_record_debug.as_deref() != Some(text.as_str()) {
            problem = Some(format!(
                "the event's message read through Visit::record_debug alone is {:?}, the record's text is {:?}",
                ev.message_via_record_debug, text
            ));
        }
        if problem.is_none() {
            match &ev.norm {
                None => problem = Some("normalized_metadata() is None for an event made from a log record".into()),
                Some(n) => {
                    if n.target != c.rec.target {
                        problem = Some(format!("normalized target {:?} != record target {:?}", n.target, c.rec.target));
                    } else if n.level != c.rec.level {
                        problem = Some(format!("normalized level rank {} != record level rank {}", n.level, c.rec.level));
                    } else if n.file != c.rec.file {
                        problem = Some(format!("normalized file {:?} != record file {:?}", n.file, c.rec.file));
                    } else if n.line != c.rec.line {
                        problem = Some(format!("normalized line {:?} != record line {:?}", n.line, c.rec.line));
                    } else if n.module != c.rec.module {
                        problem = Some(format!("normalized module_path {:?} != record module_path {:?}", n.module, c.rec.module));
                    }
                }
            }
        }
        if problem.is_none() && !ev.is_log {
            problem = Some("is_log() is false for an event made from a log record".into());
        }
    }
    if let Some(p) = problem {
        out.violation(
            format!("log->tracing [{} {} via {}]: {}", c.part, c.scenario, c.route, p),
            json!({
                "record": c.rec.js(),
                "collector_filter": c.filt.map(|f| f.js()),
                "configuration": c.config,
                "scenario": c.scenario,
                "route": c.route,
                "expected_events": want,
                "observed_events": got.iter().map(|e| e.js()).collect::<Vec<_>>(),
                "events_at_other_collectors": stray,
                "collector_was_asked_enabled_for": asked_js(&asked),
            }),
        );
        true
    } else {
        false
    }
}

/// target as it enters the distinctness signature: pool / path-like targets verbatim,
/// generated Unicode ones by class (so that the signature space stays finite)
fn tclass(t: &str) -> String {
    if TPOOL.contains(&t) || IGN_POOL.contains(&t) || (t.len() <= 24 && t.chars().all(|c| c.is_ascii_alphanumeric() || c == ':' || c == '_')) {
        t.to_string()
    } else if let Some(p) = TPOOL.iter().chain(IGN_POOL.iter()).filter(|p| !p.is_empty() && t.starts_with(**p)).max_by_key(|p| p.len()) {
        format!("{p}<+generated>")
    } else {
        "<generated>".to_string()
    }
}

fn note_case(out: &mut Out, c: &Case<'_>, a2_reason: Option<&str>) {
    out.evals += 1;
    out.count(if c.route.contains("format_trace") { "records_via_format_trace" } else { "records_via_logger" }, 1);
    out.count(if c.expect { "expected_event" } else { "expected_nothing" }, 1);
    out.count(&format!("records_level_{}", c.rec.level), 1);
    out.count(&format!("records_presence_mask_{}", c.rec.mask()), 1);
    let own = c.filt.map(|f| f.accepts(c.rec.level, &c.rec.target)).unwrap_or(false);
    let synth = c.filt.map(|f| f.accepts(c.rec.level, "log")).unwrap_or(false);
    let partial = c.expect && c.rec.mask() != 0 && c.rec.mask() != 7;
    if own != synth {
        out.count("own_target_decides", 1);
    }
    if c.part == "A" {
        if own != synth || partial || a2_reason.is_some() {
            out.distinct_str(&format!(
                "A|{}|{}|{}|{}|{}|{}|{}",
                c.scenario,
                c.filt.map(|f| f.code()).unwrap_or_default(),
                c.rec.level,
                tclass(&c.rec.target),
                c.rec.mask(),
                c.route,
                a2_reason.unwrap_or("")
            ));
        }
    } else if let Some(reason) = a2_reason {
        out.count(&format!("a2_{reason}"), 1);
        out.distinct_str(&format!("A2|{}|{}|{}|{}|{}", c.config, c.rec.level, tclass(&c.rec.target), c.route, reason));
    }
}

// ------------------------------------------------------------------ Part A child

fn child_rec(args: &Args) {
    let mut out = Out::new();
    let nfilt = args.get_u64("filters", 12);
    let nrec = args.get_u64("records", 1250);
    let tracer = LogTracer::new();
    let logger: &dyn log::Log = &tracer;

    for fi in 0..nfilt {
        let mut rng = Rng::derive(args.seed, args.shard, 0xA000 + fi);
        let mut filt = gen_filt(&mut rng);
        // a third of the filters also look at the metadata's module path / file
        if rng.chance(1, 3) {
            if rng.chance(2, 3) {
                filt.mod_veto = Some(rng.pick(&["app", "foo", "", "static_mod", "日本", "db::", "m"]).to_string());
            }
            if filt.mod_veto.is_none() || rng.bool() {
                filt.file_veto = Some(rng.pick(&["src/", "", "/abs", "src/a", "src/static"]).to_string());
            }
            out.count("filters_with_module_or_file_veto", 1);
        }
        out.set("filter_target_kinds", format!("{:?}", filt.tsel).split(['(', ' ']).next().unwrap_or("").to_string());
        let scenario = match rng.weighted(&[6, 2, 2]) {
            0 => "plain",
            1 => "nested",
            _ => "second-live",
        };
        out.count(&format!("filters_{scenario}"), 1);
        let col = RecCol::new(filt.clone());
        let disp = Dispatch::new(Shared(col.clone()));
        // another collector: outer default ("nested") or merely alive ("second-live")
        let other_filt = gen_filt(&mut rng);
        let other = RecCol::new(other_filt.clone());
        let other_disp = (scenario != "plain").then(|| Dispatch::new(Shared(other.clone())));

        let mut body = || {
            for _ in 0..nrec {
                let target = gen_target(&mut rng);
                let rec = gen_rec(&mut rng, target);
                // verdict on level + target alone (all that `log::Metadata` carries), and on
                // everything the record has
                let expect = filt.accepts(rec.level, &rec.target);
                let full = filt.accepts_meta(rec.level, &rec.target, rec.file.as_deref(), rec.module.as_deref());
                // `expect && !full`: the collector accepts the record's level and target but
                // rejects its module path / file.  The documentation does not say with which
                // metadata the bridge asks, so there only the agreement of the two entry points
                // is demanded (plus: no event after an `enabled` = false answer).
                let veto_zone = expect && !full;
                let config = json!({"other_collector": (scenario != "plain").then(|| other_filt.js())});
                let en = rec.with(|r| logger.enabled(r.metadata()));
                let asked_en = col.take_asked();
                out.evals += 1;
                if en != expect {
                    out.violation(
                        format!(
                            "log->tracing [A {scenario}]: LogTracer::enabled returned {en}, the current collector {} (level {}, target {:?})",
                            if expect { "accepts" } else { "rejects" },
                            rec.level,
                            rec.target
                        ),
                        json!({"record": rec.js(), "collector_filter": filt.js(), "scenario": scenario, "enabled_returned": en, "expected": expect,
                               "collector_was_asked_enabled_for": asked_js(&asked_en)}),
                    );
                }
                if !other.take().is_empty() {
                    panic!("HARNESS: other collector got events outside a step");
                }
                let _ = col.take();
                let mut counts = [0usize; 2];
                for (ri, route) in ["LogTracer::new() driven directly", "tracing_log::format_trace(&record)"].into_iter().enumerate() {
                    if ri == 0 {
                        rec.with(|r| logger.log(r));
                    } else {
                        let res = rec.with(tracing_log::format_trace);
                        if res.is_err() {
                            out.count("format_trace_err", 1);
                        }
                    }
                    let got = col.take();
                    let stray = other.take().len();
                    let asked = col.take_asked();
                    counts[ri] = got.len();
                    out.count("events", got.len() as u64);
                    if veto_zone {
                        out.count("module_or_file_veto_cases", 1);
                    }
                    let case = Case { part: "A", scenario, filt: Some(&filt), config: config.clone(), rec: &rec, expect: full, route };
                    note_case(&mut out, &case, veto_zone.then_some("veto"));
                    // in the veto zone the count is judged by comparing the two routes below
                    let want = if veto_zone { got.len().min(1) } else { full as usize };
                    let bad = judge_events(&mut out, &case, &got, stray, &asked, want);
                    if !bad && full && out.samples.len() < 3 {
                        out.sample(json!({"record": rec.js(), "filter": filt.js(), "route": route, "event": got[0].js()}));
                    }
                }
                if counts[0] != counts[1] {
                    out.violation(
                        format!(
                            "log->tracing [A {scenario}]: LogTracer::log produced {} event(s), format_trace {} for the same record under the same collector",
                            counts[0], counts[1]
                        ),
                        json!({"record": rec.js(), "collector_filter": filt.js(), "scenario": scenario,
                               "collector_accepts_level_and_target": expect, "collector_accepts_full_metadata": full,
                               "events_via_LogTracer_log": counts[0], "events_via_format_trace": counts[1]}),
                    );
                }
            }
        };
        match (scenario, &other_disp) {
            ("nested", Some(od)) => dispatch::with_default(od, || dispatch::with_default(&disp, &mut body)),
            _ => dispatch::with_default(&disp, &mut body),
        }
        out.count("collector_enabled_calls", col.enabled_calls.load(Ordering::Relaxed));
        drop(other_disp);
        drop(disp);
    }

    // no collector at all: nothing accepts
    let mut rng = Rng::derive(args.seed, args.shard, 0xA0FF);
    for _ in 0..50 {
        let target = gen_target(&mut rng);
        let rec = gen_rec(&mut rng, target);
        out.evals += 1;
        out.count("no_collector_cases", 1);
        let en = rec.with(|r| logger.enabled(r.metadata()));
        rec.with(|r| logger.log(r));
        if en {
            out.violation(
                "log->tracing [A no-collector]: LogTracer::enabled returned true although no collector is installed",
                json!({"record": rec.js()}),
            );
        }
    }
    out.emit();
}

// ------------------------------------------------------------------ Part A2 child: ignore lists

const IGN_POOL: &[&str] = &["foo", "foo::bar", "foobar", "hyper", "h2", "tokio_util", "日本", "log", "a", "app::", "net"];

/// documented rule (`Builder::ignore_crate`): "ignore all log records whose target starts
/// with the given string"
fn ignored(list: &[String], target: &str) -> bool {
    let t = target.as_bytes();
    list.iter().any(|p| {
        let p = p.as_bytes();
        t.len() >= p.len() && &t[..p.len()] == p
    })
}

fn near_target(rng: &mut Rng, list: &[String]) -> String {
    let base: String = if !list.is_empty() && rng.chance(3, 4) { rng.pick(list).clone() } else { rng.pick(IGN_POOL).to_string() };
    match rng.below(12) {
        0 => base,
        1 => format!("{base}::x"),
        2 => format!("{base}bar"),
        3 => format!("{base}_x"),
        4 => {
            let mut s = base.clone();
            s.pop();
            s
        }
        5 => base.to_uppercase(),
        6 => format!("x{base}"),
        7 => format!("{base}{}", ustr(rng, 4)),
        8 => format!("{base}:"),
        9 => format!(" {base}"),
        _ => gen_target(rng),
    }
}

/// `log::log!` plus the line number it reports (both `line!()`s resolve to the line of the
/// outermost macro invocation, i.e. of `log_here!`)
macro_rules! log_here {
    ($target:expr, $lvl:expr, $msg:expr) => {{
        let ln = line!();
        log::log!(target: $target, $lvl, "{}", $msg);
        ln
    }};
}

fn child_ignore(args: &Args) {
    let mut out = Out::new();
    let mut rng = Rng::derive(args.seed, args.shard, 0xA2A2);
    let nfilt = args.get_u64("filters", 8);
    let nrec = args.get_u64("records", 300);
    let n = rng.weighted(&[1, 4, 3, 2]);
    let mut list: Vec<String> = (0..n).map(|_| rng.pick(IGN_POOL).to_string()).collect();
    if rng.chance(1, 40) {
        list.push(String::new()); // every target starts with the empty string
    }
    let max = if rng.bool() { log::LevelFilter::Trace } else { *rng.pick(&LOG_FILTERS) };
    let maxr = logf_rank(max);
    // the ignore list is built up by any mix of the two builder methods (each call ADDS)
    let via = rng.below(4);
    let mut b = LogTracer::builder();
    match via {
        0 => {
            for p in &list {
                b = b.ignore_crate(p.clone());
            }
        }
        1 => b = b.ignore_all(list.iter().cloned()),
        2 => {
            let k = list.len() / 2;
            for p in &list[..k] {
                b = b.ignore_crate(p.clone());
            }
            b = b.ignore_all(list[k..].iter().cloned());
        }
        _ => {
            let k = list.len() / 2;
            b = b.ignore_all(list[..k].iter().cloned());
            b = b.ignore_all(list[k..].iter().cloned());
        }
    }
    b.with_max_level(max).init().expect("HARNESS: LogTracer init failed (logger already set?)");
    let config = json!({"ignore": list, "with_max_level": maxr, "via": (["ignore_crate per entry", "ignore_all", "ignore_crate for the first half, then ignore_all", "two ignore_all calls"][via as usize])});
    out.count("ignore_configs", 1);
    out.count(&format!("ignore_list_len_{}", list.len()), 1);
    out.set("max_levels", maxr.to_string());
    if logf_rank(log::max_level()) != maxr {
        out.violation(
            "log->tracing [A2]: with_max_level(..).init() did not set log::max_level()",
            json!({"configuration": config, "log_max_level_rank": logf_rank(log::max_level())}),
        );
    }

    for fi in 0..nfilt {
        if fi == nfilt / 2 {
            // a second initialisation is refused (the logger is set once per process): it must
            // leave the bridge as the successful one configured it - including which records the
            // `log` macros let through to it
            let other = *LOG_FILTERS.iter().find(|f| logf_rank(**f) != maxr).expect("HARNESS: another filter");
            let r = LogTracer::builder().with_max_level(other).init();
            out.evals += 1;
            out.count("refused_second_inits", 1);
            if r.is_ok() {
                out.inconclusive("a second LogTracer init succeeded: the log crate accepted a second logger".to_string());
            } else if logf_rank(log::max_level()) != maxr {
                out.violation(
                    "log->tracing [A2]: a refused second LogTracer init changed log::max_level(): records the configured bridge accepts no longer reach it",
                    json!({"configuration": config, "refused_init_with_max_level": logf_rank(other), "log_max_level_rank_now": logf_rank(log::max_level())}),
                );
                out.emit();
                return;
            }
        }
        let mut filt = gen_filt(&mut rng);
        if fi % 2 == 0 {
            // make sure there are filters under which the ignore list is what decides
            filt.tsel = TSel::All;
            filt.thresh = 5;
            filt.hint = if rng.bool() { None } else { Some(5) };
        }
        let col = RecCol::new(filt.clone());
        let disp = Dispatch::new(Shared(col.clone()));
        dispatch::with_default(&disp, || {
            for _ in 0..nrec {
                let target = near_target(&mut rng, &list);
                let mut rec = gen_rec(&mut rng, target);
                let ign = ignored(&list, &rec.target);
                let acc = filt.accepts(rec.level, &rec.target);
                let expect = rec.level <= maxr && !ign && acc;
                // non-trivial: the collector would accept, and the configuration decides (or nearly does)
                let near = !ign && list.iter().any(|p| p.chars().zip(rec.target.chars()).take_while(|(a, b)| a == b).count() >= 1);
                let reason = if !acc {
                    None
                } else if ign {
                    Some("ignored")
                } else if rec.level > maxr {
                    Some("above_max_level")
                } else if near {
                    Some("near_miss_of_ignored_prefix")
                } else {
                    None
                };
                let route = match rng.below(3) {
                    0 => "log::log! macro",
                    1 => "log::logger().log(record) guarded by log::max_level()",
                    _ => "log::log_enabled! macro",
                };
                if ign {
                    out.count("targets_under_ignored_prefix", 1);
                }
                if rec.level > maxr {
                    out.count("records_above_max_level", 1);
                }
                let lvl = log_level_of(rec.level);
                let _ = col.take();
                let _ = col.take_asked();
                if route == "log::log_enabled! macro" {
                    let en = log::log_enabled!(target: rec.target.as_str(), lvl);
                    out.evals += 1;
                    out.count("log_enabled_probes", 1);
                    if let Some(r) = reason {
                        out.distinct_str(&format!("A2|{}|{}|{}|log_enabled!|{}", config, rec.level, tclass(&rec.target), r));
                    }
                    let asked = col.take_asked();
                    if en != expect {
                        out.violation(
                            format!("log->tracing [A2 ignore]: log_enabled! returned {en}, expected {expect}"),
                            json!({"record": {"level": rec.level, "target": rec.target}, "configuration": config, "collector_filter": filt.js(),
                                   "target_starts_with_ignored_string": ign, "enabled_returned": en, "expected": expect,
                                   "collector_was_asked_enabled_for": asked_js(&asked)}),
                        );
                    }
                    if !col.take().is_empty() {
                        out.violation("log->tracing [A2 ignore]: log_enabled! produced an event", json!({"configuration": config}));
                    }
                    continue;
                }
                if route == "log::log! macro" {
                    // the macro supplies file / line / module path itself
                    rec.statics = false;
                    rec.msg_kind = 0;
                    rec.file = Some(file!().to_string());
                    rec.module = Some(module_path!().to_string());
                    rec.line = Some(log_here!(rec.target.as_str(), lvl, rec.m1));
                } else if lvl <= log::max_level() {
                    rec.with(|r| log::logger().log(r));
                }
                let case = Case { part: "A2", scenario: "ignore-list", filt: Some(&filt), config: config.clone(), rec: &rec, expect, route };
                note_case(&mut out, &case, reason);
                let got = col.take();
                let asked = col.take_asked();
                out.count("events", got.len() as u64);
                let bad = judge_events(&mut out, &case, &got, 0, &asked, expect as usize);
                if !bad && ign && out.samples.len() < 2 {
                    out.sample(json!({"ignored_record": rec.js(), "configuration": config, "events": got.len()}));
                }
            }
        });
        drop(disp);
    }
    out.emit();
}

// ------------------------------------------------------------------ Part C: level tables

fn levels(out: &mut Out) {
    let log_levels: Vec<log::Level> = (1..=5).map(log_level_of).collect();
    let mut n = 0u64;
    let bad = |out: &mut Out, what: String| {
        out.violation(format!("levels: {what}"), json!({"table": what}));
    };
    // Level: log -> tracing -> log, rank preserved
    for &l in &log_levels {
        let t = l.as_trace();
        n += 1;
        if t_rank(&t) != log_rank(l) {
            bad(out, format!("log::Level::{l:?}.as_trace() = {t:?}"));
        }
        if t.as_log() != l {
            bad(out, format!("{l:?}.as_trace().as_log() = {:?}", t.as_log()));
        }
        out.distinct_str(&format!("C|L|{l:?}"));
    }
    for t in &T_LEVELS {
        let l = t.as_log();
        n += 1;
        if log_rank(l) != t_rank(t) {
            bad(out, format!("tracing Level::{t:?}.as_log() = {l:?}"));
        }
        if l.as_trace() != *t {
            bad(out, format!("{t:?}.as_log().as_trace() = {:?}", l.as_trace()));
        }
        out.distinct_str(&format!("C|T|{t:?}"));
    }
    // bijection: images pairwise distinct and cover the codomain
    let img: std::collections::BTreeSet<usize> = log_levels.iter().map(|l| t_rank(&l.as_trace())).collect();
    let img2: std::collections::BTreeSet<usize> = T_LEVELS.iter().map(|t| log_rank(t.as_log())).collect();
    n += 2;
    if img.len() != 5 || img2.len() != 5 || img.iter().any(|r| !(1..=5).contains(r)) {
        bad(out, format!("Level conversion is not a bijection: images {img:?} / {img2:?}"));
    }
    // order: all ordered pairs, all comparison outcomes
    for &a in &log_levels {
        for &b in &log_levels {
            n += 1;
            if a.cmp(&b) != a.as_trace().cmp(&b.as_trace()) {
                bad(out, format!("order of ({a:?},{b:?}) is {:?} in log but {:?} after as_trace", a.cmp(&b), a.as_trace().cmp(&b.as_trace())));
            }
            out.distinct_str(&format!("C|LL|{a:?}{b:?}"));
        }
    }
    for a in &T_LEVELS {
        for b in &T_LEVELS {
            n += 1;
            if a.cmp(b) != a.as_log().cmp(&b.as_log()) {
                bad(out, format!("order of ({a:?},{b:?}) is {:?} in tracing but {:?} after as_log", a.cmp(b), a.as_log().cmp(&b.as_log())));
            }
        }
    }
    // LevelFilter
    for &f in &LOG_FILTERS {
        let t = f.as_trace();
        n += 1;
        if tf_rank(&t) != logf_rank(f) {
            bad(out, format!("log::LevelFilter::{f:?}.as_trace() = {t:?}"));
        }
        if t.as_log() != f {
            bad(out, format!("LevelFilter {f:?}.as_trace().as_log() = {:?}", t.as_log()));
        }
        out.distinct_str(&format!("C|F|{f:?}"));
    }
    for t in &T_FILTERS {
        let f = t.as_log();
        n += 1;
        if logf_rank(f) != tf_rank(t) {
            bad(out, format!("tracing LevelFilter::{t:?}.as_log() = {f:?}"));
        }
        if f.as_trace() != *t {
            bad(out, format!("LevelFilter {t:?}.as_log().as_trace() = {:?}", f.as_trace()));
        }
    }
    let fimg: std::collections::BTreeSet<usize> = LOG_FILTERS.iter().map(|f| tf_rank(&f.as_trace())).collect();
    let fimg2: std::collections::BTreeSet<usize> = T_FILTERS.iter().map(|t| logf_rank(t.as_log())).collect();
    n += 2;
    if fimg.len() != 6 || fimg2.len() != 6 || fimg.iter().any(|r| *r > 5) {
        bad(out, format!("LevelFilter conversion is not a bijection: images {fimg:?} / {fimg2:?}"));
    }
    for &a in &LOG_FILTERS {
        for &b in &LOG_FILTERS {
            n += 1;
            if a.cmp(&b) != a.as_trace().cmp(&b.as_trace()) {
                bad(out, format!("order of filters ({a:?},{b:?}) changes under as_trace"));
            }
            out.distinct_str(&format!("C|FF|{a:?}{b:?}"));
        }
    }
    for a in &T_FILTERS {
        for b in &T_FILTERS {
            n += 1;
            if a.cmp(b) != a.as_log().cmp(&b.as_log()) {
                bad(out, format!("order of filters ({a:?},{b:?}) changes under as_log"));
            }
        }
    }
    // level against filter ("enabled by"): preserved too
    for &l in &log_levels {
        for &f in &LOG_FILTERS {
            n += 1;
            if (l <= f) != (l.as_trace() <= f.as_trace()) {
                bad(out, format!("({l:?} <= {f:?}) = {} in log but {} after as_trace", l <= f, l.as_trace() <= f.as_trace()));
            }
        }
    }
    out.evals += n;
    out.count("level_table_checks", n);
}

// ------------------------------------------------------------------ Miri layer

fn miri(out: &mut Out, args: &Args) -> Value {
    let dir = run::verif_root().join("harness/san-c18");
    let target = run::verif_root().join("harness/target/miri-c18");
    let mut runs = vec![];
    // default borrow model (Stacked Borrows), then Tree Borrows; 200 records each (quick: one
    // run of 12 records after the concurrent first-use scenario)
    let quick = args.tier == vlib::Tier::Quick;
    let nrec = if quick { "12" } else { "200" };
    let flag_sets: &[&str] = if quick { &["-Zmiri-disable-isolation"] } else { &["-Zmiri-disable-isolation", "-Zmiri-disable-isolation -Zmiri-tree-borrows", "-Zmiri-disable-isolation -Zmiri-seed=7 -Zmiri-preemption-rate=0.05"] };
    for flags in flag_sets.iter().copied() {
        let t0 = Instant::now();
        let o = std::process::Command::new("cargo")
            .args(["+nightly", "miri", "run", "--offline", "--", &args.seed.to_string(), nrec])
            .current_dir(&dir)
            .env("CARGO_TARGET_DIR", &target)
            .env("MIRIFLAGS", flags)
            .env_remove("RUSTFLAGS")
            .output();
        let cmd = format!("cd {} && CARGO_TARGET_DIR={} MIRIFLAGS='{flags}' cargo +nightly miri run --offline -- {} {nrec}", dir.display(), target.display(), args.seed);
        let mut info = Map::new();
        info.insert("cmd".into(), json!(cmd));
        match o {
            Err(e) => out.inconclusive(format!("Miri layer could not be started: {e}")),
            Ok(o) => {
                let so = String::from_utf8_lossy(&o.stdout).into_owned();
                let se = String::from_utf8_lossy(&o.stderr).into_owned();
                let lines: Vec<&str> = se.lines().collect();
                let tail = lines[lines.len().saturating_sub(30)..].join("\n");
                info.insert("stdout".into(), json!(so.lines().filter(|l| l.starts_with("MIRI-C18")).collect::<Vec<_>>()));
                if se.contains("Undefined Behavior") {
                    out.violation(
                        "Miri reports Undefined Behavior while LogTracer::log / normalized_metadata process generated records",
                        json!({"stderr_tail": tail, "cmd": cmd, "child_args": []}),
                    );
                } else if so.contains("C18-MISMATCH") {
                    out.violation(
                        "the record/event oracle failed inside the Miri-interpreted program",
                        json!({"stdout": so.lines().filter(|l| l.contains("C18-MISMATCH")).take(5).collect::<Vec<_>>(), "cmd": cmd, "child_args": []}),
                    );
                } else if o.status.success() && so.contains("MIRI-C18 ok") {
                    out.count("miri_ok", 1);
                    for l in so.lines() {
                        if let Some(r) = l.strip_prefix("MIRI-C18 ok records=") {
                            let n: u64 = r.split_whitespace().next().and_then(|x| x.parse().ok()).unwrap_or(0);
                            out.count("miri_records", n);
                        }
                    }
                } else {
                    let short: String = tail.chars().rev().take(600).collect::<String>().chars().rev().collect();
                    out.inconclusive(format!("Miri layer failed without a UB report (status {:?}): {}", o.status.code(), short));
                }
            }
        }
        info.insert("wall_s".into(), json!(t0.elapsed().as_secs_f64()));
        runs.push(Value::Object(info));
    }
    json!(runs)
}

// ------------------------------------------------------------------ parent

fn c18log_bin() -> Option<std::path::PathBuf> {
    if let Ok(p) = std::env::var("VERIF_C18LOG_BIN") {
        return Some(p.into());
    }
    let sib = std::env::current_exe().ok()?.parent()?.join("c18log");
    sib.exists().then_some(sib)
}

fn parent(args: &Args) {
    let t0 = Instant::now();
    let mut out = Out::new();
    let mut extra = Map::new();

    levels(&mut out);

    // Part A
    let shards = args.get_u64("rec_shards", args.tier.pick(32, 160));
    let spec = ChildSpec::new("rec", shards)
        .arg("filters", args.get_u64("filters", args.tier.pick(24, 60)))
        .arg("records", args.get_u64("records", args.tier.pick(2500, 5000)))
        .timeout(600);
    let mut a = Out::new();
    let ends = run::run_children(args, &spec, &mut a);
    run::classify_ends(&ends, &mut a, true);
    a.samples.truncate(2);
    out.merge(a);

    // Part A2
    let shards = args.get_u64("ignore_shards", args.tier.pick(480, 4800));
    let spec = ChildSpec::new("ignore", shards).timeout(300);
    let mut a2 = Out::new();
    let ends = run::run_children(args, &spec, &mut a2);
    run::classify_ends(&ends, &mut a2, true);
    a2.samples.truncate(2);
    out.merge(a2);

    // Part B
    match c18log_bin() {
        None => out.harness_errors.push("VERIF_C18LOG_BIN is not set and no c18log binary sits next to this one".into()),
        Some(p) => {
            let shards = args.get_u64("hist_shards", args.tier.pick(20_000, 250_000));
            let mut spec = ChildSpec::new("hist", shards).timeout(120);
            spec.exe = Some(p.clone());
            let mut b = Out::new();
            let ends = run::run_children(args, &spec, &mut b);
            run::classify_ends(&ends, &mut b, true);
            b.samples.truncate(2);
            extra.insert(
                "tracing_to_log".into(),
                json!({"binary": p, "histories": b.counters.get("histories"), "steps_judged": b.evals, "log_records_seen": b.counters.get("log_records")}),
            );
            out.merge(b);
        }
    }

    if std::env::var_os("VERIF_SKIP_MIRI").is_none() {
        let info = miri(&mut out, args);
        extra.insert("miri".into(), info);
    }
    extra.insert("exhaustive_subtables".into(), json!(["AsLog/AsTrace on Level and LevelFilter: every value, every ordered pair"]));

    run::finish(
        Finish {
            id: ID,
            args,
            t0,
            rule: "evaluations = log records judged (parts A, A2) + span/event steps judged (part B) + level-table cells (C). \
                   distinct non-trivial = distinct (filter, scenario, level, target, presence mask of file/line/module, door) tuples among \
                   part-A records (each judged once per door: LogTracer::log, format_trace) whose module path / file the collector vetoes or for which the collector's verdict on the record's own target differs from its verdict on the bridge's \
                   synthetic target \"log\" or that were accepted with only some of file/line/module present (generated Unicode targets enter by class); \
                   (configuration, level, target, route, reason) tuples among part-A2 records the collector accepts and whose fate the configuration \
                   decides: target starts with an ignored string / level above with_max_level / target shares a leading char with an ignored string \
                   without starting with it; part-B (callsite, step kind, pre/post/post-removed, install kind, idle dispatch?) \
                   tuples; and the cells of the level tables",
            assumptions: vec![
                "recording collectors are self-consistent: max_level_hint is None or a true upper bound of the filter; register_callsite answers `sometimes`".into(),
                "part A: one live dispatcher at a time except in the scenarios `nested` / `second-live`, whose extra collector is also self-consistent".into(),
                "part A2: records reach the global logger the way the log macros send them (level <= log::max_level() checked by the caller)".into(),
                "part B: the recording logger accepts everything, log::max_level() = Trace; value renderings accepted: Display or Debug of the value".into(),
            ],
            min_evals: args.tier.pick(800_000, 15_000_000),
            min_distinct: args.tier.pick(60_000, 800_000),
            exhaustive: false,
            extra,
        },
        out,
    );
}

/// `--child hist` given to this binary (replay of a part-B witness): forward to c18log
fn forward_hist() -> ! {
    let Some(p) = c18log_bin() else {
        eprintln!("HARNESS: VERIF_C18LOG_BIN is not set; cannot re-run a tracing->log history");
        std::process::exit(2);
    };
    let st = std::process::Command::new(p).args(run::raw_argv()).status().expect("HARNESS: cannot run c18log");
    std::process::exit(st.code().unwrap_or(2));
}

fn main() {
    let args = run::parse_args();
    match args.mode.clone() {
        Mode::Parent => parent(&args),
        Mode::Child(k) if k == "rec" => child_rec(&args),
        Mode::Child(k) if k == "ignore" => child_ignore(&args),
        Mode::Child(k) if k == "hist" => forward_hist(),
        Mode::Child(k) => {
            eprintln!("HARNESS: unknown child kind {k}");
            std::process::exit(2);
        }
        Mode::Replay(p) => run::replay(ID, &p),
    }
}
