//! C13 — fmt writes one complete record per event, to exactly the selected writers
//! (DESIGN.md 5/C13).
//!
//! Recorder: `RecSink`, our own `MakeWriter`, logs every `make_writer()` /
//! `make_writer_for(meta)` call (level, target) and every individual `write` / `flush` call
//! on the writers it hands out.  No global default is ever set: every history installs its
//! collector with `dispatch::set_default` on its own threads.
//!
//! Parts (all run by every child shard on its slice):
//!   fmt   — formatter x option bits x timer x span-event set; sequential histories of
//!           push/pop/re-enter/event operations (and twin + panicking event + follow-up
//!           triples) on a fresh thread; call-log automaton + per-format content reading.
//!   conc  — the same histories on 1..8 threads at once into ONE subscriber and ONE sink.
//!   shared — 2..4 threads, released together, `Span::record` different (sometimes the same)
//!           declared-but-Empty fields on ONE shared span; at quiescence every later record
//!           that lists the span must carry every recorded field with its value.
//!   route — writer expressions over the REAL combinators vs. their denotation.

use std::cell::Cell;
use std::collections::HashMap;
use std::fmt;
use std::io;
use std::sync::atomic::{AtomicU64, Ordering};
use std::sync::{Arc, Barrier, Mutex, OnceLock};
use std::time::Instant;

use tracing_core::callsite::{Callsite, Identifier};
use tracing_core::field::{debug, display, DebugValue, DisplayValue, Field, FieldSet, Value, ValueSet};
use tracing_core::metadata::Kind as MKind;
use tracing_core::{Dispatch, Event, Interest, Level, Metadata};
use tracing_subscriber::fmt::format::{self, FmtSpan};
use tracing_subscriber::fmt::time::FormatTime;
use tracing_subscriber::fmt::writer::{MakeWriter, MakeWriterExt, OptionalWriter, OrElse, Tee, WithFilter, WithMaxLevel, WithMinLevel};
use tracing_subscriber::subscribe::CollectExt;
use tracing_subscriber::{Registry, Subscribe};
use vlib::json::J;
use vlib::rng::hash_str;
use vlib::run::{self, Finish};
use vlib::{json, Args, ChildSpec, Map, Mode, Out, Rng, Tier, Value as JValue};

// NB: in the included parts `Value` is tracing's field trait, `JValue` is serde_json's.

const ID: &str = "C13";

include!("../c13/rec.rs");
include!("../c13/model.rs");
include!("../c13/oracle.rs");
include!("../c13/route.rs");
include!("../c13/shared.rs");

fn main() {
    let args = run::parse_args();
    match args.mode.clone() {
        Mode::Parent => parent(&args),
        Mode::Child(_) => child(&args),
        Mode::Replay(p) => run::replay(ID, &p),
    }
}

// ---------------------------------------------------------------- sizes

const NCONFIGS: u64 = 4 * 128 * 3 * 16; // formatter x option bits x timer x span-event set

struct Sizes {
    fmt_reps: u64,
    fmt_nops: usize,
    conc_runs: u64,
    conc_nops: usize,
    route_sample: u64,
    shared_sessions: u64,
    shared_rounds: u64,
    route_depth3_complete: bool,
}
fn sizes(t: Tier) -> Sizes {
    match t {
        Tier::Quick => Sizes { fmt_reps: 4, fmt_nops: 24, conc_runs: 640, conc_nops: 300, route_sample: 2_000, route_depth3_complete: false, shared_sessions: 320, shared_rounds: 300 },
        Tier::Thorough => Sizes { fmt_reps: 24, fmt_nops: 60, conc_runs: 1_200, conc_nops: 5_000, route_sample: 50_000, route_depth3_complete: true, shared_sessions: 1_280, shared_rounds: 1_000 },
    }
}

fn decode_cfg(c: u64, json_extra: u8) -> Cfg {
    Cfg::from_parts((c % 4) as u8, ((c / 4) % 128) as u8, ((c / 512) % 3) as u8, ((c / 1536) % 16) as u8, json_extra)
}

// ---------------------------------------------------------------- parent

fn parent(args: &Args) {
    let t0 = Instant::now();
    let mut out = Out::new();
    let shards = args.get_u64("shards", args.tier.pick(32, 64));
    let mut spec = ChildSpec::new("all", shards).timeout(args.tier.pick(600, 3000));
    for k in ["part", "only"] {
        if let Some(v) = args.get(k) {
            spec = spec.arg(k, v);
        }
    }
    let ends = run::run_children(args, &spec, &mut out);
    run::classify_ends(&ends, &mut out, true);
    // concurrent first formatting of ever longer thread names (process-wide width)
    let ends = run::run_children(args, &ChildSpec::new("all", args.get_u64("names", args.tier.pick(16, 64))).arg("part", "names").timeout(600), &mut out);
    run::classify_ends(&ends, &mut out, true);
    // one-shot scenarios that need the fmt collector as the global default
    let ends = run::run_children(args, &ChildSpec::new("all", args.get_u64("nested", 8)).arg("part", "nested").timeout(120), &mut out);
    run::classify_ends(&ends, &mut out, true);
    let sz = sizes(args.tier);
    let mut extra = Map::new();
    vlib::sanlayer::run_layers(ID, args, &mut out, &mut extra);
    {
        let mut dspec = ChildSpec::new("all", args.get_u64("dbg_shards", 32)).timeout(3000).arg("part", args.get("part").unwrap_or("all"));
        if let Some(v) = args.get("only") {
            dspec = dspec.arg("only", v);
        }
        run::dbg_build_layer(ID, args, vec![dspec], &mut out, &mut extra);
    }
    extra.insert(
        "routing_table".into(),
        json!({"sinks": NSINKS, "unary_operators": "with_max_level x5 levels, with_min_level x5 levels, with_filter x2 predicates",
               "binary_operators": "and, or_else (first operand: any max/min/filter expression)",
               "event_levels": 5, "event_targets": RTARGETS,
               "enumerated_completely_up_to_depth": if sz.route_depth3_complete { 3 } else { 2 },
               "exhaustive": true,
               "expressions_depth_le_2": 1982, "expressions_depth_le_3": 4_665_630u64,
               "depth_3_in_this_tier": if sz.route_depth3_complete { "complete, through make_writer_for + write_all; plus a random sample through the fmt subscriber" } else { "random sample through the fmt subscriber" }}),
    );
    extra.insert("configuration_space".into(), json!({"formatter x option bits x timer x span-event set": NCONFIGS, "histories_per_configuration": sz.fmt_reps}));
    run::finish(
        Finish {
            id: ID,
            args,
            t0,
            rule: "evaluations = recorded write buffers judged (call-log automaton + per-format content) + routing cells (expression, level, target) judged; \
                   non-trivial = a judged record / a routing cell of an expression with at least one combinator; \
                   distinct = distinct (formatter, option bits, timer, span-event set, json options, record kind event/new/enter/exit/close, scope depth, level, field-type signature, explicit-parent?) tuples \
                   plus distinct routing cells; shared-span rounds (2-4 threads record on one span at once, records judged at quiescence) are counted in shared_span_* counters, \
                   rounds whose record calls overlapped by logical stamps in shared_span_rounds_with_overlapping_record_calls",
            assumptions: vec![
                "span scopes are produced by well-nested push/pop histories plus events with an explicit parent taken from the entered stack; explicit `parent: None` events are not generated".into(),
                "thread ids/names, file, line, target and timestamp text are located at most, never compared (the property does not speak about them)".into(),
                "json `spans` of records whose scope comes from an explicit parent or a lifecycle point may list either that scope or the currently entered spans (documented as the latter)".into(),
                "field values contain no raw newline, no ESC, no '#'; field names avoid `message`, `log.*`, `r#*` and the JSON formatter's reserved keys".into(),
                "shared-span rounds: the order in which concurrently recorded fields appear is free (every permutation is tried); a field recorded twice may show both values or either one".into(),
                "routing: a sink outside the denotation must receive no write; being asked for a writer without a write is only counted".into(),
            ],
            min_evals: args.tier.pick(800_000, 30_000_000),
            min_distinct: args.tier.pick(200_000, 1_000_000),
            exhaustive: false,
            extra,
        },
        out,
    );
}

// ---------------------------------------------------------------- child

fn child(args: &Args) {
    // panics provoked on purpose stay silent; anything else is printed as usual
    let prev = std::panic::take_hook();
    std::panic::set_hook(Box::new(move |info| {
        let quiet = info.payload().downcast_ref::<String>().map(|s| s == BOMB_PAYLOAD).unwrap_or(false)
            || info.payload().downcast_ref::<&str>().map(|s| *s == BOMB_PAYLOAD).unwrap_or(false);
        if !quiet {
            prev(info);
        }
    }));
    let mut out = Out::new();
    downcast_probes(&mut out);
    reload_span_events_probe(&mut out);
    if args.get("part") == Some("mini") {
        // small slice for the interpreter layer: the probes above + a few short histories
        let sz = sizes(args.tier);
        let n = args.get_u64("n", 3);
        for k in 0..n {
            let idx = args.shard * 1000 + k;
            let mut rng = Rng::derive(args.seed ^ 0x3171, idx, 7);
            let cfg = decode_cfg(rng.below(NCONFIGS), rng.below(8) as u8);
            let p = HistParams { nops: 6, bomb_pct: if k % 2 == 0 { 30 } else { 0 }, max_depth: 2 };
            scenario(args.seed, "fmt", 0x3171, idx, &cfg, 1 + (k % 2) as usize, &p, &mut out);
        }
        let _ = sz;
        nested_events_under_a_global_default(&mut out);
        out.emit();
        return;
    }
    if args.get("part") == Some("nested") {
        nested_events_under_a_global_default(&mut out);
        out.emit();
        return;
    }
    if args.get("part") == Some("names") {
        child_names(args, &mut out);
        out.emit();
        return;
    }
    let part = args.get("part").unwrap_or("all").to_string();
    let only = args.get("only").and_then(|s| s.parse::<u64>().ok());
    let sz = sizes(args.tier);
    if part == "all" || part == "fmt" {
        child_fmt(args, &sz, only, &mut out);
    }
    if part == "all" || part == "conc" {
        child_conc(args, &sz, only, &mut out);
    }
    if part == "all" || part == "shared" {
        child_shared(args, &sz, only, &mut out);
    }
    if part == "all" || part == "route" {
        child_route(args, &sz, &mut out);
    }
    out.emit();
}

/// Run one scenario: `nthreads` fresh threads, one shared subscriber + sink, one generated
/// history per thread, then judge every thread's records.
fn scenario(seed: u64, part: &str, salt: u64, hidx: u64, cfg: &Cfg, nthreads: usize, p: &HistParams, out: &mut Out) {
    let sink = RecSink::new(0);
    // a third of the scenarios use a sink whose writers hold the sink's lock for their whole life
    if (seed ^ salt).wrapping_add(hidx) % 3 == 0 {
        sink.set_exclusive(true);
        out.count("scenarios_with_a_lock_holding_writer", 1);
    }
    let dispatch = build_dispatch(cfg, sink.clone());
    let barrier = Arc::new(Barrier::new(nthreads));
    let mut handles = vec![];
    // Thread names grow from scenario to scenario and differ in length between the threads of
    // one scenario: whatever the formatter keeps per process about the names it has seen (the
    // padding width) is updated by several threads at the same moment, scenario after scenario.
    static NAME_PAD: std::sync::atomic::AtomicUsize = std::sync::atomic::AtomicUsize::new(0);
    let pad = NAME_PAD.fetch_add(nthreads, std::sync::atomic::Ordering::Relaxed).min(240);
    let procs: Arc<Mutex<Vec<Option<std::path::PathBuf>>>> = Arc::new(Mutex::new(vec![None; nthreads]));
    for t in 0..nthreads {
        let mut rng = Rng::derive(seed ^ salt, hidx, t as u64);
        let named = rng.chance(2, 3);
        let d = dispatch.clone();
        let cfg = *cfg;
        let b = barrier.clone();
        let hp = HistParams { nops: p.nops, bomb_pct: p.bomb_pct, max_depth: p.max_depth };
        let mut builder = std::thread::Builder::new();
        if named {
            builder = builder.name(format!("w{t}{}", "-".repeat(pad + t)));
        }
        let procs = procs.clone();
        let h = builder
            .spawn(move || {
                if !cfg!(miri) {
                    procs.lock().unwrap()[t] = std::fs::read_link("/proc/thread-self").ok().map(|p| std::path::Path::new("/proc").join(p));
                }
                let _g = tracing::dispatch::set_default(&d);
                b.wait();
                run_history(&mut rng, &cfg, (t + 1) as u64, named, &hp)
            })
            .expect("HARNESS: spawn history thread");
        handles.push(h);
    }
    // Bounded progress: a history is a few dozen operations, microseconds of work each.  A thread
    // that has burnt STUCK_CPU_S seconds of its own CPU time (scheduler accounting, so a loaded
    // machine does not count) without finishing is an emission that never returns; the wall clock
    // only ever makes the run inconclusive.
    const STUCK_CPU_S: u64 = 20;
    let t0 = Instant::now();
    let mut spins = 0u64;
    while !cfg!(miri) && handles.iter().any(|h| !h.is_finished()) {
        std::thread::sleep(std::time::Duration::from_micros(if spins < 2000 { 50 } else { 5000 }));
        spins += 1;
        if spins % 100 != 0 {
            continue;
        }
        for t in 0..nthreads {
            if handles[t].is_finished() {
                continue;
            }
            let path = procs.lock().unwrap()[t].clone();
            let cpu_ns = path
                .and_then(|p| std::fs::read_to_string(p.join("schedstat")).ok())
                .and_then(|s| s.split_whitespace().next().and_then(|x| x.parse::<u64>().ok()));
            if let Some(ns) = cpu_ns {
                if ns > STUCK_CPU_S * 1_000_000_000 {
                    out.violation(
                        "an emission never returned: a history thread consumed its CPU-time bound without finishing",
                        json!({"part": part, "history_index": hidx, "config": cfg.describe(), "threads": nthreads, "thread": t + 1,
                               "thread_cpu_seconds": ns / 1_000_000_000, "ops_per_history": p.nops, "thread_name_padding": pad + t}),
                    );
                    out.emit();
                    std::process::exit(0);
                }
            }
        }
        if t0.elapsed().as_secs() > 400 * run::slow_factor() {
            out.inconclusive(format!("{part} scenario {hidx} did not finish in 400 s (watchdog)"));
            out.emit();
            std::process::exit(0);
        }
    }
    let hists: Vec<ThreadHist> = handles.into_iter().map(|h| h.join().expect("HARNESS: history thread died")).collect();
    drop(dispatch);
    let recs = sink.take();
    out.count(&format!("{part}_histories"), nthreads as u64);
    out.count(&format!("{part}_scenarios"), 1);
    out.set("formats", FMT_NAMES[cfg.fmt as usize]);
    out.set("threads_per_scenario", nthreads.to_string());
    let ctx = JudgeCtx { cfg, part, hidx, nthreads };
    // calls that belong to no operation of any thread
    for r in &recs {
        let known = r.th >= 1
            && (r.th as usize) <= nthreads
            && r.op >= 1
            && (r.op as usize <= hists[r.th as usize - 1].ops.len() || hists[r.th as usize - 1].stray_panic.is_some());
        if !known {
            out.violation(
                "writer call outside any operation of the history",
                json!({"part": part, "history_index": hidx, "config": cfg.describe(), "call": format!("{:?}", r.kind), "thread": r.th, "op": r.op}),
            );
            return;
        }
    }
    for h in &hists {
        judge_thread(&ctx, h, &recs, out);
    }
}

/// `fmt::Subscriber` / `fmt::Collector` answer `downcast_raw` with pointers to their own parts
/// (event formatter, field formatter, writer factory).  Each answer is used as the type asked
/// for: a pointer to anything else is undefined behaviour for the tools and, natively, a wrong
/// sink identity / a wrong rendering.
fn downcast_probes(out: &mut Out) {
    use tracing_subscriber::fmt::format::{DefaultFields, Format, Full};
    let sink = RecSink::new(7);
    // the collector built by `fmt()`
    let d = Dispatch::new(tracing_subscriber::fmt().with_ansi(false).without_time().with_writer(sink.clone()).finish());
    out.count("fmt_downcast_probes", 1);
    let mut problems: Vec<String> = vec![];
    match d.downcast_ref::<RecSink>() {
        Some(w) => {
            if !Arc::ptr_eq(&w.0, &sink.0) {
                problems.push("downcast_ref::<W>() of fmt's collector does not give the writer factory it was built with".into());
            }
        }
        None => problems.push("downcast_ref::<W>() of fmt's collector answers None".into()),
    }
    if d.downcast_ref::<DefaultFields>().is_none() {
        problems.push("downcast_ref::<DefaultFields>() of fmt's collector answers None".into());
    }
    match d.downcast_ref::<Format<Full, ()>>() {
        Some(f) => {
            // use it: its Debug rendering walks every field of the value
            let t = format!("{f:?}");
            if !t.contains("Format") {
                problems.push(format!("downcast_ref::<Format<Full, ()>>() renders as {t:?}"));
            }
        }
        None => problems.push("downcast_ref::<Format<Full, ()>>() of fmt's collector answers None".into()),
    }
    if d.downcast_ref::<Registry>().is_none() {
        problems.push("downcast_ref::<Registry>() of fmt's collector answers None".into());
    }
    // the subscriber inside a registry stack
    let sink2 = RecSink::new(8);
    let d2 = Dispatch::new(tracing_subscriber::registry().with(tracing_subscriber::fmt::subscriber().with_ansi(false).with_writer(sink2.clone())));
    match d2.downcast_ref::<RecSink>() {
        Some(w) => {
            if !Arc::ptr_eq(&w.0, &sink2.0) {
                problems.push("downcast_ref::<W>() through a registry stack does not give the writer factory of the fmt subscriber".into());
            }
        }
        None => problems.push("downcast_ref::<W>() through a registry stack answers None".into()),
    }
    if d2.downcast_ref::<DefaultFields>().is_none() {
        problems.push("downcast_ref::<DefaultFields>() through a registry stack answers None".into());
    }
    // and the answers stay usable while events are formatted
    {
        let _g = tracing::dispatch::set_default(&d);
        tracing::info!(probe = 1, "downcast probe");
    }
    let wrote = sink.take().iter().filter(|r| matches!(r.kind, RecKind::Write(_))).count();
    if wrote != 1 {
        problems.push(format!("the probed collector wrote {wrote} records for one event"));
    }
    if let Some(p) = problems.first() {
        out.violation(format!("fmt downcast: {p}"), json!({"part": "downcast", "problems": problems}));
    }
}

/// An event field whose Debug impl itself emits an event: with the fmt collector as the GLOBAL
/// default (under a scoped default the dispatcher's re-entrancy guard sends the inner event to
/// nobody) the same fmt subscriber formats the inner event while the outer one is half done.
/// Both must come out as one whole line each, inner first.  One-shot per process (global default).
fn nested_events_under_a_global_default(out: &mut Out) {
    struct Chatty(u32);
    impl std::fmt::Debug for Chatty {
        fn fmt(&self, f: &mut std::fmt::Formatter<'_>) -> std::fmt::Result {
            tracing::info!(depth = self.0, "inner event #I{}#", self.0);
            if self.0 > 1 {
                tracing::info!(again = ?Chatty(self.0 - 1), "inner event with a chatty field #J{}#", self.0);
            }
            write!(f, "chatty{}", self.0)
        }
    }
    let sink = RecSink::new(9);
    let sub = tracing_subscriber::fmt().with_ansi(false).without_time().with_max_level(tracing::Level::TRACE).with_writer(sink.clone()).finish();
    if tracing::dispatch::set_global_default(Dispatch::new(sub)).is_err() {
        out.harness_errors.push("HARNESS: a global default was already set in this child".into());
        return;
    }
    out.count("nested_event_scenarios", 1);
    let mut problems: Vec<String> = vec![];
    let mut run = |what: &str, emit: &dyn Fn(), want: &[&str]| {
        emit();
        let recs: Vec<Vec<u8>> = sink.take().into_iter().filter_map(|r| if let RecKind::Write(b) = r.kind { Some(b) } else { None }).collect();
        let lines: Vec<String> = recs.iter().map(|b| String::from_utf8_lossy(b).into_owned()).collect();
        if lines.len() != want.len() {
            problems.push(format!("{what}: {} writes for {} records: {lines:?}", lines.len(), want.len()));
            return;
        }
        for (l, w) in lines.iter().zip(want) {
            if !l.ends_with('\n') || l.trim_end_matches('\n').contains('\n') || !l.contains(w) {
                problems.push(format!("{what}: expected one whole line containing {w:?}, got {l:?} (all: {lines:?})"));
                return;
            }
        }
    };
    run("one level", &|| tracing::warn!(v = ?Chatty(1), "outer event #O1#"), &["#I1#", "#O1#"]);
    run("two levels", &|| tracing::warn!(v = ?Chatty(2), "outer event #O2#"), &["#I2#", "#I1#", "#J2#", "#O2#"]);
    run("plain afterwards", &|| tracing::error!(k = 1, "plain #P#"), &["#P#"]);
    let t = std::thread::spawn(|| tracing::warn!(v = ?Chatty(1), "outer event #T1#"));
    let _ = t.join();
    run("other thread", &|| {}, &["#I1#", "#T1#"]);
    for l in ["v=chatty1", "v=chatty2"] {
        let _ = l;
    }
    out.evals += 4;
    if let Some(p) = problems.first() {
        out.violation(format!("nested events under a global fmt default: {p}"), json!({"part": "nested", "problems": problems}));
    }
}

/// Rounds of eight named threads that format one event each at the same moment, with thread
/// names on; in every round every name is longer than any name the process has formatted so
/// far and the eight lengths differ, so all of them update the formatter's process-wide
/// name-width at once.  Judged: every thread's record arrives whole in one write, names its
/// thread and its ids - and every thread comes back (CPU-time bound, as in `scenario`).
fn child_names(args: &Args, out: &mut Out) {
    const THREADS: usize = 8;
    const STUCK_CPU_S: u64 = 20;
    let rounds = args.get_u64("rounds", if cfg!(miri) { 2 } else { 150 }) as usize;
    let sink = RecSink::new(9);
    let compact = args.shard % 2 == 1;
    let dispatch = if compact {
        Dispatch::new(tracing_subscriber::fmt().compact().with_ansi(false).without_time().with_thread_names(true).with_writer(sink.clone()).finish())
    } else {
        Dispatch::new(tracing_subscriber::fmt().with_ansi(false).without_time().with_thread_names(true).with_writer(sink.clone()).finish())
    };
    out.set("names_formats", if compact { "compact" } else { "full" });
    let base = 24 + (args.shard as usize % 5) * 3;
    for round in 0..rounds {
        let ready = Arc::new(std::sync::atomic::AtomicUsize::new(0));
        let go = Arc::new(std::sync::atomic::AtomicBool::new(false));
        let procs: Arc<Mutex<Vec<Option<std::path::PathBuf>>>> = Arc::new(Mutex::new(vec![None; THREADS]));
        let mut names = vec![];
        let mut hs = vec![];
        for idx in 0..THREADS {
            let mut name = format!("n{round}-{idx}-");
            while name.len() < base + round * THREADS + idx {
                name.push('~');
            }
            names.push(name.clone());
            let (d, ready, go, procs) = (dispatch.clone(), ready.clone(), go.clone(), procs.clone());
            hs.push(
                std::thread::Builder::new()
                    .name(name)
                    .spawn(move || {
                        if !cfg!(miri) {
                            procs.lock().unwrap()[idx] = std::fs::read_link("/proc/thread-self").ok().map(|p| std::path::Path::new("/proc").join(p));
                        }
                        tracing::dispatch::with_default(&d, || {
                            set_opctx(idx as u64 + 1, round as u64 + 1);
                            ready.fetch_add(1, Ordering::SeqCst);
                            while !go.load(Ordering::Acquire) {
                                std::hint::spin_loop();
                            }
                            tracing::info!(nround = round as u64, nidx = idx as u64, "names");
                        });
                    })
                    .expect("HARNESS: spawn names thread"),
            );
        }
        while ready.load(Ordering::SeqCst) < THREADS {
            std::thread::yield_now();
        }
        // CPU time each thread has used up to the start signal (spin-waiting for the others)
        let cpu_of = |t: usize| -> Option<u64> {
            let path = procs.lock().unwrap()[t].clone();
            path.and_then(|p| std::fs::read_to_string(p.join("schedstat")).ok())
                .and_then(|s| s.split_whitespace().next().and_then(|x| x.parse::<u64>().ok()))
        };
        let base_cpu: Vec<u64> = (0..THREADS).map(|t| if cfg!(miri) { 0 } else { cpu_of(t).unwrap_or(0) }).collect();
        go.store(true, Ordering::Release);
        let t0 = Instant::now();
        let mut spins = 0u64;
        while !cfg!(miri) && hs.iter().any(|h| !h.is_finished()) {
            std::thread::sleep(std::time::Duration::from_micros(if spins < 2000 { 20 } else { 5000 }));
            spins += 1;
            if spins % 100 != 0 {
                continue;
            }
            for t in 0..THREADS {
                if hs[t].is_finished() {
                    continue;
                }
                let cpu_ns = cpu_of(t).map(|ns| ns.saturating_sub(base_cpu[t]));
                if cpu_ns.map(|ns| ns > STUCK_CPU_S * 1_000_000_000).unwrap_or(false) {
                    out.violation(
                        "an emission never returned: a thread formatting one event with thread names on consumed its CPU-time bound without finishing",
                        json!({"part": "names", "round": round, "format": if compact { "compact" } else { "full" }, "thread": names[t].clone(),
                               "thread_cpu_seconds": cpu_ns.unwrap() / 1_000_000_000, "threads_per_round": THREADS,
                               "records_of_this_round_written": sink.take().iter().filter(|r| matches!(r.kind, RecKind::Write(_))).count()}),
                    );
                    out.emit();
                    std::process::exit(0);
                }
            }
            if t0.elapsed().as_secs() > 300 * run::slow_factor() {
                out.inconclusive(format!("names round {round} did not finish in 300 s (watchdog)"));
                out.emit();
                std::process::exit(0);
            }
        }
        for h in hs {
            h.join().expect("HARNESS: names thread died");
        }
        let recs = sink.take();
        out.count("names_rounds", 1);
        for idx in 0..THREADS {
            let writes: Vec<&Vec<u8>> = recs.iter().filter(|r| r.th == idx as u64 + 1).filter_map(|r| if let RecKind::Write(b) = &r.kind { Some(b) } else { None }).collect();
            out.evals += 1;
            out.count("names_records_judged", 1);
            let problem = if writes.len() != 1 {
                Some(format!("{} write calls for one event", writes.len()))
            } else {
                let text = String::from_utf8_lossy(writes[0]).to_string();
                if !text.ends_with('\n') || text.matches('\n').count() != 1 {
                    Some(format!("the buffer is not one newline-terminated line: {text:?}"))
                } else if !text.contains(&names[idx]) {
                    Some(format!("the record does not name its thread {:?}: {text:?}", names[idx]))
                } else if !text.contains(&format!("nround={round}")) || !text.contains(&format!("nidx={idx}")) {
                    Some(format!("the record lacks its fields nround={round} nidx={idx}: {text:?}"))
                } else {
                    None
                }
            };
            if let Some(pr) = problem {
                out.violation(
                    "a record of an event formatted concurrently with thread names on is not one whole line naming its thread and fields",
                    json!({"part": "names", "round": round, "thread": names[idx].clone(), "problem": pr}),
                );
                return;
            }
        }
        out.distinct_str(&format!("names|{compact}|{}", (base + round * THREADS) / 64));
    }
}

/// Span lifecycle records follow the configuration in force when the lifecycle point is
/// reached: a span created before `FmtSpan::CLOSE` (or `NEW`..) was switched on through a reload
/// handle still gets its one close record - with and without timestamps, full and compact.
fn reload_span_events_probe(out: &mut Out) {
    for variant in 0..4u32 {
        let sink = RecSink::new(11);
        let timed = variant & 1 == 0;
        let desc = format!("fmt::subscriber(){}{} behind reload::Subscriber, set_span_events(CLOSE) after the span was created", if variant & 2 != 0 { ".compact()" } else { "" }, if timed { "" } else { ".without_time()" });
        let mut problems: Vec<String> = vec![];
        macro_rules! drive {
            ($sub:expr) => {{
                let (sub, handle) = tracing_subscriber::reload::Subscriber::new($sub);
                let d = Dispatch::new(tracing_subscriber::registry().with(sub));
                tracing::dispatch::with_default(&d, || {
                    set_opctx(0, 0);
                    let old = tracing::info_span!("c13_old_span", k = 1u64);
                    {
                        let _e = old.enter();
                    }
                    if !sink.take().iter().all(|r| !matches!(r.kind, RecKind::Write(_))) {
                        problems.push("a span lifecycle record was written although no span events are configured".into());
                    }
                    if handle.modify(|s| s.set_span_events(FmtSpan::CLOSE)).is_err() {
                        problems.push("reload handle refused modify".into());
                    }
                    let newer = tracing::info_span!("c13_new_span", k = 2u64);
                    drop(old);
                    let w: Vec<String> = sink.take().into_iter().filter_map(|r| if let RecKind::Write(b) = r.kind { Some(String::from_utf8_lossy(&b).to_string()) } else { None }).collect();
                    if w.len() != 1 || !w[0].contains("k=1") || !w[0].contains("close") || !w[0].ends_with('\n') {
                        problems.push(format!("closing the span created BEFORE the switch wrote {w:?}, expected exactly one close record showing the span's field k=1"));
                    }
                    drop(newer);
                    let w: Vec<String> = sink.take().into_iter().filter_map(|r| if let RecKind::Write(b) = r.kind { Some(String::from_utf8_lossy(&b).to_string()) } else { None }).collect();
                    if w.len() != 1 || !w[0].contains("k=2") || !w[0].contains("close") || !w[0].ends_with('\n') {
                        problems.push(format!("closing the span created AFTER the switch wrote {w:?}, expected exactly one close record showing the span's field k=2"));
                    }
                });
            }};
        }
        match (variant & 2 != 0, timed) {
            (false, true) => drive!(tracing_subscriber::fmt::subscriber().with_ansi(false).with_writer(sink.clone())),
            (false, false) => drive!(tracing_subscriber::fmt::subscriber().with_ansi(false).without_time().with_writer(sink.clone())),
            (true, true) => drive!(tracing_subscriber::fmt::subscriber().compact().with_ansi(false).with_writer(sink.clone())),
            (true, false) => drive!(tracing_subscriber::fmt::subscriber().compact().with_ansi(false).without_time().with_writer(sink.clone())),
        }
        out.evals += 1;
        out.count("span_events_switched_on_through_a_reload_handle", 1);
        if !problems.is_empty() {
            out.violation(
                "span lifecycle records after the span events were changed through a reload handle: not exactly one record per configured lifecycle point",
                json!({"configuration": desc, "problems": problems}),
            );
            return;
        }
    }
}

fn child_fmt(args: &Args, sz: &Sizes, only: Option<u64>, out: &mut Out) {
    let total = NCONFIGS * sz.fmt_reps;
    let mut idx = args.shard;
    while idx < total {
        if only.is_none() || only == Some(idx) {
            let c = (idx % NCONFIGS) * 7919 % NCONFIGS; // bijection: mixes formatters / options over the shards
            let mut rng = Rng::derive(args.seed ^ 0xF17, idx, 999);
            let cfg = decode_cfg(c, rng.below(8) as u8);
            let p = HistParams {
                nops: sz.fmt_nops / 2 + rng.usize(sz.fmt_nops),
                bomb_pct: if rng.chance(1, 3) { 12 } else { 0 },
                max_depth: 4,
            };
            scenario(args.seed, "fmt", 0xF17, idx, &cfg, 1, &p, out);
            if out.viols.len() >= 5 {
                return;
            }
        }
        idx += args.nshards;
    }
}

fn child_conc(args: &Args, sz: &Sizes, only: Option<u64>, out: &mut Out) {
    let mut idx = args.shard;
    while idx < sz.conc_runs {
        if only.is_none() || only == Some(idx) {
            let mut rng = Rng::derive(args.seed ^ 0xC0C, idx, 999);
            let cfg = decode_cfg(rng.below(NCONFIGS), rng.below(8) as u8);
            let nthreads = 1 + (idx % 8) as usize;
            let p = HistParams { nops: sz.conc_nops, bomb_pct: if rng.chance(1, 4) { 5 } else { 0 }, max_depth: 4 };
            scenario(args.seed, "conc", 0xC0C, idx, &cfg, nthreads, &p, out);
            if out.viols.len() >= 5 {
                return;
            }
        }
        idx += args.nshards;
    }
}

/// several threads record on one shared span at the same moment (part E)
fn child_shared(args: &Args, sz: &Sizes, only: Option<u64>, out: &mut Out) {
    let mut idx = args.shard;
    while idx < sz.shared_sessions {
        if only.is_none() || only == Some(idx) {
            let mut rng = Rng::derive(args.seed ^ 0x5A4E, idx, 998);
            let cfg = decode_cfg(rng.below(NCONFIGS), rng.below(8) as u8);
            let k = 2 + (idx % 3) as usize;
            let before = out.viols.len();
            shared_record_session(args.seed, idx, &cfg, k, sz.shared_rounds, out);
            out.count("shared_span_sessions", 1);
            if out.viols.len() > before && out.viols.len() >= 3 {
                return;
            }
        }
        idx += args.nshards;
    }
}

fn child_route(args: &Args, sz: &Sizes, out: &mut Out) {
    let d0: Vec<Expr> = (0..NSINKS).map(Expr::Sink).collect();
    let d1 = next_level(&d0);
    let d2 = next_level(&d1);
    assert_eq!(d2.len() as u64, level_count(&d1), "HARNESS: enumeration count");
    assert_eq!(d2.len(), 1982, "HARNESS: depth<=2 table size");
    let n3 = level_count(&d2);
    assert_eq!(n3, 4_665_630, "HARNESS: depth<=3 table size");
    let opts2: Vec<usize> = (0..d2.len()).filter(|&i| d2[i].is_opt()).collect();
    // subscriber configurations used for end-to-end routing
    let cfgs: Vec<Cfg> = vec![
        Cfg::from_parts(0, 0b0000011, 0, 0, 0),
        Cfg::from_parts(1, 0b0000011, 0, 0, 0),
        Cfg::from_parts(3, 0b0000011, 1, 0, 6),
        Cfg::from_parts(2, 0b1000011, 0, 0, 0),
        Cfg::from_parts(0, 0b1111111, 1, 0, 0),
    ];
    let mut acc = RouteAcc::default();
    // complete table for depth <= 2 through the real fmt subscriber
    for (i, e) in d2.iter().enumerate() {
        if i as u64 % args.nshards != args.shard {
            continue;
        }
        out.set("route_depths", e.depth().to_string());
        if !route_end_to_end(e, &cfgs, i as u64, hash_str("d2") ^ i as u64, &mut acc, out) {
            acc.flush(out);
            return;
        }
    }
    // depth 3: random sample end to end
    for j in 0..sz.route_sample {
        if j % args.nshards != args.shard {
            continue;
        }
        let idx = Rng::derive(args.seed ^ 0x207E, j, 3).below(n3);
        let e = level_nth(&d2, &opts2, idx);
        out.set("route_depths", e.depth().to_string());
        if !route_end_to_end(&e, &cfgs, idx, hash_str("d3") ^ idx, &mut acc, out) {
            acc.flush(out);
            return;
        }
    }
    // depth 3: the complete table through make_writer_for + write_all
    if sz.route_depth3_complete {
        let sinks: Vec<RecSink> = (0..NSINKS).map(RecSink::new).collect();
        let names: Vec<String> = vec!["message".to_string()];
        let mut metas = [[dyn_meta(false, "event c13", RTARGETS[0], 1, false, None, &names); 3]; 5];
        for (l, row) in metas.iter_mut().enumerate() {
            for (t, m) in row.iter_mut().enumerate() {
                *m = dyn_meta(false, "event c13", RTARGETS[t], l + 1, false, None, &names);
            }
        }
        let mut idx = args.shard;
        while idx < n3 {
            let e = level_nth(&d2, &opts2, idx);
            if !route_direct(&e, &sinks, &metas, hash_str("d3") ^ idx, &mut acc, out) {
                break;
            }
            idx += args.nshards;
        }
    }
    acc.flush(out);
}
