//! C11 — filter directives: the most specific match wins, and filters round-trip
//! (DESIGN.md 5/C11, finding F12).
//!
//! Per generated directive set (AST from the documented grammar, rendered to a string; the
//! reference in `vlib::dirspec` never parses):
//!  1. static part on ~1000 constructed real `Metadata`: `Targets` and `EnvFilter` (through
//!     `Subscribe::enabled` and `Filter::enabled`, strict / lossy / `with_regex(false)` /
//!     `add_directive` construction) vs. the reference; `Targets` == `EnvFilter`;
//!     `would_enable`; `parse . display` round trip (same decisions, display fixpoint);
//!  2. histories through the real macros under `with_default` on a stack
//!     `Registry + filter + recording layer` (filter global or per-layer): create span with
//!     values / record later / enter / exit / events at every depth; delivery to the
//!     recording layer vs. the span-scope model; the same history on the round-tripped filter.
use std::sync::{Arc, Mutex, OnceLock};
use std::time::Instant;
use tracing::field::Value as FieldValue;
use tracing_core::{
    callsite::Callsite, collect::Interest, dispatch::Dispatch, field::FieldSet, span, Collect, Event, Kind, Level,
    Metadata,
};
use tracing_subscriber::{
    filter::{Directive, EnvFilter, Targets},
    prelude::*,
    registry::Registry,
    subscribe::{Context, Filter, Subscribe},
};
use vlib::dirspec::{self as ds, Dir, GenOpts, Interp, MetaDesc, Pat, Quirks, Tri, Val};
use vlib::run::{self, Finish};
use vlib::{json, Args, ChildSpec, Map, Mode, Out, Rng, Value};

const ID: &str = "C11";

/// provisional ids of deviations found by this check that are not in DESIGN.md section 6;
/// `Out::finding` reports them as VIOLATIONs unless they are listed in known_findings.json
const N_DBG_PREFIX: &str = "F19";
const N_F64_DISPLAY: &str = "F20";
const N_ADD_DIRECTIVE: &str = "F21";
const N_ORD_ASSERT: &str = "F22";
const N_MULTI_FIELD: &str = "F23";
const MULTI_FIELD_WHAT: &str = "Directive::from_str on a directive with several fields (`[{f,g}]=info`, `[sp{f=1,g=2}]`): every field but the last keeps its trailing comma (field name `f,`, value pattern `1,`), so the directive selects nothing with those fields";

fn main() {
    let args = run::parse_args();
    match args.mode.clone() {
        Mode::Parent => parent(&args),
        Mode::Child(_) => child(&args),
        Mode::Replay(p) => run::replay(ID, &p),
    }
}

fn parent(args: &Args) {
    let t0 = Instant::now();
    let mut out = Out::new();
    let shards = args.get_u64("shards", args.tier.pick(64, 640));
    let sets = args.get_u64("sets", args.tier.pick(1000, 1500));
    let mut spec = ChildSpec::new("sets", shards).arg("sets", sets).timeout(900);
    if let Some(o) = args.get("only") {
        spec = spec.arg("only", o);
    }
    let ends = run::run_children(args, &spec, &mut out);
    run::classify_ends(&ends, &mut out, true);
    let mut extra = Map::new();
    extra.insert(
        "repaired_findings_still_monitored".into(),
        json!({
            N_DBG_PREFIX: what_of(N_DBG_PREFIX), N_F64_DISPLAY: what_of(N_F64_DISPLAY),
            N_ADD_DIRECTIVE: what_of(N_ADD_DIRECTIVE), N_MULTI_FIELD: what_of(N_MULTI_FIELD),
            N_ORD_ASSERT: "debug-assertion build only: with_regex(false) + a repeated directive with a non-literal value pattern panics in `Ord for Directive` (ValueMatch::Debug is never == itself)",
            "note": "found by this check, repaired in /repo (fix: commits); the signatures stay armed: the ids are not listed in known_findings.json, so a recurrence is a VIOLATION",
        }),
    );
    // the same workload on a build with the repository's debug assertions live
    if let Ok(p) = std::env::var("VERIF_C11_DBG_BIN") {
        let mut dbg = Out::new();
        let dshards = args.get_u64("dbg_shards", args.tier.pick(16, 160));
        let mut dspec = ChildSpec::new("sets", dshards).arg("sets", sets).arg("dbg", 1).timeout(1800);
        dspec.exe = Some(std::path::PathBuf::from(&p));
        let ends = run::run_children(args, &dspec, &mut dbg);
        run::classify_ends(&ends, &mut dbg, true);
        extra.insert(
            "debug_assertion_build".into(),
            json!({"binary": p, "evaluations": dbg.evals, "distinct": dbg.distinct.len(), "counters": dbg.counters}),
        );
        let v = dbg.to_json();
        let evals = out.evals + dbg.evals;
        out.merge_json(&json!({"viols": v["viols"], "known": v["known"], "inconclusive": v["inconclusive"], "harness_errors": v["harness_errors"]}));
        out.evals = evals;
        for h in dbg.distinct {
            out.distinct.insert(h ^ 0x0dbd_0dbd);
        }
    }
    run::finish(
        Finish {
            id: ID,
            args,
            t0,
            rule: "evaluations = (filter, metadata) static decisions and (history op) deliveries compared with a definite reference answer; \
                   non-trivial = static decision where >= 2 standing directives match the metadata (specificity or replace-on-duplicate decides), \
                   or a history decision taken while a span selected by a span-scoped directive is entered / about such a span itself; \
                   distinct = distinct shapes: static (the two most specific matching directives as (#fields, level, target-less?, same target length?), number matching, duplicate replaced?, unique winner?, metadata level/kind/#fields), \
                   dynamic (stack of (definitely, possibly) raised levels, what decided, metadata level/kind/#fields, expectation, #directives selecting the span)",
            assumptions: vec![
                "only strings inside the documented grammar are generated (no `foo=`, `03`, `=info`, empty directives, whitespace)".into(),
                "value patterns are regex-metacharacter free, so 'anchored regex' and 'literal' both mean string equality with the Debug output".into(),
                "a field-name list on *span* metadata, ties between equally specific directives with different field lists, cross-type numeric equality, values re-recorded or recorded while the span is entered, spans more verbose than their directive (F14): not judged (Open)".into(),
                "histories are single-threaded and well nested; a field is recorded again only with the value it already has (which must change nothing)".into(),
                "regex mode: whether a `&str` value is compared raw or through its Debug text is not fixed by the property; a history holds if either reading explains it (counter open_str_value_matched_raw_or_debug)".into(),
                "'same filter' after a round trip = same decisions over the universe, same history deliveries, Display fixpoint".into(),
            ],
            min_evals: 25_000_000,
            min_distinct: 10_000,
            exhaustive: false,
            extra,
        },
        out,
    );
}

// ---------------------------------------------------------------------------------------
// real static metadata for direct calls

struct LeakCs {
    meta: OnceLock<&'static Metadata<'static>>,
    _pad: u64,
}
impl Callsite for LeakCs {
    fn set_interest(&self, _: Interest) {}
    fn metadata(&self) -> &Metadata<'_> {
        self.meta.get().expect("HARNESS: callsite without metadata")
    }
}

fn level_of(rank: usize) -> Level {
    [Level::ERROR, Level::ERROR, Level::WARN, Level::INFO, Level::DEBUG, Level::TRACE][rank]
}
fn rank_of(l: &Level) -> usize {
    match *l {
        Level::ERROR => 1,
        Level::WARN => 2,
        Level::INFO => 3,
        Level::DEBUG => 4,
        _ => 5,
    }
}

fn leak_meta(d: &MetaDesc) -> &'static Metadata<'static> {
    let cs: &'static LeakCs = Box::leak(Box::new(LeakCs {
        meta: OnceLock::new(),
        _pad: 7,
    }));
    let names: Vec<&'static str> = d.fields.iter().map(|s| &*Box::leak(s.clone().into_boxed_str())).collect();
    let names: &'static [&'static str] = Box::leak(names.into_boxed_slice());
    let meta: &'static Metadata<'static> = Box::leak(Box::new(Metadata::new(
        Box::leak(d.name.clone().into_boxed_str()),
        Box::leak(d.target.clone().into_boxed_str()),
        level_of(d.level),
        None,
        None,
        None,
        FieldSet::new(names, tracing_core::identify_callsite!(cs)),
        if d.is_span { Kind::SPAN } else { Kind::EVENT },
    )));
    cs.meta.set(meta).ok();
    meta
}

struct Um {
    desc: MetaDesc,
    meta: &'static Metadata<'static>,
}

fn universe() -> Vec<Um> {
    let mut targets: Vec<&str> = ds::TARGET_VOCAB.to_vec();
    targets.extend(["apps", "a::", "a::bcd", "b", "net-io::tcp", "warn", "warning", "3", "30", "Info", "x_y::z"]);
    let fsets: [&[&str]; 4] = [&[], &["f"], &["g"], &["f", "g"]];
    let mut v = vec![];
    for t in &targets {
        for level in 1..=5 {
            for is_span in [false, true] {
                for fs in fsets {
                    let desc = MetaDesc {
                        target: t.to_string(),
                        name: if is_span { "sp".into() } else { "event c11".into() },
                        level,
                        is_span,
                        fields: fs.iter().map(|s| s.to_string()).collect(),
                    };
                    let meta = leak_meta(&desc);
                    v.push(Um { desc, meta });
                }
            }
        }
    }
    v
}

// ---------------------------------------------------------------------------------------
// direct evaluation through the two traits

/// minimal collector that accepts everything (not zero-sized)
struct Yes {
    _pad: u64,
}
impl Collect for Yes {
    fn enabled(&self, _: &Metadata<'_>) -> bool {
        true
    }
    fn new_span(&self, _: &span::Attributes<'_>) -> span::Id {
        span::Id::from_u64(1)
    }
    fn record(&self, _: &span::Id, _: &span::Record<'_>) {}
    fn record_follows_from(&self, _: &span::Id, _: &span::Id) {}
    fn event(&self, _: &Event<'_>) {}
    fn enter(&self, _: &span::Id) {}
    fn exit(&self, _: &span::Id) {}
    fn current_span(&self) -> span::Current {
        span::Current::unknown()
    }
}

/// asks the wrapped filter through `Subscribe::enabled` or through `Filter::enabled`
struct Bridge<F> {
    f: Arc<F>,
    as_filter: bool,
}
impl<F> Subscribe<Yes> for Bridge<F>
where
    F: Subscribe<Yes> + Filter<Yes> + Send + Sync + 'static,
{
    fn enabled(&self, m: &Metadata<'_>, ctx: Context<'_, Yes>) -> bool {
        if self.as_filter {
            Filter::enabled(&*self.f, m, &ctx)
        } else {
            Subscribe::enabled(&*self.f, m, ctx)
        }
    }
}

fn eval_direct<F>(f: &Arc<F>, as_filter: bool, uni: &[Um]) -> Vec<bool>
where
    F: Subscribe<Yes> + Filter<Yes> + Send + Sync + 'static,
{
    let stack = Bridge {
        f: f.clone(),
        as_filter,
    }
    .with_collector(Yes { _pad: 1 });
    uni.iter().map(|u| Collect::enabled(&stack, u.meta)).collect()
}

// ---------------------------------------------------------------------------------------
// pool of real macro callsites for the histories

struct SpanCs {
    desc: MetaDesc,
    make: fn(&dyn FieldValue, &dyn FieldValue) -> tracing::Span,
}
struct EventCs {
    desc: MetaDesc,
    emit: fn(&dyn FieldValue, &dyn FieldValue),
}
struct Pool {
    spans: Vec<SpanCs>,
    events: Vec<EventCs>,
}

fn sdesc(target: &str, name: &str, level: usize, fields: &[&str], is_span: bool) -> MetaDesc {
    MetaDesc {
        target: target.into(),
        name: name.into(),
        level,
        is_span,
        fields: fields.iter().map(|s| s.to_string()).collect(),
    }
}

macro_rules! sp_one {
    ($p:ident, $t:literal, $name:literal, $lvl:ident, $li:expr) => {
        $p.spans.push(SpanCs {
            desc: sdesc($t, $name, $li, &[], true),
            make: |_f: &dyn FieldValue, _g: &dyn FieldValue| tracing::span!(target: $t, tracing::Level::$lvl, $name),
        });
        $p.spans.push(SpanCs {
            desc: sdesc($t, $name, $li, &["f"], true),
            make: |f: &dyn FieldValue, _g: &dyn FieldValue| tracing::span!(target: $t, tracing::Level::$lvl, $name, f = f),
        });
        $p.spans.push(SpanCs {
            desc: sdesc($t, $name, $li, &["f", "g"], true),
            make: |f: &dyn FieldValue, g: &dyn FieldValue| {
                tracing::span!(target: $t, tracing::Level::$lvl, $name, f = f, g = g)
            },
        });
    };
}
macro_rules! ev_one {
    ($p:ident, $t:literal, $lvl:ident, $li:expr) => {
        $p.events.push(EventCs {
            desc: sdesc($t, "event", $li, &["message"], false),
            emit: |_f: &dyn FieldValue, _g: &dyn FieldValue| tracing::event!(target: $t, tracing::Level::$lvl, "m"),
        });
        $p.events.push(EventCs {
            desc: sdesc($t, "event", $li, &["f"], false),
            emit: |f: &dyn FieldValue, _g: &dyn FieldValue| tracing::event!(target: $t, tracing::Level::$lvl, f = f),
        });
        $p.events.push(EventCs {
            desc: sdesc($t, "event", $li, &["f", "g"], false),
            emit: |f: &dyn FieldValue, g: &dyn FieldValue| tracing::event!(target: $t, tracing::Level::$lvl, f = f, g = g),
        });
    };
}
macro_rules! per_level {
    ($m:ident, $p:ident, $($a:literal),+) => {
        $m!($p, $($a),+, ERROR, 1);
        $m!($p, $($a),+, WARN, 2);
        $m!($p, $($a),+, INFO, 3);
        $m!($p, $($a),+, DEBUG, 4);
        $m!($p, $($a),+, TRACE, 5);
    };
}
macro_rules! per_target {
    ($p:ident, $t:literal) => {
        per_level!(sp_one, $p, $t, "sp");
        per_level!(sp_one, $p, $t, "spx");
        per_level!(sp_one, $p, $t, "other");
        per_level!(ev_one, $p, $t);
    };
}

fn build_pool() -> Pool {
    let mut p = Pool {
        spans: vec![],
        events: vec![],
    };
    per_target!(p, "app");
    per_target!(p, "app::db");
    per_target!(p, "application");
    per_target!(p, "a::b");
    per_target!(p, "a::bc");
    per_target!(p, "net-io");
    per_target!(p, "warn");
    p
}

/// `Debug` that writes the text verbatim, in two pieces
struct Raw(String);
impl std::fmt::Debug for Raw {
    fn fmt(&self, f: &mut std::fmt::Formatter<'_>) -> std::fmt::Result {
        let mid = self.0.len() / 2;
        if self.0.is_char_boundary(mid) && mid > 0 {
            f.write_str(&self.0[..mid])?;
            f.write_str(&self.0[mid..])
        } else {
            f.write_str(&self.0)
        }
    }
}

fn with_val<R>(v: &Val, k: impl FnOnce(&dyn FieldValue) -> R) -> R {
    match v {
        Val::Empty => k(&tracing::field::Empty),
        Val::Bool(b) => k(b),
        Val::U64(x) => k(x),
        Val::I64(x) => k(x),
        Val::F64(x) => k(x),
        Val::Str(s) => k(&s.as_str()),
        Val::Dbg(s) => k(&tracing::field::debug(Raw(s.clone()))),
    }
}

// ---------------------------------------------------------------------------------------
// recording layer

#[derive(Clone, Debug, PartialEq)]
enum Got {
    NewSpan { name: &'static str, target: &'static str, level: usize },
    Event { target: &'static str, level: usize },
}
type Log = Arc<Mutex<Vec<Got>>>;
struct Rec {
    log: Log,
}
impl<C: Collect> Subscribe<C> for Rec {
    fn on_new_span(&self, attrs: &span::Attributes<'_>, _: &span::Id, _: Context<'_, C>) {
        let m = attrs.metadata();
        self.log.lock().unwrap().push(Got::NewSpan {
            name: m.name(),
            target: m.target(),
            level: rank_of(m.level()),
        });
    }
    fn on_event(&self, ev: &Event<'_>, _: Context<'_, C>) {
        let m = ev.metadata();
        self.log.lock().unwrap().push(Got::Event {
            target: m.target(),
            level: rank_of(m.level()),
        });
    }
}

fn mk_dispatch<F>(f: F, per_layer: bool, log: &Log) -> Dispatch
where
    F: Subscribe<Registry> + Filter<Registry> + Send + Sync + 'static,
{
    let rec = Rec { log: log.clone() };
    if per_layer {
        Dispatch::new(Registry::default().with(rec.with_filter(f)))
    } else {
        Dispatch::new(Registry::default().with(f).with(rec))
    }
}

// ---------------------------------------------------------------------------------------
// histories

#[derive(Clone, Debug)]
enum Op {
    Create { slot: usize, cs: usize, vals: [Val; 2] },
    Record { slot: usize, field: usize, val: Val },
    Enter { slot: usize },
    Exit,
    Event { cs: usize },
    Drop { slot: usize },
}

#[derive(Clone, Debug, PartialEq)]
enum Obs {
    Created { disabled: bool, delivered: bool },
    Event { delivered: bool },
    Quiet,
    Noise(String),
}

struct Runner {
    spans: Vec<Option<tracing::Span>>,
    guards: Vec<tracing::span::EnteredSpan>,
}
impl Drop for Runner {
    fn drop(&mut self) {
        while let Some(g) = self.guards.pop() {
            drop(g);
        }
        while let Some(s) = self.spans.pop() {
            drop(s);
        }
    }
}

fn run_ops(d: &Dispatch, log: &Log, pool: &Pool, ops: &[Op]) -> Vec<Obs> {
    log.lock().unwrap().clear();
    tracing::dispatch::with_default(d, || {
        let mut r = Runner {
            spans: vec![],
            guards: vec![],
        };
        let mut obs = Vec::with_capacity(ops.len());
        for op in ops {
            let o = match op {
                Op::Create { slot, cs, vals } => {
                    let c = &pool.spans[*cs];
                    let sp = with_val(&vals[0], |f| with_val(&vals[1], |g| (c.make)(f, g)));
                    let disabled = sp.is_disabled();
                    if r.spans.len() <= *slot {
                        r.spans.resize_with(*slot + 1, || None);
                    }
                    r.spans[*slot] = Some(sp);
                    let got = std::mem::take(&mut *log.lock().unwrap());
                    match got.len() {
                        0 => Obs::Created { disabled, delivered: false },
                        1 if matches!(&got[0], Got::NewSpan{name, target, level}
                            if *name == c.desc.name && *target == c.desc.target && *level == c.desc.level) =>
                        {
                            Obs::Created { disabled, delivered: true }
                        }
                        _ => Obs::Noise(format!("{got:?}")),
                    }
                }
                Op::Record { slot, field, val } => {
                    if let Some(Some(sp)) = r.spans.get(*slot) {
                        let name = ["f", "g"][*field];
                        with_val(val, |v| {
                            sp.record(name, v);
                        });
                    }
                    quiet(log)
                }
                Op::Enter { slot } => {
                    let sp = r.spans[*slot].as_ref().expect("HARNESS: enter of a dropped slot").clone();
                    r.guards.push(sp.entered());
                    quiet(log)
                }
                Op::Exit => {
                    let g = r.guards.pop().expect("HARNESS: exit without enter");
                    drop(g);
                    quiet(log)
                }
                Op::Event { cs } => {
                    let c = &pool.events[*cs];
                    (c.emit)(&1u64, &true);
                    let got = std::mem::take(&mut *log.lock().unwrap());
                    match got.len() {
                        0 => Obs::Event { delivered: false },
                        1 if matches!(&got[0], Got::Event{target, level} if *target == c.desc.target && *level == c.desc.level) => {
                            Obs::Event { delivered: true }
                        }
                        _ => Obs::Noise(format!("{got:?}")),
                    }
                }
                Op::Drop { slot } => {
                    r.spans[*slot] = None;
                    quiet(log)
                }
            };
            obs.push(o);
        }
        drop(r);
        obs
    })
}

fn quiet(log: &Log) -> Obs {
    let got = std::mem::take(&mut *log.lock().unwrap());
    if got.is_empty() {
        Obs::Quiet
    } else {
        Obs::Noise(format!("{got:?}"))
    }
}

/// a value that satisfies the pattern under the documented semantics (or, for `alt`, one that
/// sits on a boundary: raw string, prefix, neighbour value)
fn val_for(rng: &mut Rng, p: &Pat) -> Val {
    let near = rng.chance(1, 3);
    match p {
        Pat::Bool(b) => Val::Bool(if near { !*b } else { *b }),
        Pat::U64(n) => {
            if near {
                match rng.below(3) {
                    0 => Val::U64(n.wrapping_add(1)),
                    1 => Val::Dbg(format!("{n}x")),
                    _ => Val::I64(-1),
                }
            } else if *n <= i64::MAX as u64 && rng.bool() {
                Val::I64(*n as i64)
            } else {
                Val::U64(*n)
            }
        }
        Pat::I64(n) => {
            if near {
                Val::I64(n.wrapping_add(1))
            } else {
                Val::I64(*n)
            }
        }
        Pat::NaN => {
            if near {
                if rng.bool() { Val::F64(0.5) } else { Val::U64(3) }
            } else {
                Val::F64(f64::NAN)
            }
        }
        Pat::F64(x) => {
            if near {
                if rng.bool() {
                    Val::F64(*x + 1.0)
                } else {
                    Val::U64(3)
                }
            } else {
                Val::F64(*x)
            }
        }
        Pat::Text(t) => {
            let unq = t.strip_prefix('"').and_then(|s| s.strip_suffix('"'));
            if near {
                match rng.below(5) {
                    0 => Val::Dbg(t[..t.len() - 1].to_string()),
                    1 => Val::Dbg(format!("{t}d")),
                    2 => Val::Str(t.clone()),
                    3 => Val::Str(t[..t.len() - 1].to_string()),
                    _ => Val::Dbg(t.to_ascii_uppercase()),
                }
            } else if let (Some(u), true) = (unq, rng.chance(3, 4)) {
                Val::Str(u.to_string())
            } else {
                Val::Dbg(t.clone())
            }
        }
    }
}

fn random_val(rng: &mut Rng) -> Val {
    match rng.below(7) {
        0 => Val::Bool(rng.bool()),
        1 => Val::U64(*rng.pick(&[0u64, 1, 2, 7, 42])),
        2 => Val::I64(*rng.pick(&[-1i64, -7, 2])),
        3 => Val::F64(*rng.pick(&[0.5, 1.5, -2.25, 0.25])),
        4 => Val::Str(rng.pick(&["bob", "ab", "abc"]).to_string()),
        5 => Val::Dbg(rng.pick(&ds::TEXTS).to_string()),
        _ => Val::Empty,
    }
}

fn gen_history(rng: &mut Rng, dirs: &[Dir], live: &[usize], pool: &Pool) -> Vec<Op> {
    // span callsites the span-scoped directives select, at a level they allow
    let mut relevant: Vec<usize> = vec![];
    let mut near: Vec<usize> = vec![];
    for (i, c) in pool.spans.iter().enumerate() {
        let cared: Vec<&Dir> = live.iter().map(|&k| &dirs[k]).filter(|d| ds::dir_cares(d, &c.desc)).collect();
        if !cared.is_empty() {
            if cared.iter().all(|d| c.desc.level <= d.eff_level()) {
                relevant.push(i);
            } else {
                near.push(i);
            }
        }
    }
    let nslots = 1 + rng.usize(4);
    let mut cast: Vec<usize> = vec![];
    for _ in 0..nslots {
        let c = if !relevant.is_empty() && rng.chance(7, 10) {
            *rng.pick(&relevant)
        } else if !near.is_empty() && rng.chance(1, 8) {
            *rng.pick(&near)
        } else {
            rng.usize(pool.spans.len())
        };
        cast.push(c);
    }
    // values per cast member: aimed at the patterns of the directives that select it
    let mut plan: Vec<[Val; 2]> = vec![];
    for &c in &cast {
        let desc = &pool.spans[c].desc;
        let mut vals = [Val::Empty, Val::Empty];
        for (fi, fname) in desc.fields.iter().enumerate() {
            let pats: Vec<&Pat> = live
                .iter()
                .map(|&k| &dirs[k])
                .filter(|d| ds::dir_cares(d, desc))
                .flat_map(|d| d.fields.iter())
                .filter(|f| f.name == *fname)
                .filter_map(|f| f.pat.as_ref().map(|p| &p.0))
                .collect();
            vals[fi] = if !pats.is_empty() && rng.chance(5, 6) {
                let p = *rng.pick(&pats);
                val_for(rng, p)
            } else {
                random_val(rng)
            };
        }
        plan.push(vals);
    }
    // event callsites: any, biased to the targets of the cast
    let nops = 6 + rng.usize(22);
    let mut ops = vec![];
    let mut created = vec![false; nslots];
    let mut alive = vec![false; nslots];
    let mut pending: Vec<Vec<(usize, Val)>> = vec![vec![]; nslots];
    // values a span already carries (given at creation or recorded later): recording such a
    // field AGAIN WITH THE SAME VALUE must change nothing
    let mut recorded: Vec<Vec<(usize, Val)>> = vec![vec![]; nslots];
    let mut stack: Vec<usize> = vec![];
    for _ in 0..nops {
        let can_create: Vec<usize> = (0..nslots).filter(|&s| !created[s]).collect();
        let can_enter: Vec<usize> = (0..nslots).filter(|&s| alive[s]).collect();
        let can_record: Vec<usize> = (0..nslots).filter(|&s| alive[s] && !pending[s].is_empty()).collect();
        let can_drop: Vec<usize> = (0..nslots).filter(|&s| alive[s] && !stack.contains(&s)).collect();
        let can_rerecord: Vec<usize> = (0..nslots).filter(|&s| alive[s] && !recorded[s].is_empty()).collect();
        let w = [
            if can_create.is_empty() { 0 } else { 6 },
            if can_enter.is_empty() || stack.len() >= 4 { 0 } else { 7 },
            if stack.is_empty() { 0 } else { 4 },
            12,
            if can_record.is_empty() { 0 } else { 6 },
            if can_drop.is_empty() { 0 } else { 1 },
            if can_rerecord.is_empty() { 0 } else { 4 },
        ];
        match rng.weighted(&w) {
            0 => {
                let s = can_create[0];
                let mut vals = plan[s].clone();
                for fi in 0..2 {
                    if vals[fi] != Val::Empty && rng.chance(1, 3) {
                        // record later instead of at creation
                        pending[s].push((fi, std::mem::replace(&mut vals[fi], Val::Empty)));
                    }
                }
                created[s] = true;
                alive[s] = true;
                let nf = pool.spans[cast[s]].desc.fields.len();
                for (fi, v) in vals.iter().enumerate().take(nf) {
                    if *v != Val::Empty {
                        recorded[s].push((fi, v.clone()));
                    }
                }
                ops.push(Op::Create { slot: s, cs: cast[s], vals });
            }
            1 => {
                let s = *rng.pick(&can_enter);
                stack.push(s);
                ops.push(Op::Enter { slot: s });
            }
            2 => {
                stack.pop();
                ops.push(Op::Exit);
            }
            3 => {
                let cs = if rng.chance(1, 2) && !cast.is_empty() {
                    // same target as a cast member
                    let t = &pool.spans[*rng.pick(&cast)].desc.target;
                    let same: Vec<usize> =
                        (0..pool.events.len()).filter(|&i| pool.events[i].desc.target == *t).collect();
                    *rng.pick(&same)
                } else {
                    rng.usize(pool.events.len())
                };
                ops.push(Op::Event { cs });
            }
            4 => {
                let s = *rng.pick(&can_record);
                let (fi, v) = pending[s].pop().unwrap();
                if fi < pool.spans[cast[s]].desc.fields.len() {
                    recorded[s].push((fi, v.clone()));
                }
                ops.push(Op::Record { slot: s, field: fi, val: v });
            }
            5 => {
                let s = *rng.pick(&can_drop);
                alive[s] = false;
                pending[s].clear();
                recorded[s].clear();
                ops.push(Op::Drop { slot: s });
            }
            _ => {
                // the same field once more, with the value it already has (1..3 times)
                let s = *rng.pick(&can_rerecord);
                let (fi, v) = rng.pick(&recorded[s]).clone();
                for _ in 0..1 + rng.usize(3) {
                    ops.push(Op::Record { slot: s, field: fi, val: v.clone() });
                }
            }
        }
    }
    ops
}

struct Div {
    op: usize,
    what: String,
    expected: String,
    observed: String,
}

#[derive(Default)]
struct HStats {
    judged: u64,
    open: u64,
    open_f14: u64,
    open_unmatched_selected: u64,
    open_entered_record: u64,
    raised_by_scope: u64,
    must_enable_span: u64,
    sigs: Vec<u64>,
}

#[derive(Clone)]
struct SpanState {
    cs: usize,
    vals: [Val; 2],
    enabled: bool,
}

/// the span-scope model (see module docs of vlib::dirspec); adopts the observation wherever
/// the documentation leaves the answer open
#[allow(clippy::too_many_arguments)]
fn judge(
    dirs: &[Dir],
    live: &[usize],
    interp: Interp,
    regex: bool,
    q: Quirks,
    per_layer: bool,
    pool: &Pool,
    ops: &[Op],
    obs: &[Obs],
    st: &mut HStats,
) -> Option<Div> {
    let mut spans: Vec<Option<SpanState>> = vec![];
    // frames: (slot, lo at enter, hi at enter); slot usize::MAX for a disabled span
    let mut frames: Vec<(usize, usize, usize)> = vec![];
    for (i, (op, ob)) in ops.iter().zip(obs.iter()).enumerate() {
        if let Obs::Noise(n) = ob {
            return Some(Div {
                op: i,
                what: "unexpected deliveries to the recording layer".into(),
                expected: "at most the one span / event of this operation".into(),
                observed: n.clone(),
            });
        }
        // level the entered spans raise to: definitely / possibly
        let scope = |spans: &Vec<Option<SpanState>>, frames: &Vec<(usize, usize, usize)>| -> (usize, usize, bool) {
            let mut lo = 0;
            let mut hi = 0;
            let mut moved = false;
            for &(slot, l0, h0) in frames {
                if slot == usize::MAX {
                    continue;
                }
                let s = spans[slot].as_ref().unwrap();
                let (l1, h1) = ds::span_raise(dirs, live, &pool.spans[s.cs].desc, &s.vals, regex, q);
                if (l1, h1) != (l0, h0) {
                    moved = true;
                }
                lo = lo.max(l0.min(l1));
                hi = hi.max(h0.max(h1));
            }
            (lo, hi, moved)
        };
        let decide = |m: &MetaDesc, spans: &Vec<Option<SpanState>>, frames: &Vec<(usize, usize, usize)>, st: &mut HStats| -> (Tri, &'static str) {
            let sa = ds::static_eval(dirs, m, interp);
            if sa.dec == Tri::Yes {
                return (Tri::Yes, "static");
            }
            let (lo, hi, moved) = scope(spans, frames);
            if lo >= m.level {
                return (Tri::Yes, "scope");
            }
            if hi >= m.level {
                if moved {
                    st.open_entered_record += 1;
                }
                return (Tri::Open, "scope-open");
            }
            (sa.dec, "static")
        };
        match (op, ob) {
            (Op::Create { slot, cs, vals }, Obs::Created { disabled, delivered }) => {
                let m = &pool.spans[*cs].desc;
                // (a span rejected by a per-layer filter still exists in the registry: the handle is
                // live, only the filtered layer does not see it; that is C07's business)
                if !per_layer && *disabled == *delivered {
                    return Some(Div {
                        op: i,
                        what: "span handle and recording layer disagree about whether the span exists".into(),
                        expected: "is_disabled() == !on_new_span delivered".into(),
                        observed: format!("is_disabled={disabled} delivered={delivered}"),
                    });
                }
                let cared: Vec<&Dir> = live.iter().map(|&k| &dirs[k]).filter(|d| ds::dir_cares(d, m)).collect();
                let (generic, src) = decide(m, &spans, &frames, st);
                let exp = if cared.is_empty() {
                    generic
                } else if cared.iter().any(|d| d.eff_level() < m.level) {
                    st.open_f14 += 1;
                    Tri::Open
                } else if cared.iter().any(|d| ds::dir_matches(d, m, vals, regex, q) == Tri::Yes) {
                    st.must_enable_span += 1;
                    Tri::Yes
                } else if generic == Tri::Yes {
                    Tri::Yes
                } else {
                    st.open_unmatched_selected += 1;
                    Tri::Open
                };
                match exp {
                    Tri::Open => st.open += 1,
                    _ => {
                        st.judged += 1;
                        if !frames.is_empty() || !cared.is_empty() {
                            st.sigs.push(dyn_sig(&frames, src, m, exp, cared.len()));
                        }
                        if (exp == Tri::Yes) != *delivered {
                            return Some(Div {
                                op: i,
                                what: if cared.is_empty() {
                                    "span enabled/disabled against static part + entered matching spans".into()
                                } else {
                                    "a span matching a span-scoped directive (at a level it allows) is not enabled".into()
                                },
                                expected: format!("enabled={} (decided by {src})", exp == Tri::Yes),
                                observed: format!("enabled={delivered}"),
                            });
                        }
                    }
                }
                if spans.len() <= *slot {
                    spans.resize(*slot + 1, None);
                }
                spans[*slot] = Some(SpanState {
                    cs: *cs,
                    vals: if *delivered { vals.clone() } else { [Val::Empty, Val::Empty] },
                    enabled: *delivered,
                });
            }
            (Op::Event { cs }, Obs::Event { delivered }) => {
                let m = &pool.events[*cs].desc;
                let (exp, src) = decide(m, &spans, &frames, st);
                match exp {
                    Tri::Open => st.open += 1,
                    _ => {
                        st.judged += 1;
                        if src == "scope" {
                            st.raised_by_scope += 1;
                        }
                        if frames.iter().any(|f| f.0 != usize::MAX && f.2 > 0) {
                            st.sigs.push(dyn_sig(&frames, src, m, exp, 0));
                        }
                        if (exp == Tri::Yes) != *delivered {
                            return Some(Div {
                                op: i,
                                what: "event delivery differs from 'static part, raised by the entered matching spans'".into(),
                                expected: format!("delivered={} (decided by {src})", exp == Tri::Yes),
                                observed: format!("delivered={delivered}"),
                            });
                        }
                    }
                }
            }
            (Op::Record { slot, field, val }, Obs::Quiet) => {
                if let Some(Some(s)) = spans.get_mut(*slot) {
                    if s.enabled && *field < pool.spans[s.cs].desc.fields.len() {
                        s.vals[*field] = val.clone();
                    }
                }
            }
            (Op::Enter { slot }, Obs::Quiet) => {
                let s = spans[*slot].as_ref().unwrap();
                if s.enabled {
                    let (lo, hi) = ds::span_raise(dirs, live, &pool.spans[s.cs].desc, &s.vals, regex, q);
                    frames.push((*slot, lo, hi));
                } else {
                    frames.push((usize::MAX, 0, 0));
                }
            }
            (Op::Exit, Obs::Quiet) => {
                frames.pop();
            }
            (Op::Drop { slot }, Obs::Quiet) => {
                // handle dropped; an entered clone may keep the span alive, the model keeps its state
                let _ = slot;
            }
            (o, b) => panic!("HARNESS: observation {b:?} does not belong to operation {o:?}"),
        }
    }
    None
}

/// does the history hold a `&str` value and the set a non-literal pattern (regex mode: the
/// property does not fix whether such a value is compared raw or through its Debug text)
fn str_reading_open(dirs: &[Dir], regex: bool, ops: &[Op]) -> bool {
    regex
        && dirs.iter().any(|d| d.fields.iter().any(|f| matches!(f.pat, Some((Pat::Text(_), _)))))
        && ops.iter().any(|o| match o {
            Op::Create { vals, .. } => vals.iter().any(|v| matches!(v, Val::Str(_))),
            Op::Record { val, .. } => matches!(val, Val::Str(_)),
            _ => false,
        })
}

/// judge under the documented reading; where that fails and the `&str` reading is open, under
/// the raw reading: the history holds if either reading explains it.  Returns (divergence of
/// the documented reading if neither holds, statistics of the reading that held, raw used?)
#[allow(clippy::too_many_arguments)]
fn judge_readings(
    dirs: &[Dir],
    live: &[usize],
    regex: bool,
    q: Quirks,
    per_layer: bool,
    pool: &Pool,
    ops: &[Op],
    obs: &[Obs],
) -> (Option<Div>, HStats, bool) {
    let mut st = HStats::default();
    let d = judge(dirs, live, Interp::Documented, regex, q, per_layer, pool, ops, obs, &mut st);
    if d.is_none() || !str_reading_open(dirs, regex, ops) {
        return (d, st, false);
    }
    let mut st2 = HStats::default();
    let q2 = Quirks { str_raw: true, ..q };
    if judge(dirs, live, Interp::Documented, regex, q2, per_layer, pool, ops, obs, &mut st2).is_none() {
        return (None, st2, true);
    }
    (d, st, false)
}

fn dyn_sig(frames: &[(usize, usize, usize)], src: &str, m: &MetaDesc, exp: Tri, cared: usize) -> u64 {
    let s = format!(
        "D|{:?}|{src}|{}|{}|{}|{:?}|{cared}",
        frames.iter().map(|f| (f.0 == usize::MAX, f.1, f.2)).collect::<Vec<_>>(),
        m.level,
        m.is_span,
        m.fields.len(),
        exp
    );
    vlib::rng::hash_str(&s)
}

// ---------------------------------------------------------------------------------------
// filter construction

#[derive(Clone, Copy, Debug, PartialEq, Eq)]
enum Build {
    /// `s.parse::<Targets>()`
    Targets,
    /// `EnvFilter::builder().with_regex(r).parse(s)` (what `try_new` / `FromStr` do)
    EnvStrict,
    /// `EnvFilter::builder().with_default_directive(ERROR).with_regex(r).parse_lossy(s)` (what `new` does)
    EnvLossy,
    /// empty filter + `add_directive(d.parse::<Directive>()?)` per directive
    EnvAdd,
}

fn build_env(b: Build, dirs: &[Dir], s: &str, regex: bool) -> Result<EnvFilter, String> {
    match b {
        Build::EnvStrict => EnvFilter::builder().with_regex(regex).parse(s).map_err(|e| e.to_string()),
        Build::EnvLossy => Ok(EnvFilter::builder()
            .with_default_directive(tracing_subscriber::filter::LevelFilter::ERROR.into())
            .with_regex(regex)
            .parse_lossy(s)),
        Build::EnvAdd => {
            let mut f = EnvFilter::builder().with_regex(regex).parse("").map_err(|e| e.to_string())?;
            for d in dirs {
                let text = d.render();
                let dir: Directive = text.parse().map_err(|e| format!("directive {text:?}: {e}"))?;
                f = f.add_directive(dir);
            }
            Ok(f)
        }
        Build::Targets => Err("HARNESS: not an EnvFilter build".into()),
    }
}

fn tri_s(t: Tri) -> &'static str {
    match t {
        Tri::Yes => "enabled",
        Tri::No => "disabled",
        Tri::Open => "open",
    }
}

struct Ctx<'a> {
    uni: &'a [Um],
    pool: &'a Pool,
    args: &'a Args,
    idx: u64,
    class: &'static str,
}

fn witness(c: &Ctx<'_>, dirs: &[Dir], extra: Value) -> Value {
    json!({
        "set_index": c.idx, "shard": c.args.shard, "seed": c.args.seed, "class": c.class,
        "directives": ds::render_set(dirs),
        "ast": dirs.iter().map(|d| format!("{d:?}")).collect::<Vec<_>>(),
        "detail": extra,
        "replay_hint": "re-run the child with only=<set_index>",
    })
}

fn static_sig(dirs: &[Dir], m: &MetaDesc, interp: Interp, winner: Option<usize>) -> u64 {
    // shape of the contest: the two most specific matching directives (field count, level,
    // target-less?, same target length?), how many match, whether a duplicate was replaced,
    // whether the winner is unique; plus the metadata's level / kind / field count
    let f12 = interp == Interp::LevelLikeTargetIsGlobal;
    let mut v: Vec<(usize, usize, usize, String)> = vec![];
    for d in dirs.iter().filter(|d| d.is_static()) {
        let t = if f12 && d.level_like_target() { "" } else { d.target.as_deref().unwrap_or("") };
        if m.target.starts_with(t) && d.fields.iter().all(|f| m.fields.iter().any(|x| *x == f.name)) {
            v.push((t.len(), d.fields.len(), d.eff_level(), d.key(f12)));
        }
    }
    let dup = (0..v.len()).any(|i| (0..i).any(|j| v[i].3 == v[j].3));
    v.sort_by(|a, b| (b.0, b.1).cmp(&(a.0, a.1)));
    let mut s = format!("S|{}|{dup}|{}|", v.len().min(4), winner.is_some());
    for (i, x) in v.iter().take(2).enumerate() {
        s.push_str(&format!("({},{},{},{})", x.1, x.2, x.0 == 0, i > 0 && v[0].0 == x.0));
    }
    s.push_str(&format!("|{}|{}|{}", m.level, m.is_span, m.fields.len()));
    vlib::rng::hash_str(&s)
}

/// compare a decision vector with the reference; returns the first definite divergence
fn vs_reference(
    dirs: &[Dir],
    uni: &[Um],
    got: &[bool],
    interp: Interp,
    out: &mut Out,
    count: bool,
) -> Option<(usize, Tri)> {
    let mut first = None;
    for (k, u) in uni.iter().enumerate() {
        let a = ds::static_eval(dirs, &u.desc, interp);
        match a.dec {
            Tri::Open => {
                if count {
                    out.count("static_open", 1);
                    out.set("static_open_reasons", a.why_open);
                }
            }
            d => {
                if count {
                    out.evals += 1;
                    if a.candidates >= 2 {
                        out.count("static_nontrivial", 1);
                        out.distinct(static_sig(dirs, &u.desc, interp, a.winner));
                    }
                }
                if (d == Tri::Yes) != got[k] && first.is_none() {
                    first = Some((k, d));
                }
            }
        }
    }
    first
}

fn meta_json(m: &MetaDesc) -> Value {
    json!({"target": m.target, "level": ds::LEVEL_NAMES[m.level], "kind": if m.is_span {"span"} else {"event"}, "name": m.name, "fields": m.fields})
}

fn static_checks(c: &Ctx<'_>, dirs: &[Dir], out: &mut Out) -> bool {
    let s = ds::render_set(dirs);
    let uni = c.uni;
    let has_f12 = dirs.iter().any(|d| d.level_like_target());
    let multi = dirs.iter().any(|d| d.fields.len() > 1);
    let in_targets = dirs.iter().all(|d| d.in_targets_grammar());
    let mut ok = true;

    // ---- Targets
    let mut t_dec: Option<Vec<bool>> = None;
    if in_targets {
        match s.parse::<Targets>() {
            Err(e) => {
                out.violation(
                    "Targets rejects a directive string of its documented grammar",
                    witness(c, dirs, json!({"error": e.to_string()})),
                );
                return false;
            }
            Ok(t) => {
                out.count("targets_parsed", 1);
                let disp1 = t.to_string();
                let t = Arc::new(t);
                let a = eval_direct(&t, false, uni);
                let b = eval_direct(&t, true, uni);
                if a != b {
                    let k = (0..uni.len()).find(|&k| a[k] != b[k]).unwrap();
                    out.violation(
                        "Targets: Subscribe::enabled and Filter::enabled disagree",
                        witness(c, dirs, json!({"metadata": meta_json(&uni[k].desc), "subscribe": a[k], "filter": b[k]})),
                    );
                    ok = false;
                }
                if let Some((k, d)) = vs_reference(dirs, uni, &a, Interp::Documented, out, true) {
                    out.violation(
                        "Targets decides differently from 'the most specific matching directive wins'",
                        witness(c, dirs, json!({"metadata": meta_json(&uni[k].desc), "expected": tri_s(d), "observed_enabled": a[k], "filter_display": disp1})),
                    );
                    ok = false;
                }
                // would_enable == enabled on field-less event metadata
                for (k, u) in uni.iter().enumerate() {
                    if !u.desc.is_span && u.desc.fields.is_empty() {
                        let w = t.would_enable(&u.desc.target, &level_of(u.desc.level));
                        out.count("would_enable_compared", 1);
                        if w != a[k] {
                            out.violation(
                                "Targets::would_enable disagrees with enabled() on the field-less event metadata",
                                witness(c, dirs, json!({"metadata": meta_json(&u.desc), "would_enable": w, "enabled": a[k]})),
                            );
                            ok = false;
                            break;
                        }
                    }
                }
                // round trip
                match disp1.parse::<Targets>() {
                    Err(e) => {
                        out.violation(
                            "Targets: Display output of a parsed filter does not parse",
                            witness(c, dirs, json!({"display": disp1, "error": e.to_string()})),
                        );
                        ok = false;
                    }
                    Ok(t2) => {
                        out.count("targets_round_trips", 1);
                        if *t != t2 {
                            out.count("info_targets_partial_eq_differs_after_round_trip", 1);
                        }
                        let disp2 = t2.to_string();
                        let a2 = eval_direct(&Arc::new(t2), false, uni);
                        if a2 != a {
                            let k = (0..uni.len()).find(|&k| a[k] != a2[k]).unwrap();
                            out.violation(
                                "Targets: parse(display(parse(s))) decides differently from parse(s)",
                                witness(c, dirs, json!({"display": disp1, "metadata": meta_json(&uni[k].desc), "before": a[k], "after": a2[k]})),
                            );
                            ok = false;
                        }
                        if disp1 != disp2 {
                            out.violation(
                                "Targets: Display is not a fixpoint after one round trip",
                                witness(c, dirs, json!({"display1": disp1, "display2": disp2})),
                            );
                            ok = false;
                        }
                    }
                }
                t_dec = Some(a);
            }
        }
    } else {
        out.count("targets_skipped_outside_its_grammar", 1);
    }

    // ---- EnvFilter
    let builds: Vec<(Build, bool)> = if multi {
        vec![(Build::EnvAdd, true), (Build::EnvAdd, false)]
    } else {
        vec![(Build::EnvStrict, true), (Build::EnvStrict, false), (Build::EnvLossy, true), (Build::EnvAdd, true)]
    };
    let e_interp = if has_f12 { Interp::LevelLikeTargetIsGlobal } else { Interp::Documented };
    let mut e_dec: Option<Vec<bool>> = None;
    for (bi, (b, regex)) in builds.iter().enumerate() {
        let f = match build_env(*b, dirs, &s, *regex) {
            Ok(f) => f,
            Err(e) => {
                out.violation(
                    "EnvFilter rejects a directive string of its documented grammar",
                    witness(c, dirs, json!({"build": format!("{b:?}"), "regex": regex, "error": e})),
                );
                return false;
            }
        };
        out.count("envfilters_built", 1);
        let disp1 = f.to_string();
        let f = Arc::new(f);
        let a = eval_direct(&f, false, uni);
        let a_f = eval_direct(&f, true, uni);
        if a != a_f {
            let k = (0..uni.len()).find(|&k| a[k] != a_f[k]).unwrap();
            out.violation(
                "EnvFilter: Subscribe::enabled and Filter::enabled disagree",
                witness(c, dirs, json!({"build": format!("{b:?}"), "regex": regex, "metadata": meta_json(&uni[k].desc), "subscribe": a[k], "filter": a_f[k]})),
            );
            ok = false;
        }
        if let Some(first) = &e_dec {
            if *first != a {
                let k = (0..uni.len()).find(|&k| a[k] != first[k]).unwrap();
                out.violation(
                    "EnvFilter: two documented ways of constructing the filter from the same directives decide differently (static part)",
                    witness(c, dirs, json!({"build_a": format!("{:?}", builds[0]), "build_b": format!("{:?}", builds[bi]), "metadata": meta_json(&uni[k].desc), "a": first[k], "b": a[k]})),
                );
                ok = false;
            }
        } else {
            // judged against the reference once (the other builds are compared with this one)
            if has_f12 {
                // the documented reading is the reference; the deviation must be exactly F12's
                let mut f12_metas = 0u64;
                let mut ex = None;
                for (k, u) in uni.iter().enumerate() {
                    let doc = ds::static_eval(dirs, &u.desc, Interp::Documented).dec;
                    let alt = ds::static_eval(dirs, &u.desc, Interp::LevelLikeTargetIsGlobal).dec;
                    if doc != Tri::Open && alt != Tri::Open && doc != alt && (alt == Tri::Yes) == a[k] {
                        f12_metas += 1;
                        ex.get_or_insert(k);
                    }
                }
                if let Some(k) = ex {
                    out.count("f12_metadata_decided_differently", f12_metas);
                    out.finding(
                        "F12",
                        "a target spelled like a level (`warn=debug`, `3=info`) is a target for Targets and for the documented grammar, but EnvFilter drops it and applies the level globally",
                        witness(c, dirs, json!({"metadata": meta_json(&uni[k].desc), "documented_reading": tri_s(ds::static_eval(dirs, &uni[k].desc, Interp::Documented).dec), "envfilter_enabled": a[k], "envfilter_display": disp1})),
                    );
                }
            }
            let mut quiet = Out::new();
            if multi
                && vs_reference(dirs, uni, &a, e_interp, &mut quiet, false).is_some()
                && vs_reference(&after_multi_field_parse(dirs), uni, &a, e_interp, &mut quiet, false).is_none()
            {
                out.count(&format!("candidate_{N_MULTI_FIELD}"), 1);
                out.finding(N_MULTI_FIELD, MULTI_FIELD_WHAT, witness(c, dirs, json!({"filter_display": disp1, "regex": regex})));
            } else if let Some((k, d)) = vs_reference(dirs, uni, &a, e_interp, out, true) {
                out.violation(
                    "EnvFilter (static part) decides differently from 'the most specific matching directive wins'",
                    witness(c, dirs, json!({"build": format!("{b:?}"), "regex": regex, "metadata": meta_json(&uni[k].desc), "expected": tri_s(d), "observed_enabled": a[k], "filter_display": disp1,
                        "level_like_target_read_as_global": has_f12})),
                );
                ok = false;
            }
            e_dec = Some(a.clone());
        }
        // round trip (the string form cannot carry several fields: `,` separates directives)
        if *b != Build::EnvAdd {
            match build_env(*b, dirs, &disp1, *regex) {
                Err(e) => {
                    out.violation(
                        "EnvFilter: Display output of a parsed filter does not parse",
                        witness(c, dirs, json!({"display": disp1, "error": e, "regex": regex})),
                    );
                    ok = false;
                }
                Ok(f2) => {
                    out.count("envfilter_round_trips", 1);
                    let disp2 = f2.to_string();
                    let a2 = eval_direct(&Arc::new(f2), false, uni);
                    if a2 != a {
                        let k = (0..uni.len()).find(|&k| a[k] != a2[k]).unwrap();
                        out.violation(
                            "EnvFilter: parse(display(parse(s))) decides differently from parse(s)",
                            witness(c, dirs, json!({"display": disp1, "regex": regex, "metadata": meta_json(&uni[k].desc), "before": a[k], "after": a2[k]})),
                        );
                        ok = false;
                    }
                    if disp1 != disp2 {
                        // an integral float literal re-parsed as an integer sorts differently among
                        // otherwise equal directives
                        // (or merges with an integer directive that was distinct before): the same
                        // directive keys, other order / multiplicity
                        let sorted = |s: &str| {
                            let mut v: Vec<&str> = s.split(',').map(|d| d.rsplit_once('=').map(|x| x.0).unwrap_or(d)).collect();
                            v.sort();
                            v.dedup();
                            v.join(",")
                        };
                        if after_f64_display(dirs).1 && sorted(&disp1) == sorted(&disp2) {
                            out.count(&format!("candidate_{N_F64_DISPLAY}"), 1);
                            out.finding(N_F64_DISPLAY, what_of(N_F64_DISPLAY), witness(c, dirs, json!({"display1": disp1, "display2": disp2, "regex": regex})));
                        } else {
                            out.violation(
                                "EnvFilter: Display is not a fixpoint after one round trip",
                                witness(c, dirs, json!({"display1": disp1, "display2": disp2, "regex": regex})),
                            );
                            ok = false;
                        }
                    }
                }
            }
        } else if multi {
            out.count("info_multi_field_sets_not_round_tripped", 1);
        }
    }

    // ---- Targets == EnvFilter on every string both accept
    if let (Some(t), Some(e)) = (&t_dec, &e_dec) {
        out.count("targets_vs_envfilter_sets", 1);
        let mut f12n = 0u64;
        // F12's signature, without the reference: the disagreement disappears when the level-like
        // targets are dropped from the string, i.e. EnvFilter(s) decides like Targets(s without them)
        let t_alt: Option<Vec<bool>> = if has_f12 {
            let mut alt = dirs.to_vec();
            for d in &mut alt {
                if d.level_like_target() {
                    d.target = None;
                }
            }
            ds::render_set(&alt).parse::<Targets>().ok().map(|t| eval_direct(&Arc::new(t), false, uni))
        } else {
            None
        };
        for k in 0..uni.len() {
            if t[k] == e[k] {
                continue;
            }
            let is_f12 = t_alt.as_ref().map(|ta| ta[k] == e[k]).unwrap_or(false);
            if is_f12 {
                f12n += 1;
                if f12n == 1 {
                    out.finding(
                        "F12",
                        "a target spelled like a level (`warn=debug`, `3=info`) is a target for Targets and for the documented grammar, but EnvFilter drops it and applies the level globally",
                        witness(c, dirs, json!({"metadata": meta_json(&uni[k].desc), "targets_enabled": t[k], "envfilter_enabled": e[k]})),
                    );
                }
            } else {
                out.violation(
                    "Targets and EnvFilter disagree on a directive string both accept",
                    witness(c, dirs, json!({"metadata": meta_json(&uni[k].desc), "targets_enabled": t[k], "envfilter_enabled": e[k]})),
                );
                ok = false;
                break;
            }
        }
        out.count("f12_targets_vs_envfilter_metadata", f12n);
    }
    if out.samples.len() < 2 {
        if let Some(e) = &e_dec {
            let k = c.idx as usize * 37 % uni.len();
            out.sample(json!({"directives": s, "metadata": meta_json(&uni[k].desc), "reference": tri_s(ds::static_eval(dirs, &uni[k].desc, e_interp).dec), "envfilter_enabled": e[k], "targets_enabled": t_dec.as_ref().map(|t| t[k])}));
        }
    }
    ok
}

/// what `Directive::from_str` makes of a directive with several fields: every field but the
/// last keeps the separating comma
fn after_multi_field_parse(dirs: &[Dir]) -> Vec<Dir> {
    let mut v = dirs.to_vec();
    for d in &mut v {
        let n = d.fields.len();
        for (i, f) in d.fields.iter_mut().enumerate() {
            if i + 1 < n {
                match &mut f.pat {
                    None => f.name.push(','),
                    Some((p, txt)) => {
                        txt.push(',');
                        *p = Pat::Text(txt.clone());
                    }
                }
            }
        }
    }
    v
}

/// integral float literals turned into the integer literal their Display form re-parses as
fn after_f64_display(dirs: &[Dir]) -> (Vec<Dir>, bool) {
    let mut changed = false;
    let mut v = dirs.to_vec();
    for d in &mut v {
        for f in &mut d.fields {
            if let Some((Pat::F64(x), _)) = &f.pat {
                let x = *x;
                if x.fract() == 0.0 && x.abs() < 9e18 {
                    changed = true;
                    let txt = format!("{x}");
                    f.pat = Some(if x >= 0.0 && !(x == 0.0 && x.is_sign_negative()) {
                        (Pat::U64(x as u64), txt)
                    } else {
                        (Pat::I64(x as i64), txt)
                    });
                }
            }
        }
    }
    (v, changed)
}

#[allow(clippy::too_many_arguments)]
fn history_checks(c: &Ctx<'_>, dirs: &[Dir], rng: &mut Rng, out: &mut Out, nh: u64) {
    let s = ds::render_set(dirs);
    let has_f12 = dirs.iter().any(|d| d.level_like_target());
    let multi = dirs.iter().any(|d| d.fields.len() > 1);
    let in_targets = dirs.iter().all(|d| d.in_targets_grammar());
    let log: Log = Arc::new(Mutex::new(vec![]));
    for h in 0..nh {
        // which filter, which position
        let use_targets = in_targets && (has_f12 || rng.chance(1, 3));
        if has_f12 && !use_targets {
            out.count("histories_skipped_f12_class", 1);
            continue;
        }
        let per_layer = rng.bool();
        let regex = rng.chance(2, 3);
        let build = if use_targets {
            Build::Targets
        } else if multi || rng.chance(1, 6) {
            Build::EnvAdd
        } else if rng.chance(1, 8) {
            Build::EnvLossy
        } else {
            Build::EnvStrict
        };
        let live: Vec<usize> = if use_targets { vec![] } else { ds::live_dynamics(dirs) };
        // the generator always aims at what the directives select, also for Targets
        let aim = ds::live_dynamics(dirs);
        let ops = gen_history(rng, dirs, &aim, c.pool);
        out.count("histories", 1);
        out.count(&format!("histories_{build:?}"), 1);
        out.count(if per_layer { "histories_per_layer_filter" } else { "histories_global_filter" }, 1);

        let (d1, disp): (Dispatch, Option<String>) = if use_targets {
            let t: Targets = s.parse().expect("HARNESS: Targets parsed before");
            (mk_dispatch(t, per_layer, &log), None)
        } else {
            let f = build_env(build, dirs, &s, regex).expect("HARNESS: EnvFilter built before");
            let disp = f.to_string();
            (mk_dispatch(f, per_layer, &log), Some(disp))
        };
        let obs = run_ops(&d1, &log, c.pool, &ops);
        drop(d1);
        for op in &ops {
            out.count(
                match op {
                    Op::Create { .. } => "op_create",
                    Op::Record { .. } => "op_record",
                    Op::Enter { .. } => "op_enter",
                    Op::Exit => "op_exit",
                    Op::Event { .. } => "op_event",
                    Op::Drop { .. } => "op_drop",
                },
                1,
            );
        }
        let hw = |extra: Value| -> Value {
            witness(
                c,
                dirs,
                json!({"history": h, "filter": format!("{build:?}"), "regex": regex, "per_layer_filter": per_layer,
                   "ops": ops.iter().zip(obs.iter()).enumerate().map(|(i, (o, b))| format!("{i}: {} -> {b:?}", op_s(o, c.pool))).collect::<Vec<_>>(),
                   "divergence": extra}),
            )
        };
        let (div, stats, raw) = judge_readings(dirs, &live, regex, Quirks::default(), per_layer, c.pool, &ops, &obs);
        match div {
            None => {
                if raw {
                    out.count("open_str_value_matched_raw_or_debug", 1);
                }
                out.evals += stats.judged;
                out.count("history_decisions_judged", stats.judged);
                out.count("history_decisions_open", stats.open);
                out.count("open_span_more_verbose_than_directive_f14", stats.open_f14);
                out.count("open_selected_span_values_not_matching", stats.open_unmatched_selected);
                out.count("open_recorded_while_entered", stats.open_entered_record);
                out.count("events_enabled_only_by_entered_span", stats.raised_by_scope);
                out.count("matching_spans_that_must_be_enabled", stats.must_enable_span);
                for sg in &stats.sigs {
                    out.distinct(*sg);
                }
                out.count("history_nontrivial", stats.sigs.len() as u64);
                if stats.raised_by_scope > 0 && out.samples.len() < 5 {
                    out.sample(json!({"directives": s, "filter": format!("{build:?}"), "regex": regex, "per_layer": per_layer,
                        "history": ops.iter().zip(obs.iter()).map(|(o, b)| format!("{} -> {b:?}", op_s(o, c.pool))).collect::<Vec<_>>()}));
                }
            }
            Some(dv) => {
                let dj = json!({"op": dv.op, "what": dv.what, "expected": dv.expected, "observed": dv.observed});
                let ex = if use_targets { None } else { explain(dirs, regex, build, per_layer, false, c.pool, &ops, &obs) };
                match ex {
                    Some(ids) => {
                        for id in ids {
                            out.count(&format!("candidate_{id}"), 1);
                            out.finding(id, what_of(id), hw(dj.clone()));
                        }
                    }
                    None => out.violation(dv.what.clone(), hw(dj)),
                }
                continue;
            }
        }
        // the same history on parse(display(parse(s)))
        if let (Some(disp), false) = (disp, build == Build::EnvAdd) {
            let f2 = match build_env(build, dirs, &disp, regex) {
                Ok(f) => f,
                Err(_) => continue, // reported by the static checks
            };
            let d2 = mk_dispatch(f2, per_layer, &log);
            let obs2 = run_ops(&d2, &log, c.pool, &ops);
            drop(d2);
            out.count("histories_on_round_tripped_filter", 1);
            let (div2, st2, raw2) = judge_readings(dirs, &live, regex, Quirks::default(), per_layer, c.pool, &ops, &obs2);
            match div2 {
                None => {
                    if raw2 {
                        out.count("open_str_value_matched_raw_or_debug", 1);
                    }
                    out.evals += st2.judged;
                    out.count("history_decisions_judged", st2.judged);
                    if obs2 != obs {
                        // both runs agree with the model: they differ only where the model is Open
                        out.count("info_round_tripped_history_differs_only_in_open_cases", 1);
                    }
                }
                Some(dv) => {
                    let k = (0..obs.len()).find(|&k| obs[k] != obs2[k]);
                    let dj = json!({"display": disp, "op": dv.op, "what": dv.what, "expected": dv.expected, "observed_on_round_tripped_filter": dv.observed,
                        "first_difference_to_original_filter": k.map(|k| format!("op {k}: {:?} vs {:?}", obs[k], obs2[k]))});
                    match explain(dirs, regex, build, per_layer, true, c.pool, &ops, &obs2) {
                        Some(ids) => {
                            for id in ids {
                                out.count(&format!("candidate_{id}"), 1);
                                out.finding(id, what_of(id), hw(dj.clone()));
                            }
                        }
                        None => out.violation("EnvFilter: the round-tripped filter delivers differently along a span history", hw(dj)),
                    }
                }
            }
        }
    }
}

fn what_of(id: &str) -> &'static str {
    match id {
        N_DBG_PREFIX => "EnvFilter (with_regex(false)): a value whose Debug output is a proper prefix of the pattern matches (`[{f=abc}]` matches f=?ab)",
        N_ADD_DIRECTIVE => "EnvFilter::add_directive stores a field-name-only directive (`[{f}]=debug`) only as a static directive: unlike the same directive given to the constructor it never raises the level inside a span that has the field",
        N_F64_DISPLAY => "EnvFilter round trip: a float literal with an integral value (`{f=2.0}`) is displayed as `f=2`, which parses as an integer matcher and no longer matches the f64 value",
        N_MULTI_FIELD => MULTI_FIELD_WHAT,
        _ => "?",
    }
}

/// Is the whole history explained by a (smallest) combination of the narrow, separately
/// reported deviations?  Each deviation is only tried where its signature applies.
#[allow(clippy::too_many_arguments)]
fn explain(
    dirs: &[Dir],
    regex: bool,
    build: Build,
    per_layer: bool,
    round_tripped: bool,
    pool: &Pool,
    ops: &[Op],
    obs: &[Obs],
) -> Option<Vec<&'static str>> {
    let has_text = dirs.iter().any(|d| d.fields.iter().any(|f| matches!(f.pat, Some((Pat::Text(_), _)))));
    let multi = dirs.iter().any(|d| d.fields.len() > 1);
    let (_, f64_changed) = after_f64_display(dirs);
    let mut appl: Vec<&'static str> = vec![];
    if !regex && has_text {
        appl.push(N_DBG_PREFIX);
    }
    if build == Build::EnvAdd && dirs.iter().any(|d| d.is_static() && d.is_dynamic()) {
        appl.push(N_ADD_DIRECTIVE);
    }
    if multi {
        appl.push(N_MULTI_FIELD);
    }
    if round_tripped && f64_changed {
        appl.push(N_F64_DISPLAY);
    }
    let n = appl.len();
    let mut masks: Vec<u32> = (1..(1u32 << n)).collect();
    masks.sort_by_key(|m| m.count_ones());
    for m in masks {
        let on = |id: &str| appl.iter().enumerate().any(|(i, a)| *a == id && m >> i & 1 == 1);
        let mut d2 = dirs.to_vec();
        if on(N_MULTI_FIELD) {
            d2 = after_multi_field_parse(&d2);
        }
        if on(N_F64_DISPLAY) {
            d2 = after_f64_display(&d2).0;
        }
        let mut live = ds::live_dynamics(&d2);
        if on(N_ADD_DIRECTIVE) {
            live.retain(|&i| !d2[i].is_static());
        }
        let q = Quirks {
            str_raw: false,
            dbg_prefix: on(N_DBG_PREFIX),
        };
        if judge_readings(&d2, &live, regex, q, per_layer, pool, ops, obs).0.is_none() {
            return Some(appl.iter().enumerate().filter(|(i, _)| m >> i & 1 == 1).map(|(_, a)| *a).collect());
        }
    }
    None
}

fn op_s(o: &Op, pool: &Pool) -> String {
    let m = |d: &MetaDesc| format!("{} {:?} {} {:?}", if d.is_span { "span" } else { "event" }, d.name, ds::LEVEL_NAMES[d.level], d.target);
    match o {
        Op::Create { slot, cs, vals } => {
            let d = &pool.spans[*cs].desc;
            format!("s{slot} = {} fields {:?} = {:?}", m(d), d.fields, &vals[..d.fields.len()])
        }
        Op::Record { slot, field, val } => format!("s{slot}.record({}, {val:?})", ["f", "g"][*field]),
        Op::Enter { slot } => format!("enter s{slot}"),
        Op::Exit => "exit".into(),
        Op::Event { cs } => {
            let d = &pool.events[*cs].desc;
            format!("{} fields {:?}", m(d), d.fields)
        }
        Op::Drop { slot } => format!("drop handle s{slot}"),
    }
}

fn child(args: &Args) {
    std::panic::set_hook(Box::new(|info| {
        let s = info.to_string();
        if s.contains("HARNESS:") {
            eprintln!("{s}");
        }
    }));
    let nsets = args.get_u64("sets", 320);
    let only = args.get("only").and_then(|s| s.parse::<u64>().ok());
    let dbg = args.get_u64("dbg", 0) == 1;
    let uni = universe();
    let pool = build_pool();
    let mut out = Out::new();
    out.max("universe_metadata", uni.len() as u64);
    out.max("pool_callsites", (pool.spans.len() + pool.events.len()) as u64);
    if dbg && !cfg!(debug_assertions) {
        out.harness_errors.push("dbg=1 child is not a debug-assertion build".into());
    }
    let nh = args.get_u64("hist", 2);
    for i in 0..nsets {
        if let Some(o) = only {
            if o != i {
                continue;
            }
        }
        let mut rng = Rng::derive(args.seed, args.shard, i);
        let (class, opts): (&'static str, GenOpts) = match rng.below(100) {
            0..=49 => ("static", GenOpts::default()),
            50..=57 => ("level_like_target", GenOpts { level_like: true, ..Default::default() }),
            58..=93 => (
                "span_scoped",
                GenOpts { dynamic: true, exotic_floats: rng.chance(1, 5), ..Default::default() },
            ),
            _ => ("multi_field", GenOpts { dynamic: true, multi_field: true, ..Default::default() }),
        };
        let dirs = ds::gen_set(&mut rng, opts);
        // classify by content, not by intention
        let class = if dirs.iter().any(|d| d.level_like_target()) {
            "level_like_target"
        } else if dirs.iter().any(|d| d.fields.len() > 1) {
            "multi_field"
        } else if dirs.iter().any(|d| d.is_dynamic()) {
            if class == "static" { "static_with_field_names" } else { "span_scoped" }
        } else {
            "static"
        };
        out.count("sets", 1);
        out.count(&format!("sets_{class}"), 1);
        out.count("directives", dirs.len() as u64);
        let c = Ctx { uni: &uni, pool: &pool, args, idx: i, class };
        let r = run::catch(|| {
            let mut o = Out::new();
            let ok = static_checks(&c, &dirs, &mut o);
            if ok {
                history_checks(&c, &dirs, &mut rng, &mut o, nh);
            }
            o
        });
        match r {
            Ok(o) => out.merge(o),
            Err(p) => {
                if p.starts_with("HARNESS:") {
                    eprintln!("{p}");
                    std::process::exit(2);
                }
                let w = witness(&c, &dirs, json!({"panic": p, "debug_assertions": cfg!(debug_assertions)}));
                // the two sides the assertion prints are textually identical and contain a
                // `Debug(MatchDebug ..)` matcher: not an Ord inconsistency, but `ValueMatch::Debug`
                // never comparing equal to itself
                let same_sides = p
                    .split_once("\n  left: ")
                    .and_then(|(_, r)| r.split_once("\n right: "))
                    .map(|(l, r)| l.trim() == r.trim() && l.contains("Debug(MatchDebug"))
                    .unwrap_or(false);
                if cfg!(debug_assertions) && p.contains("Ordering::Equal must imply a.fields == b.fields") && same_sides {
                    out.count(&format!("candidate_{N_ORD_ASSERT}"), 1);
                    out.finding(
                        N_ORD_ASSERT,
                        "debug build: with_regex(false) and a repeated directive with a non-literal value pattern: `ValueMatch::Debug` never compares equal (PartialEq) although Ord says Equal, so the Ord-consistency debug_assert in `Ord for Directive` panics",
                        w,
                    );
                } else {
                    out.violation("panic while building or using a filter", w);
                }
            }
        }
    }
    out.emit();
}
