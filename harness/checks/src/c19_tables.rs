// C19 tables shared by checks/src/bin/c19.rs (native, release) and san-c19/src/main.rs (Miri,
// debug-assertions off).  Depends on nothing but std + tracing_core.
//
// Reference: the integer rank OFF=0 < ERROR=1 < WARN=2 < INFO=3 < DEBUG=4 < TRACE=5.
// A value's rank is known *by construction* (the named constant it was made from).  Values that
// come back from the code under test (min/max/clamp, conversions, parse, current()) are
// identified by a structural `match` against the public constants (compiler-generated
// discriminant tests; none of the hand-written comparison impls is involved).
//
// A cell = (table, op, a, b, c) with an expected and an observed i64 code:
//   bool -> 0/1 ; Ordering -> -1/0/1 ; rank -> 0..5 ; NONE = -7 ; PANIC = -8 ; INVALID = -99.

#[allow(unused_imports)]
use std::sync::atomic::{AtomicUsize, Ordering as AtomicOrdering};
use tracing_core::{Level, LevelFilter};

pub const NONE: i64 = -7;
pub const PANIC: i64 = -8;
pub const INVALID: i64 = -99;

pub const NAMES: [&str; 6] = ["OFF", "ERROR", "WARN", "INFO", "DEBUG", "TRACE"];

pub const LEVELS: [(i64, Level); 5] = [
    (1, Level::ERROR),
    (2, Level::WARN),
    (3, Level::INFO),
    (4, Level::DEBUG),
    (5, Level::TRACE),
];
pub const FILTERS: [(i64, LevelFilter); 6] = [
    (0, LevelFilter::OFF),
    (1, LevelFilter::ERROR),
    (2, LevelFilter::WARN),
    (3, LevelFilter::INFO),
    (4, LevelFilter::DEBUG),
    (5, LevelFilter::TRACE),
];

/// rank of a `Level` handed back by the code under test
#[allow(unreachable_patterns)]
pub fn lrank(l: Level) -> i64 {
    match l {
        Level::ERROR => 1,
        Level::WARN => 2,
        Level::INFO => 3,
        Level::DEBUG => 4,
        Level::TRACE => 5,
        _ => INVALID,
    }
}
/// rank of a `LevelFilter` handed back by the code under test
#[allow(unreachable_patterns)]
pub fn frank(f: LevelFilter) -> i64 {
    match f {
        LevelFilter::OFF => 0,
        LevelFilter::ERROR => 1,
        LevelFilter::WARN => 2,
        LevelFilter::INFO => 3,
        LevelFilter::DEBUG => 4,
        LevelFilter::TRACE => 5,
        _ => INVALID,
    }
}
pub fn olrank(l: Option<Level>) -> i64 {
    match l {
        None => NONE,
        Some(l) => lrank(l),
    }
}
pub fn ord_code(o: std::cmp::Ordering) -> i64 {
    match o {
        std::cmp::Ordering::Less => -1,
        std::cmp::Ordering::Equal => 0,
        std::cmp::Ordering::Greater => 1,
    }
}
pub fn oord_code(o: Option<std::cmp::Ordering>) -> i64 {
    match o {
        None => NONE,
        Some(o) => ord_code(o),
    }
}
pub fn code_name(c: i64) -> String {
    match c {
        NONE => "None".into(),
        PANIC => "<panic>".into(),
        INVALID => "<not one of the named constants>".into(),
        x => x.to_string(),
    }
}

pub trait Sink {
    #[allow(clippy::too_many_arguments)]
    fn cell(&mut self, table: &'static str, op: &'static str, a: i64, b: i64, c: i64, expected: i64, observed: i64);
}

fn bb<T>(x: T) -> T {
    std::hint::black_box(x)
}

/// `f()` or PANIC
fn or_panic(f: impl FnOnce() -> i64) -> i64 {
    match std::panic::catch_unwind(std::panic::AssertUnwindSafe(f)) {
        Ok(v) => v,
        Err(_) => PANIC,
    }
}

// the operators that exist for every one of the four type pairs
macro_rules! mixed_ops {
    ($sink:expr, $table:expr, $xs:expr, $ys:expr) => {
        for &(ra, a) in $xs.iter() {
            for &(rb, b) in $ys.iter() {
                let (a, b) = (bb(a), bb(b));
                let t = $table;
                $sink.cell(t, "==", ra, rb, 0, (ra == rb) as i64, (a == b) as i64);
                $sink.cell(t, "!=", ra, rb, 0, (ra != rb) as i64, (a != b) as i64);
                $sink.cell(t, "<", ra, rb, 0, (ra < rb) as i64, (a < b) as i64);
                $sink.cell(t, "<=", ra, rb, 0, (ra <= rb) as i64, (a <= b) as i64);
                $sink.cell(t, ">", ra, rb, 0, (ra > rb) as i64, (a > b) as i64);
                $sink.cell(t, ">=", ra, rb, 0, (ra >= rb) as i64, (a >= b) as i64);
                $sink.cell(t, "partial_cmp", ra, rb, 0, ord_code(ra.cmp(&rb)), oord_code(a.partial_cmp(&b)));
                // through references (`&Level <= &LevelFilter` is what tracing-subscriber writes)
                let (pa, pb) = (bb(&a), bb(&b));
                $sink.cell(t, "&==&", ra, rb, 0, (ra == rb) as i64, (pa == pb) as i64);
                $sink.cell(t, "&!=&", ra, rb, 0, (ra != rb) as i64, (pa != pb) as i64);
                $sink.cell(t, "&<&", ra, rb, 0, (ra < rb) as i64, (pa < pb) as i64);
                $sink.cell(t, "&<=&", ra, rb, 0, (ra <= rb) as i64, (pa <= pb) as i64);
                $sink.cell(t, "&>&", ra, rb, 0, (ra > rb) as i64, (pa > pb) as i64);
                $sink.cell(t, "&>=&", ra, rb, 0, (ra >= rb) as i64, (pa >= pb) as i64);
                $sink.cell(t, "&partial_cmp&", ra, rb, 0, ord_code(ra.cmp(&rb)), oord_code(PartialOrd::partial_cmp(&pa, &pb)));
            }
        }
    };
}

// the operators that need both sides to have the same type (`Ord`)
macro_rules! same_ops {
    ($sink:expr, $table:expr, $xs:expr, $rank:ident) => {
        for &(ra, a) in $xs.iter() {
            for &(rb, b) in $xs.iter() {
                let (a, b) = (bb(a), bb(b));
                let t = $table;
                $sink.cell(t, "cmp", ra, rb, 0, ord_code(ra.cmp(&rb)), ord_code(a.cmp(&b)));
                $sink.cell(t, "Ord::min", ra, rb, 0, ra.min(rb), $rank(Ord::min(a, b)));
                $sink.cell(t, "Ord::max", ra, rb, 0, ra.max(rb), $rank(Ord::max(a, b)));
                $sink.cell(t, "cmp::min", ra, rb, 0, ra.min(rb), $rank(std::cmp::min(a, b)));
                $sink.cell(t, "cmp::max", ra, rb, 0, ra.max(rb), $rank(std::cmp::max(a, b)));
                $sink.cell(t, "Reverse<", ra, rb, 0, (rb < ra) as i64, (std::cmp::Reverse(a) < std::cmp::Reverse(b)) as i64);
                // Option<T> orders None first, then by T::partial_cmp
                $sink.cell(t, "Some<Some", ra, rb, 0, (ra < rb) as i64, (Some(a) < Some(b)) as i64);
                // x.clamp(lo, hi): defined for lo <= hi, panics (std's assert!(min <= max)) otherwise
                for &(rx, x) in $xs.iter() {
                    let x = bb(x);
                    let expected = if ra <= rb { rx.clamp(ra, rb) } else { PANIC };
                    let observed = or_panic(|| $rank(x.clamp(a, b)));
                    $sink.cell(t, "clamp(x;lo,hi)", ra, rb, rx, expected, observed);
                }
            }
        }
    };
}

/// All operators over all ordered pairs of the four type combinations.
pub fn ops_table(sink: &mut dyn Sink) {
    mixed_ops!(sink, "level/level", LEVELS, LEVELS);
    mixed_ops!(sink, "level/filter", LEVELS, FILTERS);
    mixed_ops!(sink, "filter/level", FILTERS, LEVELS);
    mixed_ops!(sink, "filter/filter", FILTERS, FILTERS);
    same_ops!(sink, "level/level", LEVELS, lrank);
    same_ops!(sink, "filter/filter", FILTERS, frank);
    // "level enabled by filter" == level <= filter, spelled all four ways
    for &(rl, l) in LEVELS.iter() {
        for &(rf, f) in FILTERS.iter() {
            let (l, f) = (bb(l), bb(f));
            let en = (rl <= rf) as i64;
            sink.cell("enabled", "l<=f", rl, rf, 0, en, (l <= f) as i64);
            sink.cell("enabled", "f>=l", rl, rf, 0, en, (f >= l) as i64);
            sink.cell("enabled", "!(l>f)", rl, rf, 0, en, !(l > f) as i64);
            sink.cell("enabled", "!(f<l)", rl, rf, 0, en, !(f < l) as i64);
            sink.cell("enabled", "from_level(l)<=f", rl, rf, 0, en, (LevelFilter::from_level(l) <= f) as i64);
        }
    }
}

fn permutations(n: usize) -> Vec<Vec<usize>> {
    fn rec(cur: &mut Vec<usize>, used: &mut Vec<bool>, n: usize, out: &mut Vec<Vec<usize>>) {
        if cur.len() == n {
            out.push(cur.clone());
            return;
        }
        for i in 0..n {
            if !used[i] {
                used[i] = true;
                cur.push(i);
                rec(cur, used, n, out);
                cur.pop();
                used[i] = false;
            }
        }
    }
    let mut out = vec![];
    rec(&mut vec![], &mut vec![false; n], n, &mut out);
    out
}

fn perm_code(p: &[usize]) -> i64 {
    p.iter().fold(0i64, |acc, &d| acc * 10 + d as i64 + 1)
}

macro_rules! sort_ops {
    ($sink:expr, $table:expr, $xs:expr, $rank:ident, $perms:expr) => {
        let n = $xs.len();
        let sorted_code: i64 = (0..n).fold(0i64, |acc, i| acc * 10 + $xs[i].0);
        for p in $perms.iter() {
            let pc = perm_code(p);
            let v: Vec<_> = p.iter().map(|&i| bb($xs[i].1)).collect();
            let code = |w: &[_]| -> i64 { w.iter().fold(0i64, |acc, x| acc * 10 + $rank(*x)) };
            let mut w = v.clone();
            w.sort();
            $sink.cell($table, "sort", pc, 0, 0, sorted_code, code(&w));
            let mut w = v.clone();
            w.sort_unstable();
            $sink.cell($table, "sort_unstable", pc, 0, 0, sorted_code, code(&w));
            let w: Vec<_> = v.iter().copied().collect::<std::collections::BTreeSet<_>>().into_iter().collect();
            $sink.cell($table, "BTreeSet", pc, 0, 0, sorted_code, code(&w));
            $sink.cell($table, "iter.max", pc, 0, 0, $xs[n - 1].0, v.iter().copied().max().map($rank).unwrap_or(NONE));
            $sink.cell($table, "iter.min", pc, 0, 0, $xs[0].0, v.iter().copied().min().map($rank).unwrap_or(NONE));
            // drop the last element of the permutation: max/min of a proper subset
            let sub = &v[..n - 1];
            let rs: Vec<i64> = p[..n - 1].iter().map(|&i| $xs[i].0).collect();
            $sink.cell($table, "iter.max(n-1)", pc, 0, 0, *rs.iter().max().unwrap(), sub.iter().copied().max().map($rank).unwrap_or(NONE));
            $sink.cell($table, "iter.min(n-1)", pc, 0, 0, *rs.iter().min().unwrap(), sub.iter().copied().min().map($rank).unwrap_or(NONE));
        }
    };
}

/// Consumers of the operators: sorting every permutation must give the rank order.
/// `full = false` (Miri) takes every 7th permutation of the filters.
pub fn sort_table(sink: &mut dyn Sink, full: bool) {
    let p5 = permutations(5);
    sort_ops!(sink, "sort/level", LEVELS, lrank, p5);
    let mut p6 = permutations(6);
    if !full {
        p6 = p6.into_iter().step_by(7).collect();
    }
    sort_ops!(sink, "sort/filter", FILTERS, frank, p6);
}

// const-context conversions (both are `const fn`)
const C_FROM: [LevelFilter; 5] = [
    LevelFilter::from_level(Level::ERROR),
    LevelFilter::from_level(Level::WARN),
    LevelFilter::from_level(Level::INFO),
    LevelFilter::from_level(Level::DEBUG),
    LevelFilter::from_level(Level::TRACE),
];
const C_INTO: [Option<Level>; 6] = [
    LevelFilter::OFF.into_level(),
    LevelFilter::ERROR.into_level(),
    LevelFilter::WARN.into_level(),
    LevelFilter::INFO.into_level(),
    LevelFilter::DEBUG.into_level(),
    LevelFilter::TRACE.into_level(),
];

/// From / into_level / from_level and their round trips.
pub fn conv_table(sink: &mut dyn Sink) {
    let t = "conv";
    for (i, &(rl, l)) in LEVELS.iter().enumerate() {
        let l = bb(l);
        sink.cell(t, "from_level", rl, 0, 0, rl, frank(LevelFilter::from_level(l)));
        sink.cell(t, "From<Level>", rl, 0, 0, rl, frank(LevelFilter::from(l)));
        let f: LevelFilter = l.into();
        sink.cell(t, "Level::into", rl, 0, 0, rl, frank(f));
        sink.cell(t, "From<Option<Level>>(Some)", rl, 0, 0, rl, frank(LevelFilter::from(Some(l))));
        sink.cell(t, "const from_level", rl, 0, 0, rl, frank(bb(C_FROM[i])));
        sink.cell(t, "from_level.into_level", rl, 0, 0, rl, olrank(LevelFilter::from_level(l).into_level()));
        sink.cell(t, "from_level==level", rl, 0, 0, 1, (LevelFilter::from_level(l) == l) as i64);
        sink.cell(t, "level==from_level", rl, 0, 0, 1, (l == LevelFilter::from_level(l)) as i64);
    }
    sink.cell(t, "From<Option<Level>>(None)", NONE, 0, 0, 0, frank(LevelFilter::from(bb(None::<Level>))));
    for (i, &(rf, f)) in FILTERS.iter().enumerate() {
        let f = bb(f);
        let want = if rf == 0 { NONE } else { rf };
        sink.cell(t, "into_level", rf, 0, 0, want, olrank(f.into_level()));
        sink.cell(t, "Option<Level>::from", rf, 0, 0, want, olrank(Option::<Level>::from(f)));
        let o: Option<Level> = f.into();
        sink.cell(t, "LevelFilter::into", rf, 0, 0, want, olrank(o));
        sink.cell(t, "const into_level", rf, 0, 0, want, olrank(bb(C_INTO[i])));
        sink.cell(t, "From(into_level)", rf, 0, 0, rf, frank(LevelFilter::from(f.into_level())));
        #[allow(clippy::clone_on_copy)]
        let c = f.clone();
        sink.cell(t, "clone", rf, 0, 0, rf, frank(c));
    }
}

/// Smallest possible collector: accepts everything, publishes `hint` (6 = no hint).
pub struct MiniCollector {
    pub hint: AtomicUsize,
}
impl tracing_core::Collect for MiniCollector {
    fn enabled(&self, _: &tracing_core::Metadata<'_>) -> bool {
        true
    }
    fn max_level_hint(&self) -> Option<LevelFilter> {
        match self.hint.load(AtomicOrdering::SeqCst) {
            6 => None,
            h => Some(FILTERS[h].1),
        }
    }
    fn new_span(&self, _: &tracing_core::span::Attributes<'_>) -> tracing_core::span::Id {
        tracing_core::span::Id::from_u64(1)
    }
    fn record(&self, _: &tracing_core::span::Id, _: &tracing_core::span::Record<'_>) {}
    fn record_follows_from(&self, _: &tracing_core::span::Id, _: &tracing_core::span::Id) {}
    fn event(&self, _: &tracing_core::Event<'_>) {}
    fn enter(&self, _: &tracing_core::span::Id) {}
    fn exit(&self, _: &tracing_core::span::Id) {}
    fn current_span(&self) -> tracing_core::span::Current {
        tracing_core::span::Current::unknown()
    }
}

/// hint code 0..5 = Some(filter), 6 = None (-> TRACE: "assume that it may enable every level")
pub fn hint_rank(h: usize) -> i64 {
    if h == 6 {
        5
    } else {
        h as i64
    }
}

fn judge_current(sink: &mut dyn Sink, op: &'static str, prev: usize, h: usize) {
    let e = hint_rank(h);
    let cur = LevelFilter::current();
    sink.cell("current", op, prev as i64, h as i64, 0, e, frank(cur));
    for &(rl, l) in LEVELS.iter() {
        let l = bb(l);
        sink.cell("current", "l<=current()", h as i64, rl, 0, (rl <= e) as i64, (l <= LevelFilter::current()) as i64);
        sink.cell("current", "current()>=l", h as i64, rl, 0, (rl <= e) as i64, (LevelFilter::current() >= l) as i64);
    }
}

/// Every hint -> hint transition with the hinting collector as the ONLY live dispatcher
/// (the previous `Dispatch` is dropped before the next is made), plus in-place hint changes
/// followed by `rebuild_interest_cache`.  The caller must hold no other `Dispatch`.
pub fn current_table(sink: &mut dyn Sink) {
    use std::sync::Arc;
    use tracing_core::dispatch::{self, Dispatch};
    struct SharedMini(Arc<MiniCollector>);
    impl tracing_core::Collect for SharedMini {
        fn enabled(&self, m: &tracing_core::Metadata<'_>) -> bool {
            self.0.enabled(m)
        }
        fn max_level_hint(&self) -> Option<LevelFilter> {
            self.0.max_level_hint()
        }
        fn new_span(&self, a: &tracing_core::span::Attributes<'_>) -> tracing_core::span::Id {
            self.0.new_span(a)
        }
        fn record(&self, _: &tracing_core::span::Id, _: &tracing_core::span::Record<'_>) {}
        fn record_follows_from(&self, _: &tracing_core::span::Id, _: &tracing_core::span::Id) {}
        fn event(&self, _: &tracing_core::Event<'_>) {}
        fn enter(&self, _: &tracing_core::span::Id) {}
        fn exit(&self, _: &tracing_core::span::Id) {}
        fn current_span(&self) -> tracing_core::span::Current {
            tracing_core::span::Current::unknown()
        }
    }
    let mut prev = 7usize; // 7 = nothing installed before
    for a in 0..7usize {
        for b in 0..7usize {
            // fresh Dispatch with hint a, as scoped default of this thread
            let d = Dispatch::new(MiniCollector { hint: AtomicUsize::new(a) });
            let g = dispatch::set_default(&d);
            judge_current(sink, "Dispatch::new", prev, a);
            drop(g);
            drop(d);
            // fresh Dispatch whose hint is changed in place a -> b
            let arc = Arc::new(MiniCollector { hint: AtomicUsize::new(a) });
            let d = Dispatch::new(SharedMini(arc.clone()));
            judge_current(sink, "Dispatch::new", a, a);
            arc.hint.store(b, AtomicOrdering::SeqCst);
            tracing_core::callsite::rebuild_interest_cache();
            judge_current(sink, "rebuild_interest_cache", a, b);
            drop(d);
            prev = b;
        }
    }
}
