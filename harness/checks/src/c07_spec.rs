// C07 part 1 (included by bin/c07.rs): filter / stack specs, the independent reference evaluator,
// the spec -> real stack builders (tree-shaped and list-shaped) and the recorders.

const NAMES: [&str; 3] = ["sp", "alpha", "beta"];

/// What a filter can know about a callsite (the reference evaluator's metadata).
#[derive(Clone, Copy, Debug, PartialEq, Eq, Hash)]
struct Meta {
    level: usize,  // 1 = ERROR .. 5 = TRACE
    target: usize, // index into vcs::TARGETS
    span: bool,
    name: usize, // index into NAMES (spans only)
}
fn meta_of(m: &Metadata<'_>) -> Meta {
    Meta {
        level: vcs::level_of(m.level()),
        target: vcs::target_index(m.target()).unwrap_or(0),
        span: m.is_span(),
        name: NAMES.iter().position(|n| *n == m.name()).unwrap_or(0),
    }
}
fn mask_bit(m: Meta) -> u64 {
    1u64 << (((m.level - 1) * 4 + m.target) * 2 + m.span as usize)
}
fn mask_accept(mask: u64, m: Meta) -> bool {
    mask & mask_bit(m) != 0
}
fn meta_code(m: Meta) -> String {
    format!("{} {}{}", vcs::LEVEL_NAMES[m.level], TARGETS[m.target], if m.span { format!(" span:{}", NAMES[m.name]) } else { String::new() })
}

/// Property of a span that a context-dependent filter looks for.
#[derive(Clone, Copy, Debug, PartialEq)]
enum Prop {
    Target(usize),
    Name(usize),
    LevelAtMost(usize),
}
impl Prop {
    fn holds(self, m: Meta) -> bool {
        match self {
            Prop::Target(t) => m.target == t,
            Prop::Name(n) => m.name == n,
            Prop::LevelAtMost(l) => m.level <= l,
        }
    }
    fn code(self) -> String {
        match self {
            Prop::Target(t) => format!("target=={}", TARGETS[t]),
            Prop::Name(n) => format!("name=={}", NAMES[n]),
            Prop::LevelAtMost(l) => format!("level<={}", vcs::LEVEL_NAMES[l]),
        }
    }
}

#[derive(Clone, Debug, PartialEq)]
enum Pred {
    Level(usize),
    Targets(Vec<(usize, usize)>, usize),
    Env(Vec<(usize, usize)>, usize),
    /// `filter_fn` closure: a table over (level, target, span?)
    Fn(u64),
    /// `dynamic_filter_fn` closure that ignores the context (interest `sometimes`)
    DynFn(u64),
    /// `dynamic_filter_fn`: only inside a span with `Prop` that I can see through ctx (lookup_current + scope)
    InSpan(Prop),
    /// `dynamic_filter_fn`: ctx.lookup_current() has `Prop`
    CurIs(Prop),
    /// a hand-written `Filter` that, like `EnvFilter` with span directives, notes the span
    /// callsites it is offered (`callsite_enabled`) and enables exactly while the visible current
    /// span is one of those and has `Prop`.  It may sit anywhere in a combinator tree: every
    /// operand is handed the spans and events of every callsite (`on_new_span`, `enabled`), so
    /// every operand has to be offered every callsite too (F34: `and` skipped its right operand
    /// when the left one answered `never`).  Reference reading: the same as `CurIs`.
    CurReg(Prop),
    And(Box<Pred>, Box<Pred>),
    Or(Box<Pred>, Box<Pred>),
    Not(Box<Pred>),
}
fn dir_accept(v: &[(usize, usize)], d: usize, m: Meta) -> bool {
    let t = TARGETS[m.target];
    let best = v.iter().filter(|(ti, _)| t.starts_with(TARGETS[*ti])).max_by_key(|(ti, _)| TARGETS[*ti].len());
    match best {
        Some((_, l)) => m.level <= *l,
        None => m.level <= d,
    }
}
fn dir_string(v: &[(usize, usize)], d: usize) -> String {
    let mut parts: Vec<String> = v.iter().map(|(t, l)| format!("{}={}", TARGETS[*t], vcs::LEVEL_NAMES[*l].to_lowercase())).collect();
    parts.push(vcs::LEVEL_NAMES[d].to_lowercase());
    parts.join(",")
}
impl Pred {
    /// Reference evaluation. `chain` = metadata of the spans this filter can see from the thread's
    /// current position: nearest visible entered span first, then its visible ancestors.
    fn eval(&self, m: Meta, chain: &[Meta]) -> bool {
        match self {
            Pred::Level(l) => m.level <= *l,
            Pred::Targets(v, d) | Pred::Env(v, d) => dir_accept(v, *d, m),
            Pred::Fn(mask) | Pred::DynFn(mask) => mask_accept(*mask, m),
            Pred::InSpan(p) => chain.iter().any(|s| p.holds(*s)),
            Pred::CurIs(p) | Pred::CurReg(p) => chain.first().map(|s| p.holds(*s)).unwrap_or(false),
            Pred::And(a, b) => a.eval(m, chain) && b.eval(m, chain),
            Pred::Or(a, b) => a.eval(m, chain) || b.eval(m, chain),
            Pred::Not(a) => !a.eval(m, chain),
        }
    }
    fn code(&self) -> String {
        match self {
            Pred::Level(l) => format!("level<={}", vcs::LEVEL_NAMES[*l]),
            Pred::Targets(v, d) => format!("targets({})", dir_string(v, *d)),
            Pred::Env(v, d) => format!("env({})", dir_string(v, *d)),
            Pred::Fn(m) => format!("filter_fn(table {m:#x})"),
            Pred::DynFn(m) => format!("dynamic_filter_fn(table {m:#x})"),
            Pred::InSpan(p) => format!("dyn(inside a visible span with {})", p.code()),
            Pred::CurIs(p) => format!("dyn(visible current span has {})", p.code()),
            Pred::CurReg(p) => format!("noting_filter(visible current span was offered to me and has {})", p.code()),
            Pred::And(a, b) => format!("and({}, {})", a.code(), b.code()),
            Pred::Or(a, b) => format!("or({}, {})", a.code(), b.code()),
            Pred::Not(a) => format!("not({})", a.code()),
        }
    }
    fn kind(&self) -> String {
        match self {
            Pred::Level(_) => "lvl".into(),
            Pred::Targets(..) => "tgt".into(),
            Pred::Env(..) => "env".into(),
            Pred::Fn(_) => "fn".into(),
            Pred::DynFn(_) => "dynfn".into(),
            Pred::InSpan(_) => "inspan".into(),
            Pred::CurIs(_) => "curis".into(),
            Pred::CurReg(_) => "curreg".into(),
            Pred::And(a, b) => format!("and({},{})", a.kind(), b.kind()),
            Pred::Or(a, b) => format!("or({},{})", a.kind(), b.kind()),
            Pred::Not(a) => format!("not({})", a.kind()),
        }
    }
    fn context_dependent(&self) -> bool {
        match self {
            Pred::InSpan(_) | Pred::CurIs(_) | Pred::CurReg(_) => true,
            Pred::And(a, b) | Pred::Or(a, b) => a.context_dependent() || b.context_dependent(),
            Pred::Not(a) => a.context_dependent(),
            _ => false,
        }
    }
}

#[derive(Clone, Debug)]
enum Node {
    /// plain recording layer (leaf index)
    Rec(usize),
    /// global filter layer (top-level positions only); usize = index among the stack's globals
    Global(Pred, usize),
    /// global layer whose `event_enabled` vetoes events outside the table (top-level only)
    EvVeto(u64),
    /// `inner.with_filter(pred)`; usize = filter instance index
    Filtered(Box<Node>, Pred, usize),
    /// `a.and_then(b)`
    AndThen(Box<Node>, Box<Node>),
    /// `Vec<Box<dyn Subscribe>>`
    Many(Vec<Node>),
    /// `Option<Box<dyn Subscribe>>`
    Opt(Option<Box<Node>>),
    /// one more `Box` around the boxed layer
    Boxed(Box<Node>),
}
#[derive(Clone, Debug)]
enum Shape {
    /// one tree attached with a single `.with()`
    Tree(Node),
    /// `registry.with(n0).with(n1)...` (type ladder)
    List(Vec<Node>),
}

#[derive(Clone, Debug)]
struct FilterInfo {
    pred: Pred,
    parent: Option<usize>,
}
#[derive(Clone, Debug, Default)]
struct StackInfo {
    /// per leaf: filter instances on the path root -> leaf (outer first)
    leaves: Vec<Vec<usize>>,
    filters: Vec<FilterInfo>,
    globals: Vec<Pred>,
    evveto: Vec<u64>,
    has_and_then: bool,
    has_none_layer: bool,
}
impl StackInfo {
    /// does filter `f` lie on leaf `i`'s chain
    fn leaf_under(&self, i: usize, f: usize) -> bool {
        self.leaves[i].contains(&f)
    }
}

fn number(n: &mut Node, info: &mut StackInfo, chain: &mut Vec<usize>) {
    match n {
        Node::Rec(i) => {
            *i = info.leaves.len();
            info.leaves.push(chain.clone());
        }
        Node::Global(p, gi) => {
            *gi = info.globals.len();
            info.globals.push(p.clone());
        }
        Node::EvVeto(m) => info.evveto.push(*m),
        Node::Filtered(inner, p, fi) => {
            *fi = info.filters.len();
            info.filters.push(FilterInfo { pred: p.clone(), parent: chain.last().copied() });
            chain.push(*fi);
            number(inner, info, chain);
            chain.pop();
        }
        Node::AndThen(a, b) => {
            info.has_and_then = true;
            number(a, info, chain);
            number(b, info, chain);
        }
        Node::Many(v) => {
            for x in v {
                number(x, info, chain);
            }
        }
        Node::Opt(Some(x)) | Node::Boxed(x) => number(x, info, chain),
        Node::Opt(None) => info.has_none_layer = true,
    }
}
fn node_code(n: &Node) -> String {
    match n {
        Node::Rec(i) => format!("rec#{i}"),
        Node::Global(p, gi) => format!("GLOBAL[g{gi}: {}]", p.code()),
        Node::EvVeto(m) => format!("GLOBAL[event_enabled table {m:#x}]"),
        Node::Filtered(x, p, fi) => format!("{}.with_filter(f{fi}: {})", node_code(x), p.code()),
        Node::AndThen(a, b) => format!("({}).and_then({})", node_code(a), node_code(b)),
        Node::Many(v) => format!("vec![{}]", v.iter().map(node_code).collect::<Vec<_>>().join(", ")),
        Node::Opt(Some(x)) => format!("Some({})", node_code(x)),
        Node::Opt(None) => "None".into(),
        Node::Boxed(x) => format!("Box({})", node_code(x)),
    }
}
fn node_sig(n: &Node) -> String {
    match n {
        Node::Rec(_) => "R".into(),
        Node::Global(p, _) => format!("G[{}]", p.kind()),
        Node::EvVeto(_) => "GEV".into(),
        Node::Filtered(x, p, _) => format!("F[{}]({})", p.kind(), node_sig(x)),
        Node::AndThen(a, b) => format!("A({},{})", node_sig(a), node_sig(b)),
        Node::Many(v) => format!("V({})", v.iter().map(node_sig).collect::<Vec<_>>().join(",")),
        Node::Opt(Some(x)) => format!("S({})", node_sig(x)),
        Node::Opt(None) => "N".into(),
        Node::Boxed(x) => format!("B({})", node_sig(x)),
    }
}
impl Shape {
    fn code(&self) -> String {
        match self {
            Shape::Tree(n) => format!("registry.with({})", node_code(n)),
            Shape::List(v) => format!("registry{}", v.iter().map(|n| format!(".with({})", node_code(n))).collect::<String>()),
        }
    }
    fn sig(&self) -> String {
        match self {
            Shape::Tree(n) => format!("T:{}", node_sig(n)),
            Shape::List(v) => format!("L:{}", v.iter().map(node_sig).collect::<Vec<_>>().join(";")),
        }
    }
}

// ---------------------------------------------------------------------------------------------
// generation

struct Gen<'a> {
    rng: &'a mut Rng,
    leaves: usize,
    filters: usize,
    globals: usize,
    allow_evveto: bool,
    want_global: bool,
}
fn gen_dirs(rng: &mut Rng, permissive: bool) -> (Vec<(usize, usize)>, usize) {
    let mut v: Vec<(usize, usize)> = vec![];
    for t in 0..4 {
        if rng.chance(2, 5) {
            v.push((t, if permissive { 2 + rng.usize(4) } else { rng.usize(6) }));
        }
    }
    // a third of the tables name one target twice (the later entry replaces the earlier one,
    // with `with_target` and in a parsed string alike)
    if !v.is_empty() && rng.chance(1, 3) {
        let i = rng.usize(v.len());
        let (t, l) = v[i];
        let other = (l + 1 + rng.usize(5)) % 6;
        v.insert(i, (t, other));
    }
    (v, if permissive { 3 + rng.usize(3) } else { rng.usize(6) })
}
fn gen_mask(rng: &mut Rng, permissive: bool) -> u64 {
    let den = if permissive { 10 } else { *rng.pick(&[3u64, 6, 9]) };
    let num = if permissive { 8 } else { den - 1 - rng.below(2) };
    let by_class = rng.chance(1, 3);
    let mut m = 0u64;
    for l in 1..=5usize {
        for t in 0..4usize {
            let both = rng.chance(num, den.max(num + 1));
            for s in [false, true] {
                let on = if by_class { both } else { rng.chance(num, den.max(num + 1)) };
                if on {
                    m |= mask_bit(Meta { level: l, target: t, span: s, name: 0 });
                }
            }
        }
    }
    m
}
fn gen_prop(rng: &mut Rng) -> Prop {
    match rng.below(5) {
        0 | 1 => Prop::Target(rng.usize(4)),
        2 | 3 => Prop::Name(rng.usize(3)),
        _ => Prop::LevelAtMost(1 + rng.usize(4)),
    }
}
fn gen_pred(rng: &mut Rng, depth: usize) -> Pred {
    if depth == 0 && rng.chance(1, 12) {
        let noting = Pred::CurReg(gen_prop(rng));
        return if rng.bool() { noting } else { Pred::Or(Box::new(gen_pred(rng, 1)), Box::new(noting)) };
    }
    let comb = if depth < 2 { 2 } else { 0 };
    let w = [4u32, 3, 2, 3, 2, 3, 1, comb, comb, comb, 1];
    match rng.weighted(&w) {
        10 => Pred::CurReg(gen_prop(rng)),
        0 => Pred::Level(*rng.pick(&[0usize, 1, 2, 3, 3, 4, 4, 5, 5])),
        1 => {
            let (v, d) = gen_dirs(rng, false);
            Pred::Targets(v, d)
        }
        2 => {
            let (v, d) = gen_dirs(rng, false);
            Pred::Env(v, d)
        }
        3 => Pred::Fn(gen_mask(rng, false)),
        4 => Pred::DynFn(gen_mask(rng, false)),
        5 => Pred::InSpan(gen_prop(rng)),
        6 => Pred::CurIs(gen_prop(rng)),
        7 => Pred::And(Box::new(gen_pred(rng, depth + 1)), Box::new(gen_pred(rng, depth + 1))),
        8 => Pred::Or(Box::new(gen_pred(rng, depth + 1)), Box::new(gen_pred(rng, depth + 1))),
        _ => Pred::Not(Box::new(gen_pred(rng, depth + 1))),
    }
}
fn gen_global(rng: &mut Rng) -> Pred {
    match rng.below(12) {
        0..=2 => Pred::Level(*rng.pick(&[2usize, 3, 4, 4, 5])),
        3 | 4 => {
            let (v, d) = gen_dirs(rng, true);
            Pred::Targets(v, d)
        }
        5 | 6 => {
            let (v, d) = gen_dirs(rng, true);
            Pred::Env(v, d)
        }
        7 | 8 => Pred::Fn(gen_mask(rng, true)),
        9 | 10 => Pred::DynFn(gen_mask(rng, true)),
        _ => Pred::InSpan(gen_prop(rng)),
    }
}
impl Gen<'_> {
    fn node(&mut self, depth: usize, top: bool) -> Node {
        let room = self.leaves < 6;
        let deep = depth >= 3;
        let w = [
            5u32,
            if !deep && self.filters < 7 { 7 } else { 0 },
            if !deep && room { 3 } else { 0 },
            if !deep && room { 2 } else { 0 },
            if !deep { 1 } else { 0 },
            if !deep { 1 } else { 0 },
            if top && self.globals < 2 && self.want_global { 3 } else { 0 },
        ];
        match self.rng.weighted(&w) {
            0 => {
                self.leaves += 1;
                Node::Rec(0)
            }
            1 => {
                self.filters += 1;
                let p = gen_pred(self.rng, 0);
                // mostly a single recording layer under the filter
                let inner = if self.rng.chance(3, 5) {
                    self.leaves += 1;
                    Node::Rec(0)
                } else {
                    self.node(depth + 1, false)
                };
                Node::Filtered(Box::new(inner), p, 0)
            }
            2 => {
                let a = self.node(depth + 1, top);
                let b = self.node(depth + 1, top);
                Node::AndThen(Box::new(a), Box::new(b))
            }
            3 => {
                let n = 1 + self.rng.usize(3);
                Node::Many((0..n).map(|_| self.node(depth + 1, false)).collect())
            }
            4 => {
                if self.rng.chance(1, 3) {
                    Node::Opt(None)
                } else {
                    Node::Opt(Some(Box::new(self.node(depth + 1, top))))
                }
            }
            5 => Node::Boxed(Box::new(self.node(depth + 1, top))),
            _ => {
                if self.globals == 0 && self.rng.chance(1, 3) {
                    // a Vec all of whose members are dynamic global filters (interest
                    // `sometimes`, so the Vec's `enabled` - every member must agree - decides;
                    // a member answering `always` would bring in recorded finding F25)
                    self.globals += 2;
                    let a = Node::Global(Pred::DynFn(gen_mask(self.rng, true)), 0);
                    let b = Node::Global(Pred::DynFn(gen_mask(self.rng, true)), 0);
                    return Node::Many(vec![a, b]);
                }
                self.globals += 1;
                if self.allow_evveto && self.rng.chance(1, 2) {
                    Node::EvVeto(gen_mask(self.rng, false))
                } else {
                    Node::Global(gen_global(self.rng), 0)
                }
            }
        }
    }
}
/// `licence_class`: stacks of the class that may contain an `event_enabled`-vetoing global layer.
fn gen_shape(rng: &mut Rng, allow_evveto: bool) -> (Shape, StackInfo) {
    loop {
        let want_global = rng.chance(2, 5);
        let mut g = Gen { rng, leaves: 0, filters: 0, globals: 0, allow_evveto, want_global };
        let mut shape = if g.rng.bool() {
            Shape::Tree(g.node(0, true))
        } else {
            let n = 1 + g.rng.usize(5);
            Shape::List((0..n).map(|_| g.node(1, true)).collect())
        };
        let mut info = StackInfo::default();
        let mut chain = vec![];
        match &mut shape {
            Shape::Tree(n) => number(n, &mut info, &mut chain),
            Shape::List(v) => {
                for n in v {
                    number(n, &mut info, &mut chain);
                }
            }
        }
        if info.leaves.is_empty() || info.leaves.len() > 8 || info.filters.len() > 10 {
            continue;
        }
        return (shape, info);
    }
}

// ---------------------------------------------------------------------------------------------
// recorders

#[derive(Clone, Copy, Debug, PartialEq, Eq)]
enum K {
    New,
    Enter,
    Exit,
    Record,
    Close,
    Event,
}
#[derive(Clone, Debug)]
struct LEv {
    layer: usize,
    k: K,
    /// span serial (from the layer's own stored data / the `id` field) or the event's op id
    key: u64,
    aux: u64,
    /// ctx.lookup_current() (registry id)
    cur: Option<u64>,
    /// span_scope / event_scope, leaf -> root (registry ids)
    scope: Vec<u64>,
    /// registry ids shown by a lookup that carry no stored data of this layer
    foreign: Vec<u64>,
}
#[derive(Clone, Copy, Debug)]
struct FEv {
    /// per-layer filter instance, or global filter index when `global`
    filter: usize,
    global: bool,
    event_enabled: bool,
    verdict: bool,
}
#[derive(Default)]
struct Log {
    lev: Mutex<Vec<LEv>>,
    fev: Mutex<Vec<FEv>>,
    errs: Mutex<Vec<String>>,
}
impl Log {
    fn err(&self, s: String) {
        let mut e = self.errs.lock().unwrap();
        if e.len() < 8 {
            e.push(s);
        }
    }
}

struct IdVisit(Option<u64>);
impl Visit for IdVisit {
    fn record_u64(&mut self, f: &Field, v: u64) {
        if f.name() == "id" {
            self.0 = Some(v);
        }
    }
    fn record_debug(&mut self, _: &Field, _: &dyn std::fmt::Debug) {}
}

/// data every recording layer stores in a span it was shown: (layer, serial)
struct Canaries(Vec<(usize, u64)>);

trait Col: Collect + for<'a> LookupSpan<'a> + Send + Sync + 'static {}
impl<T: Collect + for<'a> LookupSpan<'a> + Send + Sync + 'static> Col for T {}

struct RecLayer {
    idx: usize,
    log: Arc<Log>,
}
impl RecLayer {
    fn canary<'a, C: LookupSpan<'a>>(&self, s: &SpanRef<'a, C>) -> Option<u64> {
        s.extensions().get::<Canaries>().and_then(|c| c.0.iter().find(|(l, _)| *l == self.idx).map(|x| x.1))
    }
    fn look<C: Col>(&self, ctx: &Context<'_, C>, scope: Option<tracing_subscriber::registry::Scope<'_, C>>) -> (Option<u64>, Vec<u64>, Vec<u64>) {
        let mut foreign = vec![];
        let cur = ctx.lookup_current().map(|s| {
            if self.canary(&s).is_none() {
                foreign.push(s.id().into_u64());
            }
            s.id().into_u64()
        });
        // walking up hop by hop with SpanRef::parent() must show the same spans as scope()
        if let Some(s) = ctx.lookup_current() {
            let by_scope: Vec<u64> = s.scope().map(|x| x.id().into_u64()).collect();
            let mut by_parent = vec![s.id().into_u64()];
            let mut c = s.parent();
            while let Some(p) = c {
                by_parent.push(p.id().into_u64());
                if by_parent.len() > 64 {
                    break;
                }
                c = p.parent();
            }
            if by_scope != by_parent {
                self.log.err(format!(
                    "layer rec#{}: walking up from the current span with SpanRef::parent() shows span ids {by_parent:x?}, its scope() shows {by_scope:x?} (a hop shows a span this layer's filter rejected, or hides one it accepted)",
                    self.idx
                ));
            }
        }
        let mut sc = vec![];
        if let Some(scope) = scope {
            for s in scope {
                if self.canary(&s).is_none() {
                    foreign.push(s.id().into_u64());
                }
                sc.push(s.id().into_u64());
            }
        }
        (cur, sc, foreign)
    }
    fn push(&self, e: LEv) {
        self.log.lev.lock().unwrap().push(e);
    }
    fn known<C: Col>(&self, what: &str, id: &Id, ctx: &Context<'_, C>) -> Option<u64> {
        match ctx.span(id) {
            None => {
                self.log.err(format!("layer rec#{}: {what} for span id {:#x}, but ctx.span(id) does not show it to this layer", self.idx, id.into_u64()));
                None
            }
            Some(s) => match self.canary(&s) {
                None => {
                    self.log.err(format!("layer rec#{}: {what} for span id {:#x}, a span this layer was never shown (no on_new_span)", self.idx, id.into_u64()));
                    None
                }
                Some(c) => Some(c),
            },
        }
    }
}
impl<C: Col> Subscribe<C> for RecLayer {
    fn on_new_span(&self, attrs: &Attributes<'_>, id: &Id, ctx: Context<'_, C>) {
        let mut v = IdVisit(None);
        attrs.record(&mut v);
        let serial = v.0.unwrap_or(u64::MAX);
        match ctx.span(id) {
            None => self.log.err(format!("layer rec#{}: on_new_span(serial {serial}) but ctx.span(id) does not show the span to this layer", self.idx)),
            Some(s) => {
                let mut ext = s.extensions_mut();
                if let Some(c) = ext.get_mut::<Canaries>() {
                    if c.0.iter().any(|(l, _)| *l == self.idx) {
                        self.log.err(format!("layer rec#{}: on_new_span(serial {serial}) for a span that already carries this layer's data", self.idx));
                    }
                    c.0.push((self.idx, serial));
                } else {
                    ext.insert(Canaries(vec![(self.idx, serial)]));
                }
            }
        }
        let (cur, scope, foreign) = self.look(&ctx, ctx.span_scope(id));
        self.push(LEv { layer: self.idx, k: K::New, key: serial, aux: 0, cur, scope, foreign });
    }
    fn on_record(&self, id: &Id, values: &Record<'_>, ctx: Context<'_, C>) {
        let mut v = IdVisit(None);
        values.record(&mut v);
        if let Some(serial) = self.known("on_record", id, &ctx) {
            self.push(LEv { layer: self.idx, k: K::Record, key: serial, aux: v.0.unwrap_or(u64::MAX), cur: None, scope: vec![], foreign: vec![] });
        }
    }
    fn on_enter(&self, id: &Id, ctx: Context<'_, C>) {
        if let Some(serial) = self.known("on_enter", id, &ctx) {
            let (cur, _, foreign) = self.look(&ctx, None);
            self.push(LEv { layer: self.idx, k: K::Enter, key: serial, aux: 0, cur, scope: vec![], foreign });
        }
    }
    fn on_exit(&self, id: &Id, ctx: Context<'_, C>) {
        if let Some(serial) = self.known("on_exit", id, &ctx) {
            let (cur, _, foreign) = self.look(&ctx, None);
            self.push(LEv { layer: self.idx, k: K::Exit, key: serial, aux: 0, cur, scope: vec![], foreign });
        }
    }
    fn on_close(&self, id: Id, ctx: Context<'_, C>) {
        if let Some(serial) = self.known("on_close", &id, &ctx) {
            self.push(LEv { layer: self.idx, k: K::Close, key: serial, aux: 0, cur: None, scope: vec![], foreign: vec![] });
        }
    }
    fn on_event(&self, event: &Event<'_>, ctx: Context<'_, C>) {
        let mut v = IdVisit(None);
        event.record(&mut v);
        let (cur, scope, foreign) = self.look(&ctx, ctx.event_scope(event));
        self.push(LEv { layer: self.idx, k: K::Event, key: v.0.unwrap_or(u64::MAX), aux: 0, cur, scope, foreign });
    }
}

type BL<C> = Box<dyn Subscribe<C> + Send + Sync + 'static>;
type BF<C> = Box<dyn Filter<C> + Send + Sync + 'static>;

/// Transparent wrapper that records what the per-layer filter answered (API boundary).
struct RecFilter<C> {
    inner: BF<C>,
    idx: usize,
    log: Arc<Log>,
}
impl<C: Col> Filter<C> for RecFilter<C> {
    fn enabled(&self, m: &Metadata<'_>, cx: &Context<'_, C>) -> bool {
        let v = self.inner.enabled(m, cx);
        self.log.fev.lock().unwrap().push(FEv { filter: self.idx, global: false, event_enabled: false, verdict: v });
        v
    }
    fn callsite_enabled(&self, m: &'static Metadata<'static>) -> Interest {
        self.inner.callsite_enabled(m)
    }
    fn max_level_hint(&self) -> Option<LevelFilter> {
        self.inner.max_level_hint()
    }
    fn event_enabled(&self, e: &Event<'_>, cx: &Context<'_, C>) -> bool {
        let v = self.inner.event_enabled(e, cx);
        self.log.fev.lock().unwrap().push(FEv { filter: self.idx, global: false, event_enabled: true, verdict: v });
        v
    }
    fn on_new_span(&self, a: &Attributes<'_>, id: &Id, ctx: Context<'_, C>) {
        self.inner.on_new_span(a, id, ctx)
    }
    fn on_record(&self, id: &Id, v: &Record<'_>, ctx: Context<'_, C>) {
        self.inner.on_record(id, v, ctx)
    }
    fn on_enter(&self, id: &Id, ctx: Context<'_, C>) {
        self.inner.on_enter(id, ctx)
    }
    fn on_exit(&self, id: &Id, ctx: Context<'_, C>) {
        self.inner.on_exit(id, ctx)
    }
    fn on_close(&self, id: Id, ctx: Context<'_, C>) {
        self.inner.on_close(id, ctx)
    }
}

/// Transparent wrapper around a global filter layer that records what it answered in `enabled`.
struct RecGlobal<C> {
    inner: BL<C>,
    idx: usize,
    log: Arc<Log>,
}
impl<C: Col> Subscribe<C> for RecGlobal<C> {
    fn on_register_dispatch(&self, d: &Dispatch) {
        self.inner.on_register_dispatch(d)
    }
    fn on_subscribe(&mut self, c: &mut C) {
        self.inner.on_subscribe(c)
    }
    fn register_callsite(&self, m: &'static Metadata<'static>) -> Interest {
        self.inner.register_callsite(m)
    }
    fn enabled(&self, m: &Metadata<'_>, ctx: Context<'_, C>) -> bool {
        let v = self.inner.enabled(m, ctx);
        self.log.fev.lock().unwrap().push(FEv { filter: self.idx, global: true, event_enabled: false, verdict: v });
        v
    }
    fn max_level_hint(&self) -> Option<LevelFilter> {
        self.inner.max_level_hint()
    }
    fn event_enabled(&self, e: &Event<'_>, ctx: Context<'_, C>) -> bool {
        self.inner.event_enabled(e, ctx)
    }
    fn on_new_span(&self, a: &Attributes<'_>, id: &Id, ctx: Context<'_, C>) {
        self.inner.on_new_span(a, id, ctx)
    }
    fn on_record(&self, id: &Id, v: &Record<'_>, ctx: Context<'_, C>) {
        self.inner.on_record(id, v, ctx)
    }
    fn on_follows_from(&self, a: &Id, b: &Id, ctx: Context<'_, C>) {
        self.inner.on_follows_from(a, b, ctx)
    }
    fn on_event(&self, e: &Event<'_>, ctx: Context<'_, C>) {
        self.inner.on_event(e, ctx)
    }
    fn on_enter(&self, id: &Id, ctx: Context<'_, C>) {
        self.inner.on_enter(id, ctx)
    }
    fn on_exit(&self, id: &Id, ctx: Context<'_, C>) {
        self.inner.on_exit(id, ctx)
    }
    fn on_close(&self, id: Id, ctx: Context<'_, C>) {
        self.inner.on_close(id, ctx)
    }
    fn on_id_change(&self, a: &Id, b: &Id, ctx: Context<'_, C>) {
        self.inner.on_id_change(a, b, ctx)
    }
}

/// Global layer that lets every `enabled` pass and vetoes in `event_enabled`.
struct EvVetoLayer {
    mask: u64,
}
impl<C: Col> Subscribe<C> for EvVetoLayer {
    fn event_enabled(&self, e: &Event<'_>, _: Context<'_, C>) -> bool {
        mask_accept(self.mask, meta_of(e.metadata()))
    }
}

// ---------------------------------------------------------------------------------------------
// spec -> real values

fn mk_targets(v: &[(usize, usize)], d: usize) -> Targets {
    let mut t = Targets::new().with_default(vcs::filter_of(d));
    for (ti, l) in v {
        t = t.with_target(TARGETS[*ti], vcs::filter_of(*l));
    }
    t
}
fn seen_chain<C: Col>(cx: &Context<'_, C>) -> Vec<Meta> {
    match cx.lookup_current() {
        None => vec![],
        Some(s) => s.scope().map(|x| meta_of(x.metadata())).collect(),
    }
}
struct NotingFilter {
    prop: Prop,
    offered: std::sync::Mutex<std::collections::HashSet<tracing_core::callsite::Identifier>>,
}
impl<C: Col> Filter<C> for NotingFilter {
    fn callsite_enabled(&self, meta: &'static Metadata<'static>) -> tracing_core::Interest {
        if meta.is_span() {
            self.offered.lock().unwrap().insert(meta.callsite());
        }
        tracing_core::Interest::sometimes()
    }
    fn enabled(&self, _m: &Metadata<'_>, cx: &Context<'_, C>) -> bool {
        cx.lookup_current()
            .map(|s| self.offered.lock().unwrap().contains(&s.metadata().callsite()) && self.prop.holds(meta_of(s.metadata())))
            .unwrap_or(false)
    }
}
fn build_filter<C: Col>(p: &Pred) -> BF<C> {
    match p {
        Pred::Level(l) => Box::new(vcs::filter_of(*l)),
        Pred::Targets(v, d) => Box::new(mk_targets(v, *d)),
        Pred::Env(v, d) => Box::new(EnvFilter::new(dir_string(v, *d))),
        Pred::Fn(mask) => {
            let mask = *mask;
            Box::new(filter_fn(move |m: &Metadata<'_>| mask_accept(mask, meta_of(m))))
        }
        Pred::DynFn(mask) => {
            let mask = *mask;
            Box::new(dynamic_filter_fn(move |m: &Metadata<'_>, _cx: &Context<'_, C>| mask_accept(mask, meta_of(m))))
        }
        Pred::InSpan(prop) => {
            let prop = *prop;
            Box::new(dynamic_filter_fn(move |_m: &Metadata<'_>, cx: &Context<'_, C>| seen_chain(cx).iter().any(|s| prop.holds(*s))))
        }
        Pred::CurIs(prop) => {
            let prop = *prop;
            Box::new(dynamic_filter_fn(move |_m: &Metadata<'_>, cx: &Context<'_, C>| cx.lookup_current().map(|s| prop.holds(meta_of(s.metadata()))).unwrap_or(false)))
        }
        Pred::CurReg(prop) => Box::new(NotingFilter { prop: *prop, offered: Default::default() }),
        Pred::And(a, b) => Box::new(<BF<C> as FilterExt<C>>::and(build_filter::<C>(a), build_filter::<C>(b))),
        Pred::Or(a, b) => Box::new(<BF<C> as FilterExt<C>>::or(build_filter::<C>(a), build_filter::<C>(b))),
        Pred::Not(a) => Box::new(<BF<C> as FilterExt<C>>::not(build_filter::<C>(a))),
    }
}
fn build_global<C: Col>(p: &Pred) -> BL<C> {
    match p {
        Pred::Level(l) => Box::new(vcs::filter_of(*l)),
        Pred::Targets(v, d) => Box::new(mk_targets(v, *d)),
        Pred::Env(v, d) => Box::new(EnvFilter::new(dir_string(v, *d))),
        Pred::Fn(mask) => {
            let mask = *mask;
            Box::new(filter_fn(move |m: &Metadata<'_>| mask_accept(mask, meta_of(m))))
        }
        Pred::DynFn(mask) => {
            let mask = *mask;
            Box::new(dynamic_filter_fn(move |m: &Metadata<'_>, _cx: &Context<'_, C>| mask_accept(mask, meta_of(m))))
        }
        Pred::InSpan(prop) => {
            let prop = *prop;
            Box::new(dynamic_filter_fn(move |_m: &Metadata<'_>, cx: &Context<'_, C>| seen_chain(cx).iter().any(|s| prop.holds(*s))))
        }
        Pred::CurIs(prop) => {
            let prop = *prop;
            Box::new(dynamic_filter_fn(move |_m: &Metadata<'_>, cx: &Context<'_, C>| cx.lookup_current().map(|s| prop.holds(meta_of(s.metadata()))).unwrap_or(false)))
        }
        _ => panic!("HARNESS: combinators are not global layers"),
    }
}
fn build<C: Col>(n: &Node, log: &Arc<Log>) -> BL<C> {
    match n {
        Node::Rec(i) => Box::new(RecLayer { idx: *i, log: log.clone() }),
        Node::Global(p, gi) => Box::new(RecGlobal::<C> { inner: build_global::<C>(p), idx: *gi, log: log.clone() }),
        Node::EvVeto(m) => Box::new(EvVetoLayer { mask: *m }),
        Node::Filtered(inner, p, fi) => {
            let f = RecFilter::<C> { inner: build_filter::<C>(p), idx: *fi, log: log.clone() };
            Box::new(build::<C>(inner, log).with_filter(f))
        }
        Node::AndThen(a, b) => Box::new(build::<C>(a, log).and_then(build::<C>(b, log))),
        Node::Many(v) => Box::new(v.iter().map(|x| build::<C>(x, log)).collect::<Vec<BL<C>>>()),
        Node::Opt(Some(x)) => Box::new(Some(build::<C>(x, log))),
        Node::Opt(None) => Box::new(None::<BL<C>>),
        Node::Boxed(x) => Box::new(build::<C>(x, log)),
    }
}

type C0 = Registry;
type C1 = Layered<BL<C0>, C0>;
type C2 = Layered<BL<C1>, C1>;
type C3 = Layered<BL<C2>, C2>;
type C4 = Layered<BL<C3>, C3>;
type C5 = Layered<BL<C4>, C4>;

fn build_stack(shape: &Shape, log: &Arc<Log>) -> Dispatch {
    match shape {
        Shape::Tree(n) => Dispatch::new(Registry::default().with(build::<C0>(n, log))),
        Shape::List(v) => {
            let c0: C0 = Registry::default();
            let c1: C1 = c0.with(build::<C0>(&v[0], log));
            if v.len() == 1 {
                return Dispatch::new(c1);
            }
            let c2: C2 = c1.with(build::<C1>(&v[1], log));
            if v.len() == 2 {
                return Dispatch::new(c2);
            }
            let c3: C3 = c2.with(build::<C2>(&v[2], log));
            if v.len() == 3 {
                return Dispatch::new(c3);
            }
            let c4: C4 = c3.with(build::<C3>(&v[3], log));
            if v.len() == 4 {
                return Dispatch::new(c4);
            }
            let c5: C5 = c4.with(build::<C4>(&v[4], log));
            Dispatch::new(c5)
        }
    }
}

// ---------------------------------------------------------------------------------------------
// a small local pool of named span callsites (the vcs pool names every span "sp")

struct NCs {
    level: usize,
    target: usize,
    name: usize,
    emit: fn(u64) -> Span,
}
macro_rules! nspans {
    ($name:literal, $ni:expr, $t:literal, $ti:expr) => {
        [
            NCs { level: 1, target: $ti, name: $ni, emit: |id: u64| tracing::span!(target: $t, tracing::Level::ERROR, $name, id) },
            NCs { level: 2, target: $ti, name: $ni, emit: |id: u64| tracing::span!(target: $t, tracing::Level::WARN, $name, id) },
            NCs { level: 3, target: $ti, name: $ni, emit: |id: u64| tracing::span!(target: $t, tracing::Level::INFO, $name, id) },
            NCs { level: 4, target: $ti, name: $ni, emit: |id: u64| tracing::span!(target: $t, tracing::Level::DEBUG, $name, id) },
            NCs { level: 5, target: $ti, name: $ni, emit: |id: u64| tracing::span!(target: $t, tracing::Level::TRACE, $name, id) },
        ]
    };
}
static NAMED: [[NCs; 5]; 8] = [
    nspans!("alpha", 1, "app", 0),
    nspans!("alpha", 1, "app::db", 1),
    nspans!("alpha", 1, "application", 2),
    nspans!("alpha", 1, "net", 3),
    nspans!("beta", 2, "app", 0),
    nspans!("beta", 2, "app::db", 1),
    nspans!("beta", 2, "application", 2),
    nspans!("beta", 2, "net", 3),
];

#[derive(Clone, Copy)]
enum SpanCs {
    Pool(&'static Cs),
    Named(&'static NCs),
}
impl SpanCs {
    fn meta(self) -> Meta {
        match self {
            SpanCs::Pool(c) => Meta { level: c.level, target: c.target, span: true, name: 0 },
            SpanCs::Named(c) => Meta { level: c.level, target: c.target, span: true, name: c.name },
        }
    }
    fn emit(self, serial: u64) -> Span {
        match self {
            SpanCs::Pool(c) => match (c.emit)(serial) {
                Emitted::Span(s) => s,
                _ => panic!("HARNESS: span callsite returned no span"),
            },
            SpanCs::Named(c) => (c.emit)(serial),
        }
    }
    fn label(self) -> String {
        match self {
            SpanCs::Pool(c) => format!("pool#{}", c.idx),
            SpanCs::Named(c) => format!("named:{}", NAMES[c.name]),
        }
    }
}
