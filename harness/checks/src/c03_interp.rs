// C03 interpreter: random programs over the real `Span` / `Instrumented` API, judged op by op
// against the expected collector calls (included by bin/c03.rs and the Miri/ASan scenario bins).

use std::cell::RefCell;
use std::collections::BTreeMap;
use std::future::Future;
use std::pin::Pin;
use std::sync::{Arc, Mutex};
use std::task::{Context, Poll, Waker};
use tracing::instrument::{WithCollector, WithDispatch};
use tracing::span::EnteredSpan;
use tracing::Span;
use tracing_core::dispatch::{self, DefaultGuard, Dispatch};
use tracing_core::Metadata;
use vcs::{Emitted, Fresh, Kind};
use vlib::proto::{Call, Parent, Proto, SharedProto};
use vlib::Rng;

pub struct H {
    span: Span,
    /// index of the owning ProtoCollector; None = disabled / none / created without a collector
    owner: Option<usize>,
    id: Option<u64>,
}

struct ProbeFut {
    owner: Option<Arc<Proto>>,
    id: Option<u64>,
    log: Arc<Mutex<Vec<(&'static str, bool, Option<u64>)>>>,
    polls_left: usize,
    /// panic (payload 4243u32) in the poll that would have returned Ready
    panics: bool,
}
fn who() -> Option<u64> {
    dispatch::get_default(|d| d.downcast_ref::<SharedProto>().map(|s| s.0.cid))
}
impl ProbeFut {
    fn note(&self, what: &'static str) {
        let entered = match (&self.owner, self.id) {
            (Some(p), Some(id)) => p.entered_here(id),
            _ => false,
        };
        self.log.lock().unwrap().push((what, entered, who()));
    }
}
impl Future for ProbeFut {
    type Output = u32;
    fn poll(mut self: Pin<&mut Self>, _: &mut Context<'_>) -> Poll<u32> {
        self.note("poll");
        if self.polls_left == 0 {
            if self.panics {
                std::panic::panic_any(4243u32);
            }
            Poll::Ready(7)
        } else {
            self.polls_left -= 1;
            Poll::Pending
        }
    }
}
impl Drop for ProbeFut {
    fn drop(&mut self) {
        self.note("drop");
    }
}
impl Clone for ProbeFut {
    fn clone(&self) -> Self {
        ProbeFut {
            owner: self.owner.clone(),
            id: self.id,
            log: self.log.clone(),
            polls_left: self.polls_left,
            panics: self.panics,
        }
    }
}

enum FutKind {
    Std(Box<tracing::instrument::Instrumented<ProbeFut>>),
    Tf(Box<tracing_futures::Instrumented<ProbeFut>>),
    WithC(Box<WithDispatch<ProbeFut>>, usize),
}
struct FutSlot {
    f: FutKind,
    owner: Option<usize>,
    id: Option<u64>,
    log: Arc<Mutex<Vec<(&'static str, bool, Option<u64>)>>>,
    done: bool,
}

thread_local! {
    static GUARDS: RefCell<Vec<(EnteredSpan, Option<usize>, Option<u64>)>> = const { RefCell::new(Vec::new()) };
    static DEFAULTS: RefCell<Vec<(DefaultGuard, Option<usize>)>> = const { RefCell::new(Vec::new()) };
}

pub struct World {
    pub protos: Vec<Arc<Proto>>,
    pub disp: Vec<Dispatch>,
    handles: Vec<Option<H>>,
    futs: Vec<Option<FutSlot>>,
    metas: Vec<&'static Metadata<'static>>,
    pub trace: Vec<String>,
    pub errors: Vec<String>,
    pub stats: BTreeMap<String, u64>,
    pub sigs: Vec<String>,
    rng: Rng,
    fresh: Arc<Fresh>,
    opid: u64,
    reid: bool,
    overlap: bool,
    nthreads: usize,
}

fn cur_default() -> Option<usize> {
    DEFAULTS.with(|d| d.borrow().last().and_then(|x| x.1))
}

impl World {
    pub fn new(seed: u64, idx: u64, fresh: Arc<Fresh>, nthreads: usize) -> World {
        let mut rng = Rng::derive(seed, 0xC03, idx);
        let reid = rng.chance(1, 4);
        // both collectors number their spans 1, 2, 3, ... (as the registry does): handles of
        // different collectors then carry equal numeric ids
        let overlap = rng.chance(1, 3);
        let mut protos = vec![];
        let mut disp = vec![];
        for c in 0..2u64 {
            let thresh = if c == 0 { 3 + rng.usize(3) } else { 1 + rng.usize(5) };
            let p = Proto::new(c + 1, thresh, reid);
            let p = Arc::new(if overlap { p.overlapping() } else { p });
            // as itself, behind Arc, behind Box<dyn Collect>
            disp.push(match rng.below(3) {
                0 => Dispatch::new(SharedProto(p.clone())),
                1 => Dispatch::new(Arc::new(SharedProto(p.clone()))),
                _ => {
                    let b: Box<dyn tracing_core::Collect + Send + Sync> = Box::new(SharedProto(p.clone()));
                    Dispatch::new(b)
                }
            });
            protos.push(p);
        }
        World {
            protos,
            disp,
            handles: vec![],
            futs: vec![],
            metas: vec![],
            trace: vec![],
            errors: vec![],
            stats: BTreeMap::new(),
            sigs: vec![],
            rng,
            fresh,
            opid: 1,
            reid,
            overlap,
            nthreads,
        }
    }
    fn stat(&mut self, k: &str) {
        *self.stats.entry(k.to_string()).or_insert(0) += 1;
    }
    fn err(&mut self, e: String) {
        if self.errors.len() < 8 {
            self.errors.push(format!("after op #{} `{}`: {e}", self.trace.len(), self.trace.last().cloned().unwrap_or_default()));
        }
    }
    fn sig(&mut self, op: &str, owner: Option<usize>, enabled: bool, depth: usize) {
        let rel = match (owner, cur_default()) {
            (None, _) => "nobody",
            (Some(o), Some(d)) if o == d => "own",
            (Some(_), Some(_)) => "foreign",
            (Some(_), None) => "nodefault",
        };
        self.sigs.push(format!(
            "{op}|{rel}|{enabled}|d{}|t{}|reid{}",
            depth.min(2),
            self.nthreads,
            self.reid
        ));
    }
    /// Compare what the collectors logged since the last check with `want` on `owner`.
    /// Returns the observed calls of `owner` (to read back ids allotted by clone_span).
    fn expect(&mut self, owner: Option<usize>, want: &[Call]) -> Vec<Call> {
        let me = std::thread::current().id();
        let mut got_owner = vec![];
        for c in 0..self.protos.len() {
            let log = self.protos[c].take_log();
            let errs = self.protos[c].take_errors();
            for e in errs {
                self.err(format!("collector {}: {e}", c + 1));
            }
            if Some(c) == owner {
                for (t, call) in &log {
                    if *t != me {
                        self.err(format!("collector {} saw {call:?} on thread {t:?}, the operation ran on {me:?}", c + 1));
                    }
                }
                got_owner = log.into_iter().map(|x| x.1).collect();
            } else if !log.is_empty() {
                self.err(format!(
                    "collector {} (not the span's creator) received {:?}",
                    c + 1,
                    log.iter().map(|x| &x.1).collect::<Vec<_>>()
                ));
            }
        }
        let same = got_owner.len() == want.len()
            && got_owner.iter().zip(want).all(|(g, w)| match (g, w) {
                (Call::Clone { id: a, .. }, Call::Clone { id: b, .. }) => a == b,
                (a, b) => a == b,
            });
        if !same {
            self.err(format!(
                "creating collector {:?} received {:?}, expected {:?}",
                owner.map(|o| o + 1),
                got_owner,
                want
            ));
        }
        got_owner
    }
    fn live_handles(&self) -> Vec<usize> {
        (0..self.handles.len()).filter(|&i| self.handles[i].is_some()).collect()
    }
    fn put(&mut self, h: H) -> usize {
        if let Some(m) = h.span.metadata() {
            if self.metas.len() < 16 {
                self.metas.push(m);
            }
        }
        self.handles.push(Some(h));
        self.handles.len() - 1
    }

    /// One random operation on the calling thread.
    pub fn step(&mut self, depth: usize) {
        let live = self.live_handles();
        let nguards = GUARDS.with(|g| g.borrow().len());
        let livef: Vec<usize> = (0..self.futs.len()).filter(|&i| self.futs[i].is_some()).collect();
        let has = !live.is_empty();
        let deep = depth >= 3;
        let w: [u32; 24] = [
            6,                                          // 0 NewMacro
            if self.metas.is_empty() { 0 } else { 4 },  // 1 NewApi
            1,                                          // 2 NewNone
            if has { 5 } else { 0 },                    // 3 Clone
            if has { 5 } else { 0 },                    // 4 Drop
            if has && !deep { 4 } else { 0 },           // 5 EnterScope
            if has && nguards < 4 { 3 } else { 0 },     // 6 Entered
            if nguards > 0 { 2 } else { 0 },            // 7 GuardExit
            if nguards > 0 { 2 } else { 0 },            // 8 GuardDrop
            if has && !deep { 3 } else { 0 },           // 9 InScope
            if has { 3 } else { 0 },                    // 10 Record
            if has { 2 } else { 0 },                    // 11 Follows
            3,                                          // 12 Current
            if has { 2 } else { 0 },                    // 13 OrCurrent
            if !deep { 3 } else { 0 },                  // 14 WithDefault
            if livef.len() < 4 { 3 } else { 0 },        // 15 MakeFut
            if livef.is_empty() { 0 } else { 5 },       // 16 PollFut
            if livef.is_empty() { 0 } else { 2 },       // 17 DropFut
            if livef.is_empty() { 0 } else { 1 },       // 18 IntoInner
            if livef.is_empty() || livef.len() >= 4 { 0 } else { 1 }, // 19 CloneFut
            if has { 2 } else { 0 },                    // 20 in_scope / enter guard unwound by a caught panic
            if live.len() >= 2 { 3 } else { 0 },        // 21 CloneFrom
            if has { 2 } else { 0 },                    // 22 handle dropped by a panic's unwinding
            if self.nthreads == 1 { 2 } else { 0 },     // 23 a collector changes its filter (+ hint), interest cache rebuilt
        ];
        let op = self.rng.weighted(&w);
        let opid = self.opid;
        self.opid += 1;
        let t = std::thread::current().name().unwrap_or("?").to_string();
        let dflt = cur_default();
        match op {
            0 => {
                let level = 1 + self.rng.usize(5);
                // a third of the macro spans go through the macro's explicit-parent arm
                let root = self.rng.chance(1, 3);
                let tgt = self.rng.usize(4);
                let cs = match if root { self.fresh.take_root_span(level, tgt) } else { self.fresh.take(level, tgt, Kind::Span) } {
                    Some(c) => c,
                    None => return,
                };
                let span = match (cs.emit)(opid) {
                    Emitted::Span(s) => s,
                    _ => unreachable!(),
                };
                let accepted = dflt.map(|d| level <= self.protos[d].thresh()).unwrap_or(false);
                let want_parent = if root { Parent::Root } else { Parent::Contextual };
                self.trace.push(format!("[{t}] h{} = span!({}{}) under default {:?}", self.handles.len(), if root { "parent: None, " } else { "" }, vcs::LEVEL_NAMES[level], dflt.map(|d| d + 1)));
                self.sig(if root { "new_macro_root" } else { "new_macro" }, if accepted { dflt } else { None }, accepted, depth);
                if accepted {
                    let got = self.expect(dflt, &[Call::New { id: 0, parent: Parent::Contextual }][..0]);
                    // exactly one New with the parent the macro form names
                    let id = match got.as_slice() {
                        [Call::New { id, parent }] if *parent == want_parent => Some(*id),
                        other => {
                            self.err(format!("span! under an accepting collector produced {other:?}, expected exactly one new_span({want_parent:?})"));
                            None
                        }
                    };
                    self.errors.retain(|e| !e.contains("expected []") || id.is_none());
                    if span.is_disabled() {
                        self.err("span! returned a disabled handle although the current collector accepts it".into());
                    }
                    self.stat("spans_created");
                    self.put(H { span, owner: dflt, id });
                } else {
                    self.expect(None, &[]);
                    if dflt.is_some() && !span.is_disabled() {
                        self.err("span! returned an enabled handle although the current collector rejects it".into());
                    }
                    self.stat("spans_disabled");
                    self.put(H { span, owner: None, id: None });
                }
            }
            1 => {
                let mut meta = *self.rng.pick(&self.metas);
                // overlapping id spaces: when the id this collector hands out next is carried by a
                // live handle of the other collector, reuse that handle's callsite half of the time,
                // so that handles equal in (callsite, numeric id) but not in collector exist
                if let (true, Some(d)) = (self.overlap, dflt) {
                    let next = self.protos[d].peek_next();
                    let twin = live.iter().filter_map(|&i| self.handles[i].as_ref()).find(|x| x.owner.is_some() && x.owner != Some(d) && x.id == Some(next)).and_then(|x| x.span.metadata());
                    if let (Some(m), true) = (twin, self.rng.bool()) {
                        meta = m;
                        self.stat("spans_created_as_twin_of_another_collectors_span");
                    }
                }
                let fs = meta.fields();
                let f = fs.field("id").expect("HARNESS: pool spans have an id field");
                let v = opid;
                let vals = [(&f, Some(&v as &dyn tracing::field::Value))];
                let vs = fs.value_set(&vals);
                let kind = self.rng.below(3);
                let (span, parent, desc) = match kind {
                    0 => (Span::new(meta, &vs), Parent::Contextual, "Span::new".to_string()),
                    1 => (Span::new_root(meta, &vs), Parent::Root, "Span::new_root".to_string()),
                    _ => {
                        let cands: Vec<usize> = live.iter().copied().filter(|&i| self.handles[i].as_ref().unwrap().id.is_some()).collect();
                        if cands.is_empty() {
                            (Span::new_root(meta, &vs), Parent::Root, "Span::new_root".to_string())
                        } else {
                            let p = *self.rng.pick(&cands);
                            let pid = self.handles[p].as_ref().unwrap().id.unwrap();
                            let pspan = &self.handles[p].as_ref().unwrap().span;
                            (Span::child_of(pspan, meta, &vs), Parent::Explicit(pid), format!("Span::child_of(h{p})"))
                        }
                    }
                };
                self.trace.push(format!("[{t}] h{} = {desc} under default {:?}", self.handles.len(), dflt.map(|d| d + 1)));
                self.sig("new_api", dflt, true, depth);
                match dflt {
                    Some(d) => {
                        let got = self.expect(Some(d), &[Call::New { id: 0, parent: parent.clone() }][..0]);
                        let id = match got.as_slice() {
                            [Call::New { id, parent: p }] if *p == parent => Some(*id),
                            other => {
                                self.err(format!("{desc} produced {other:?}, expected exactly one new_span({parent:?})"));
                                None
                            }
                        };
                        self.errors.retain(|e| !e.contains("expected []") || id.is_none());
                        self.stat("spans_created");
                        self.put(H { span, owner: Some(d), id });
                    }
                    None => {
                        self.expect(None, &[]);
                        self.put(H { span, owner: None, id: None });
                    }
                }
            }
            2 => {
                self.trace.push(format!("[{t}] h{} = Span::none()", self.handles.len()));
                self.put(H { span: Span::none(), owner: None, id: None });
                self.expect(None, &[]);
            }
            3 => {
                let h = *self.rng.pick(&live);
                self.trace.push(format!("[{t}] h{} = h{h}.clone()", self.handles.len()));
                let (owner, id) = { let x = self.handles[h].as_ref().unwrap(); (x.owner, x.id) };
                let span = self.handles[h].as_ref().unwrap().span.clone();
                self.sig("clone", owner, id.is_some(), depth);
                let nid = match (owner, id) {
                    (Some(_), Some(id)) => {
                        let got = self.expect(owner, &[Call::Clone { id, new: 0 }]);
                        self.stat("clones");
                        match got.as_slice() { [Call::Clone { new, .. }] => Some(*new), _ => Some(id) }
                    }
                    _ => { self.expect(None, &[]); None }
                };
                self.put(H { span, owner, id: nid });
            }
            4 => {
                let h = *self.rng.pick(&live);
                self.trace.push(format!("[{t}] drop(h{h})"));
                let x = self.handles[h].take().unwrap();
                let (owner, id) = (x.owner, x.id);
                drop(x);
                self.sig("drop", owner, id.is_some(), depth);
                match (owner, id) {
                    (Some(_), Some(id)) => { self.expect(owner, &[Call::Close { id }]); self.stat("handle_drops"); }
                    _ => { self.expect(None, &[]); }
                }
            }
            5 | 9 => {
                let h = *self.rng.pick(&live);
                let x = self.handles[h].take().unwrap();
                let (owner, id) = (x.owner, x.id);
                let n = 1 + self.rng.usize(3);
                let name = if op == 5 { "enter" } else { "in_scope" };
                self.trace.push(format!("[{t}] h{h}.{name} {{"));
                self.sig(name, owner, id.is_some(), depth);
                let want_in: Vec<Call> = id.filter(|_| owner.is_some()).map(|id| vec![Call::Enter { id }]).unwrap_or_default();
                let want_out: Vec<Call> = id.filter(|_| owner.is_some()).map(|id| vec![Call::Exit { id }]).unwrap_or_default();
                let eo = if want_in.is_empty() { None } else { owner };
                if op == 5 {
                    let g = x.span.enter();
                    self.expect(eo, &want_in);
                    for _ in 0..n { self.step(depth + 1); }
                    self.trace.push(format!("[{t}] }} // drop guard of h{h}"));
                    drop(g);
                    self.expect(eo, &want_out);
                } else {
                    // in_scope: the closure runs between enter and exit
                    let mut entered_ok = None;
                    x.span.in_scope(|| {
                        entered_ok = Some(self.expect(eo, &want_in).len());
                        for _ in 0..n { self.step(depth + 1); }
                        self.trace.push(format!("[{t}] }} // end in_scope of h{h}"));
                    });
                    self.expect(eo, &want_out);
                    let _ = entered_ok;
                }
                if !want_in.is_empty() { self.stat("enters"); }
                self.handles[h] = Some(x);
            }
            6 => {
                let h = *self.rng.pick(&live);
                self.trace.push(format!("[{t}] g = h{h}.entered()"));
                let x = self.handles[h].take().unwrap();
                let (owner, id) = (x.owner, x.id);
                self.sig("entered", owner, id.is_some(), depth);
                let g = x.span.entered();
                match (owner, id) {
                    (Some(_), Some(id)) => { self.expect(owner, &[Call::Enter { id }]); self.stat("enters"); }
                    _ => { self.expect(None, &[]); }
                }
                GUARDS.with(|gs| gs.borrow_mut().push((g, owner, id)));
            }
            7 | 8 => {
                let k = self.rng.usize(nguards);
                let (g, owner, id) = GUARDS.with(|gs| gs.borrow_mut().remove(k));
                self.sig(if op == 7 { "guard_exit" } else { "guard_drop" }, owner, id.is_some(), depth);
                if op == 7 {
                    self.trace.push(format!("[{t}] h{} = guard[{k}].exit()", self.handles.len()));
                    let span = g.exit();
                    match (owner, id) {
                        (Some(_), Some(id)) => { self.expect(owner, &[Call::Exit { id }]); }
                        _ => { self.expect(None, &[]); }
                    }
                    self.put(H { span, owner, id });
                } else {
                    self.trace.push(format!("[{t}] drop(guard[{k}])"));
                    drop(g);
                    match (owner, id) {
                        (Some(_), Some(id)) => { self.expect(owner, &[Call::Exit { id }, Call::Close { id }]); self.stat("handle_drops"); }
                        _ => { self.expect(None, &[]); }
                    }
                }
            }
            10 => {
                let h = *self.rng.pick(&live);
                let declared = self.rng.chance(3, 4);
                self.trace.push(format!("[{t}] h{h}.record({})", if declared { "id" } else { "undeclared" }));
                let (owner, id) = { let x = self.handles[h].as_ref().unwrap(); (x.owner, x.id) };
                if declared {
                    self.handles[h].as_ref().unwrap().span.record("id", opid);
                } else {
                    self.handles[h].as_ref().unwrap().span.record("no_such_field", opid);
                }
                self.sig("record", owner, id.is_some(), depth);
                match (owner, id, declared) {
                    (Some(_), Some(id), true) => { self.expect(owner, &[Call::Record { id }]); self.stat("records"); }
                    _ => { self.expect(None, &[]); }
                }
            }
            11 => {
                let h = *self.rng.pick(&live);
                let f = *self.rng.pick(&live);
                self.trace.push(format!("[{t}] h{h}.follows_from(h{f})"));
                let (owner, id) = { let x = self.handles[h].as_ref().unwrap(); (x.owner, x.id) };
                let fid = self.handles[f].as_ref().unwrap().span.id().map(|i| i.into_u64());
                let fown = self.handles[f].as_ref().unwrap().owner;
                {
                    let a = &self.handles[h].as_ref().unwrap().span;
                    let b = &self.handles[f].as_ref().unwrap().span;
                    a.follows_from(b);
                }
                self.sig("follows_from", owner, id.is_some(), depth);
                match (owner, id, fid) {
                    // (a handle created without any collector carries the no-op collector's id)
                    (Some(_), Some(id), Some(from)) => {
                        let _ = fown;
                        self.expect(owner, &[Call::Follows { id, from }]);
                        self.stat("follows");
                    }
                    _ => { self.expect(None, &[]); }
                }
            }
            12 | 13 => {
                let top = dflt.and_then(|d| self.protos[d].stack_here().last().copied());
                if op == 13 {
                    let h = *self.rng.pick(&live);
                    let x = self.handles[h].take().unwrap();
                    let was_disabled = x.span.is_disabled();
                    self.trace.push(format!("[{t}] h{h} = h{h}.or_current() [disabled={was_disabled}] under default {:?}", dflt.map(|d| d + 1)));
                    let (owner, id) = (x.owner, x.id);
                    let span = x.span.or_current();
                    self.sig("or_current", owner, !was_disabled, depth);
                    if !was_disabled {
                        self.expect(None, &[]);
                        self.handles[h] = Some(H { span, owner, id });
                    } else {
                        match top {
                            Some(tid) => {
                                let got = self.expect(dflt, &[Call::Clone { id: tid, new: 0 }]);
                                let nid = match got.as_slice() { [Call::Clone { new, .. }] => *new, _ => tid };
                                self.stat("current_captures");
                                self.handles[h] = Some(H { span, owner: dflt, id: Some(nid) });
                            }
                            None => { self.expect(None, &[]); self.handles[h] = Some(H { span, owner: None, id: None }); }
                        }
                    }
                } else {
                    self.trace.push(format!("[{t}] h{} = Span::current() under default {:?}", self.handles.len(), dflt.map(|d| d + 1)));
                    let span = Span::current();
                    self.sig("current", dflt, top.is_some(), depth);
                    match top {
                        Some(tid) => {
                            let got = self.expect(dflt, &[Call::Clone { id: tid, new: 0 }]);
                            let nid = match got.as_slice() { [Call::Clone { new, .. }] => *new, _ => tid };
                            self.stat("current_captures");
                            self.put(H { span, owner: dflt, id: Some(nid) });
                        }
                        None => {
                            self.expect(None, &[]);
                            if !span.is_none() && dflt.is_some() {
                                self.err("Span::current() is not none although the current collector has no current span".into());
                            }
                            self.put(H { span, owner: None, id: None });
                        }
                    }
                }
            }
            14 => {
                let k = self.rng.usize(3);
                let n = 1 + self.rng.usize(4);
                self.trace.push(format!("[{t}] with default {} {{", if k < 2 { format!("{}", k + 1) } else { "none".into() }));
                let g = if k < 2 { dispatch::set_default(&self.disp[k]) } else { dispatch::set_default(&Dispatch::none()) };
                DEFAULTS.with(|d| d.borrow_mut().push((g, if k < 2 { Some(k) } else { None })));
                self.expect(None, &[]);
                for _ in 0..n { self.step(depth + 1); }
                let g = DEFAULTS.with(|d| d.borrow_mut().pop());
                drop(g);
                self.trace.push(format!("[{t}] }} // end default"));
                self.expect(None, &[]);
            }
            15 => {
                let log = Arc::new(Mutex::new(vec![]));
                let polls = self.rng.usize(3);
                let kind = self.rng.below(4);
                if kind == 3 {
                    let k = self.rng.usize(2);
                    self.trace.push(format!("[{t}] f{} = fut.with_collector({})", self.futs.len(), k + 1));
                    let f = ProbeFut { owner: None, id: None, log: log.clone(), polls_left: polls, panics: false }.with_collector(self.disp[k].clone());
                    self.futs.push(Some(FutSlot { f: FutKind::WithC(Box::new(f), k), owner: None, id: None, log, done: false }));
                    self.expect(None, &[]);
                    return;
                }
                // span source: an existing handle (moved in) or in_current_span
                let (span, owner, id, desc) = if has && self.rng.chance(3, 4) {
                    let h = *self.rng.pick(&live);
                    let x = self.handles[h].take().unwrap();
                    self.expect(None, &[]);
                    (x.span, x.owner, x.id, format!("instrument(h{h})"))
                } else {
                    let top = dflt.and_then(|d| self.protos[d].stack_here().last().copied());
                    let s = Span::current();
                    match top {
                        Some(tid) => {
                            let got = self.expect(dflt, &[Call::Clone { id: tid, new: 0 }]);
                            let nid = match got.as_slice() { [Call::Clone { new, .. }] => *new, _ => tid };
                            (s, dflt, Some(nid), "in_current_span()".to_string())
                        }
                        None => { self.expect(None, &[]); (s, None, None, "in_current_span()".to_string()) }
                    }
                };
                self.trace.push(format!("[{t}] f{} = fut.{desc} [{}]", self.futs.len(), if kind == 2 { "tracing-futures" } else { "tracing" }));
                let panics = self.rng.chance(1, 6);
                let probe = ProbeFut { owner: owner.map(|o| self.protos[o].clone()), id, log: log.clone(), polls_left: polls, panics };
                let f = if kind == 2 {
                    FutKind::Tf(Box::new(tracing_futures::Instrument::instrument(probe, span)))
                } else {
                    FutKind::Std(Box::new(tracing::Instrument::instrument(probe, span)))
                };
                self.sig("make_fut", owner, id.is_some(), depth);
                self.futs.push(Some(FutSlot { f, owner, id, log, done: false }));
                self.expect(None, &[]);
            }
            16 => {
                let fi = *self.rng.pick(&livef);
                let mut slot = self.futs[fi].take().unwrap();
                if slot.done {
                    self.futs[fi] = Some(slot);
                    return;
                }
                self.trace.push(format!("[{t}] poll(f{fi})"));
                let waker = Waker::noop();
                let mut cx = Context::from_waker(waker);
                slot.log.lock().unwrap().clear();
                let r = std::panic::catch_unwind(std::panic::AssertUnwindSafe(|| match &mut slot.f {
                    FutKind::Std(b) => Pin::new(&mut **b).poll(&mut cx),
                    FutKind::Tf(b) => Pin::new(&mut **b).poll(&mut cx),
                    FutKind::WithC(b, _) => Pin::new(&mut **b).poll(&mut cx),
                }));
                let r = match r {
                    Ok(r) => r,
                    Err(p) => {
                        // the inner future panicked (on purpose): the span must have been exited
                        // while unwinding; the future is finished as far as the interpreter goes
                        if p.downcast_ref::<u32>() != Some(&4243) {
                            self.err(format!("unexpected panic while polling: {}", vlib::run::panic_msg(&p)));
                        }
                        self.stat("polls_that_panicked");
                        self.trace.push(format!("[{t}]   (the inner future panicked in this poll; caught)"));
                        Poll::Ready(0)
                    }
                };
                if r.is_ready() { slot.done = true; }
                let plog = slot.log.lock().unwrap().clone();
                self.sig("poll", slot.owner, slot.id.is_some(), depth);
                match &slot.f {
                    FutKind::WithC(_, k) => {
                        self.expect(None, &[]);
                        if plog != vec![("poll", false, Some(*k as u64 + 1))] {
                            self.err(format!("with_collector future: inner poll observed {plog:?}, expected the default collector to be {}", k + 1));
                        }
                        if cur_default() != dflt || who() != dflt.map(|d| d as u64 + 1) {
                            self.err("with_collector poll did not restore the thread's default".into());
                        }
                    }
                    _ => match (slot.owner, slot.id) {
                        (Some(_), Some(id)) => {
                            self.expect(slot.owner, &[Call::Enter { id }, Call::Exit { id }]);
                            if plog.len() != 1 || plog[0].0 != "poll" || !plog[0].1 {
                                self.err(format!("Instrumented::poll: inner future polled {plog:?}, expected exactly one poll inside the span"));
                            }
                            self.stat("instrumented_polls");
                        }
                        _ => { self.expect(None, &[]); }
                    },
                }
                self.futs[fi] = Some(slot);
            }
            17 => {
                let fi = *self.rng.pick(&livef);
                let slot = self.futs[fi].take().unwrap();
                self.trace.push(format!("[{t}] drop(f{fi}) [done={}]", slot.done));
                slot.log.lock().unwrap().clear();
                let FutSlot { f, owner, id, log, .. } = slot;
                let is_with = matches!(f, FutKind::WithC(..));
                drop(f);
                let plog = log.lock().unwrap().clone();
                self.sig("drop_fut", owner, id.is_some(), depth);
                match (owner, id, is_with) {
                    (Some(_), Some(id), false) => {
                        self.expect(owner, &[Call::Enter { id }, Call::Exit { id }, Call::Close { id }]);
                        if plog.len() != 1 || plog[0].0 != "drop" || !plog[0].1 {
                            self.err(format!("dropping an Instrumented future: inner drop observed {plog:?}, expected one drop inside the span"));
                        }
                        self.stat("instrumented_drops");
                        self.stat("handle_drops");
                    }
                    _ => { self.expect(None, &[]); }
                }
            }
            18 => {
                let fi = *self.rng.pick(&livef);
                let slot = self.futs[fi].take().unwrap();
                self.trace.push(format!("[{t}] f{fi}.into_inner()"));
                let FutSlot { f, owner, id, .. } = slot;
                match f {
                    FutKind::Std(b) => { let inner = (*b).into_inner(); drop(inner); }
                    FutKind::Tf(b) => { let inner = (*b).into_inner(); drop(inner); }
                    FutKind::WithC(b, _) => { let inner = (*b).into_inner(); drop(inner); }
                }
                self.sig("into_inner", owner, id.is_some(), depth);
                match (owner, id) {
                    (Some(_), Some(id)) => { self.expect(owner, &[Call::Close { id }]); self.stat("handle_drops"); }
                    _ => { self.expect(None, &[]); }
                }
            }
            19 => {
                let fi = *self.rng.pick(&livef);
                let slot = self.futs[fi].as_ref().unwrap();
                let (owner, id, done, log) = (slot.owner, slot.id, slot.done, slot.log.clone());
                let nf = match &slot.f {
                    FutKind::Std(b) => FutKind::Std(Box::new((**b).clone())),
                    _ => return,
                };
                self.trace.push(format!("[{t}] f{} = f{fi}.clone()", self.futs.len()));
                self.sig("clone_fut", owner, id.is_some(), depth);
                let nid = match (owner, id) {
                    (Some(_), Some(id)) => {
                        let got = self.expect(owner, &[Call::Clone { id, new: 0 }]);
                        self.stat("clones");
                        match got.as_slice() { [Call::Clone { new, .. }] => Some(*new), _ => Some(id) }
                    }
                    _ => { self.expect(None, &[]); None }
                };
                // the cloned inner probe keeps the original id for its "entered" test (same base span)
                self.futs.push(Some(FutSlot { f: nf, owner, id: nid, log, done }));
            }
            20 => {
                let h = *self.rng.pick(&live);
                let x = self.handles[h].take().unwrap();
                let (owner, id) = (x.owner, x.id);
                let via_guard = self.rng.bool();
                self.trace.push(format!("[{t}] catch_unwind(h{h}.{} {{ panic }})", if via_guard { "enter()" } else { "in_scope" }));
                self.sig(if via_guard { "enter_unwound" } else { "in_scope_unwound" }, owner, id.is_some(), depth);
                let r = std::panic::catch_unwind(std::panic::AssertUnwindSafe(|| {
                    if via_guard {
                        let _g = x.span.enter();
                        std::panic::panic_any(4244u32);
                    } else {
                        x.span.in_scope(|| std::panic::panic_any(4244u32))
                    }
                }));
                match r {
                    Err(p) if p.downcast_ref::<u32>() == Some(&4244) => {}
                    Err(p) => self.err(format!("unexpected panic payload: {}", vlib::run::panic_msg(&p))),
                    Ok(()) => self.err("the panic inside the span scope was swallowed".into()),
                }
                // the enter must be matched by an exit on this thread although the scope unwound
                match (owner, id) {
                    (Some(_), Some(id)) => { self.expect(owner, &[Call::Enter { id }, Call::Exit { id }]); self.stat("scopes_unwound_by_a_panic"); }
                    _ => { self.expect(None, &[]); }
                }
                self.handles[h] = Some(x);
            }
            21 => {
                // dst.clone_from(&src): `*dst = src.clone()` - one clone notification to src's
                // collector, then one close notification for the handle dst used to be, to ITS
                // collector; directly or through a container whose clone_from forwards to it
                let same_key = |a: &H, b: &H| a.owner.is_some() && b.owner.is_some() && a.owner != b.owner && a.id == b.id
                    && a.span.metadata().map(|m| m.callsite()) == b.span.metadata().map(|m| m.callsite());
                let mut twins = vec![];
                for &i in &live {
                    for &j in &live {
                        if i != j && same_key(self.handles[i].as_ref().unwrap(), self.handles[j].as_ref().unwrap()) {
                            twins.push((i, j));
                        }
                    }
                }
                let (hd, hs) = if !twins.is_empty() && self.rng.chance(2, 3) {
                    *self.rng.pick(&twins)
                } else {
                    let hd = *self.rng.pick(&live);
                    let rest: Vec<usize> = live.iter().copied().filter(|&x| x != hd).collect();
                    (hd, *self.rng.pick(&rest))
                };
                let via = self.rng.below(3);
                let mut dst = self.handles[hd].take().unwrap();
                let src = self.handles[hs].take().unwrap();
                let twin = same_key(&dst, &src);
                self.trace.push(format!(
                    "[{t}] {}{}",
                    match via { 0 => format!("h{hd}.clone_from(&h{hs})"), 1 => format!("Some(h{hd}).clone_from(&Some(h{hs}))"), _ => format!("vec![h{hd}].clone_from(&vec![h{hs}])") },
                    if twin { " [different collectors, same callsite, same numeric id]" } else { "" }
                ));
                let (downer, did) = (dst.owner, dst.id);
                let (sowner, sid) = (src.owner, src.id);
                let (dspan, sspan) = match via {
                    0 => {
                        dst.span.clone_from(&src.span);
                        (dst.span, src.span)
                    }
                    1 => {
                        let mut a = Some(dst.span);
                        let b = Some(src.span);
                        a.clone_from(&b);
                        (a.unwrap(), b.unwrap())
                    }
                    _ => {
                        let mut a = vec![dst.span];
                        let b = vec![src.span];
                        a.clone_from(&b);
                        (a.pop().unwrap(), { let mut b = b; b.pop().unwrap() })
                    }
                };
                self.sig(if twin { "clone_from_twin" } else { "clone_from" }, sowner.or(downer), sid.is_some() || did.is_some(), depth);
                self.stat("clone_froms");
                if twin {
                    self.stat("clone_froms_between_equal_ids_of_different_collectors");
                }
                // handles of one span (same collector, same base id): the round trip may be elided
                let same_span = match (downer, did, sowner, sid) {
                    (Some(a), Some(x), Some(b), Some(y)) => a == b && self.protos[a].base_of(x) == self.protos[a].base_of(y),
                    _ => false,
                };
                let me = std::thread::current().id();
                let mut new_id = sid;
                for c in 0..self.protos.len() {
                    let log = self.protos[c].take_log();
                    for e in self.protos[c].take_errors() {
                        self.err(format!("collector {}: {e}", c + 1));
                    }
                    for (th, call) in &log {
                        if *th != me {
                            self.err(format!("collector {} saw {call:?} on thread {th:?}, the operation ran on {me:?}", c + 1));
                        }
                    }
                    let got: Vec<Call> = log.into_iter().map(|x| x.1).collect();
                    let mut want = vec![];
                    if let (Some(o), Some(id)) = (sowner, sid) {
                        if o == c {
                            want.push(Call::Clone { id, new: 0 });
                        }
                    }
                    if let (Some(o), Some(id)) = (downer, did) {
                        if o == c {
                            want.push(Call::Close { id });
                        }
                    }
                    let same = got.len() == want.len()
                        && got.iter().zip(&want).all(|(g, w)| match (g, w) {
                            (Call::Clone { id: a, .. }, Call::Clone { id: b, .. }) => a == b,
                            (a, b) => a == b,
                        });
                    if same {
                        if let Some(Call::Clone { new, .. }) = got.first() {
                            new_id = Some(*new);
                        }
                    } else if same_span && got.is_empty() {
                        // elided: dst keeps its own id
                        new_id = did;
                    } else {
                        self.err(format!("clone_from: collector {} received {got:?}, expected {want:?}", c + 1));
                    }
                }
                self.handles[hd] = Some(H { span: dspan, owner: sowner, id: new_id });
                self.handles[hs] = Some(H { span: sspan, owner: sowner, id: sid });
            }
            22 => {
                // the frame that owns the handle is unwound by a panic (caught further up): the
                // handle's drop is a drop like any other - one close notification
                let h = *self.rng.pick(&live);
                let x = self.handles[h].take().unwrap();
                let (owner, id) = (x.owner, x.id);
                let entered = self.rng.bool();
                self.trace.push(format!("[{t}] catch_unwind(move || {{ let _owned = h{h};{} panic }})", if entered { " let _g = _owned.enter();" } else { "" }));
                self.sig(if entered { "drop_by_unwind_entered" } else { "drop_by_unwind" }, owner, id.is_some(), depth);
                let r = std::panic::catch_unwind(std::panic::AssertUnwindSafe(move || {
                    let owned = x.span;
                    if entered {
                        let _g = owned.enter();
                        std::panic::panic_any(4246u32);
                    } else {
                        std::panic::panic_any(4246u32);
                    }
                }));
                match r {
                    Err(p) if p.downcast_ref::<u32>() == Some(&4246) => {}
                    Err(p) => self.err(format!("unexpected panic payload: {}", vlib::run::panic_msg(&p))),
                    Ok(()) => self.err("the panic was swallowed".into()),
                }
                match (owner, id) {
                    (Some(_), Some(id)) => {
                        if entered {
                            self.expect(owner, &[Call::Enter { id }, Call::Exit { id }, Call::Close { id }]);
                        } else {
                            self.expect(owner, &[Call::Close { id }]);
                        }
                        self.stat("handles_dropped_by_unwinding");
                    }
                    _ => { self.expect(None, &[]); }
                }
            }
            23 => {
                // a collector lowers / raises its level filter at run time and announces it as its
                // max-level hint (or stops announcing one), then the interest cache is rebuilt -
                // what a reload does.  Spans it accepted earlier keep their full protocol.
                let c = self.rng.usize(self.protos.len());
                let nt = 1 + self.rng.usize(5);
                let hint = self.rng.chance(2, 3);
                self.trace.push(format!("[{t}] collector {} now accepts level <= {} (max_level_hint: {}); rebuild_interest_cache()", c + 1, vcs::LEVEL_NAMES[nt], if hint { "that level" } else { "None" }));
                self.protos[c].refilter(nt, hint);
                tracing_core::callsite::rebuild_interest_cache();
                self.stat("filter_changes_at_run_time");
                self.expect(None, &[]);
            }
            _ => unreachable!(),
        }
    }

    /// Drop everything owned by the calling thread's guard list.
    pub fn unwind_thread(&mut self) {
        loop {
            let g = GUARDS.with(|gs| gs.borrow_mut().pop());
            let Some((g, owner, id)) = g else { break };
            self.trace.push("drop(guard) [end of program]".into());
            drop(g);
            match (owner, id) {
                (Some(_), Some(id)) => { self.expect(owner, &[Call::Exit { id }, Call::Close { id }]); }
                _ => { self.expect(None, &[]); }
            }
        }
    }
    /// Drop all futures and handles; then every span must be closed and the counts balance.
    pub fn finish(&mut self) {
        for i in 0..self.futs.len() {
            if let Some(slot) = self.futs[i].take() {
                self.trace.push(format!("drop(f{i}) [end of program]"));
                let FutSlot { f, owner, id, .. } = slot;
                let is_with = matches!(f, FutKind::WithC(..));
                drop(f);
                match (owner, id, is_with) {
                    (Some(_), Some(id), false) => { self.expect(owner, &[Call::Enter { id }, Call::Exit { id }, Call::Close { id }]); }
                    _ => { self.expect(None, &[]); }
                }
            }
        }
        for i in 0..self.handles.len() {
            if let Some(x) = self.handles[i].take() {
                self.trace.push(format!("drop(h{i}) [end of program]"));
                let (owner, id) = (x.owner, x.id);
                drop(x);
                match (owner, id) {
                    (Some(_), Some(id)) => { self.expect(owner, &[Call::Close { id }]); }
                    _ => { self.expect(None, &[]); }
                }
            }
        }
        for c in 0..self.protos.len() {
            let (news, clones, closes, open) = self.protos[c].totals();
            if open != 0 || closes != news + clones {
                let o = self.protos[c].open_spans();
                self.err(format!(
                    "end of program, every handle dropped: collector {} saw {news} creations + {clones} clones but {closes} close notifications; still open: {o:x?}",
                    c + 1
                ));
            }
        }
    }
}

pub struct Outcome {
    pub trace: Vec<String>,
    pub errors: Vec<String>,
    pub stats: BTreeMap<String, u64>,
    pub sigs: Vec<String>,
    pub ops: u64,
}

/// Run one program (sequentially over `nthreads` worker threads).
pub fn run_program(seed: u64, idx: u64, fresh: Arc<Fresh>, max_ops: usize) -> Outcome {
    let mut r0 = Rng::derive(seed, 0xC03A, idx);
    let nthreads = 1 + r0.usize(3);
    let world = Arc::new(Mutex::new(World::new(seed, idx, fresh, nthreads)));
    let workers = vlib::exec::Workers::new(nthreads);
    // initial default per thread: collector 1 / collector 2 / none
    for t in 0..nthreads {
        let k = r0.usize(3);
        let w = world.clone();
        workers
            .run(t, move || {
                let mut w = w.lock().unwrap();
                let d = if k < 2 { w.disp[k].clone() } else { Dispatch::none() };
                let g = dispatch::set_default(&d);
                DEFAULTS.with(|ds| ds.borrow_mut().push((g, if k < 2 { Some(k) } else { None })));
                w.trace.push(format!("[w{t}] thread default = {}", if k < 2 { format!("collector {}", k + 1) } else { "none".into() }));
            })
            .expect("HARNESS: setup");
    }
    let nseg = 2 + r0.usize(6);
    let mut panic: Option<String> = None;
    'outer: for _ in 0..nseg {
        let t = r0.usize(nthreads);
        let n = 1 + r0.usize(max_ops / 4 + 1);
        let w = world.clone();
        let r = workers.run(t, move || {
            let mut w = match w.lock() { Ok(g) => g, Err(p) => p.into_inner() };
            for _ in 0..n {
                if !w.errors.is_empty() { break; }
                w.step(0);
            }
        });
        if let Err(p) = r {
            panic = Some(p);
            break 'outer;
        }
        if !world.lock().map(|w| w.errors.is_empty()).unwrap_or(false) {
            break;
        }
    }
    if panic.is_none() {
        for t in 0..nthreads {
            let w = world.clone();
            let _ = workers.run(t, move || {
                let mut w = match w.lock() { Ok(g) => g, Err(p) => p.into_inner() };
                if w.errors.is_empty() { w.unwind_thread(); }
            });
        }
        let w = world.clone();
        let _ = workers.run(0, move || {
            let mut w = match w.lock() { Ok(g) => g, Err(p) => p.into_inner() };
            if w.errors.is_empty() { w.finish(); }
        });
        for t in 0..nthreads {
            let _ = workers.run(t, move || {
                DEFAULTS.with(|ds| { while let Some(g) = ds.borrow_mut().pop() { drop(g); } });
            });
        }
    }
    drop(workers);
    let mut w = match world.lock() { Ok(g) => g, Err(p) => p.into_inner() };
    if let Some(p) = panic {
        w.errors.push(format!("panic while interpreting the program: {p}"));
    }
    Outcome {
        trace: std::mem::take(&mut w.trace),
        errors: std::mem::take(&mut w.errors),
        stats: std::mem::take(&mut w.stats),
        sigs: std::mem::take(&mut w.sigs),
        ops: w.opid - 1,
    }
}
