// C15 part 4: parent / child orchestration, evidence.

fn main() {
    let args = run::parse_args();
    match args.mode.clone() {
        Mode::Parent => parent(&args),
        Mode::Child(kind) => child(&args, &kind),
        Mode::Replay(p) => run::replay(ID, &p),
    }
}

fn parent(args: &Args) {
    let t0 = Instant::now();
    let mut out = Out::new();
    let thorough = args.tier == vlib::Tier::Thorough;
    let shards = args.get_u64("shards", args.tier.pick(32, 160));
    let runs = args.get_u64("runs", args.tier.pick(160, 400));
    if shards > 0 {
        let spec = ChildSpec::new("rand", shards).arg("runs", runs).timeout(args.tier.pick(240, 900));
        let ends = run::run_children(args, &spec, &mut out);
        run::classify_ends(&ends, &mut out, true);
    }
    let eshards = args.get_u64("eshards", args.tier.pick(16, 64));
    if eshards > 0 {
        let spec = ChildSpec::new("enum", eshards).timeout(args.tier.pick(240, 900));
        let ends = run::run_children(args, &spec, &mut out);
        run::classify_ends(&ends, &mut out, true);
    }
    let mut extra = Map::new();
    extra.insert(
        "enumerated_small_runs".into(),
        json!({"space": "2 producers x 3 lines; every subset of size <= k of {6 write ordinals, 4 flush ordinals} failing x 5 drop points x lossy/non-lossy x capacities",
               "k": if thorough { 3 } else { 2 }, "capacities": if thorough { CAPS.to_vec() } else { vec![1, 8] },
               "count": enum_count(thorough)}),
    );
    vlib::sanlayer::run_layers(ID, args, &mut out, &mut extra);
    run::finish(
        Finish {
            id: ID,
            args,
            t0,
            rule: "evaluations = histories judged (one NonBlocking + WorkerGuard + scripted underlying writer each; 1-8 producer threads, \
                   capacity in {1,2,8,64}, lossy/non-lossy, guard dropped before/between/after/after-all-handles/concurrently); \
                   non-trivial = the history exhibited at least one of: counted drops at a full queue, a producer blocked across a gate opening, \
                   an injected write failure hit, an injected flush failure hit, an Interrupted write retried, writes overlapping the guard drop, \
                   a writer stall, a line spread over several underlying write calls, a refused write, F9, F11; \
                   distinct = distinct (capacity, mode, producers, drop point, writer pacing kind, chunked?, set of those phenomena) tuples among them",
            assumptions: vec![
                "ordering facts are decided on logical stamps only; overlapping operations get the disjunction of allowed outcomes".into(),
                "lossy mode: a line is known to have been queued if dropped_lines() did not move during its write call, or if fewer than `capacity` lines could have been outstanding during the call while the guard was alive (lossy drops happen only at capacity)".into(),
                "the gate is never closed across a guard drop; a drop that took >= 100 ms makes the flush-on-drop clause inconclusive unless F11's signature matches".into(),
                "F9 window: the line's write had not returned when drop(guard) was called and was called before drop(guard) returned (both modes; in non-lossy mode such lines return Ok and are lost the same way)".into(),
                "schedules are sampled, not exhausted".into(),
            ],
            min_evals: args.tier.pick(1500, 15_000),
            min_distinct: args.tier.pick(900, 2500),
            exhaustive: false,
            extra,
        },
        out,
    );
}

fn record(out: &mut Out, cfg: &Cfg, h: &History, j: Judged, replay_args: &[String]) {
    out.evals += 1;
    out.count("histories", 1);
    out.count(&format!("drop_point_{}", cfg.drop.name()), 1);
    out.count(if cfg.lossy { "mode_lossy" } else { "mode_non_lossy" }, 1);
    out.count(&format!("capacity_{}", cfg.cap), 1);
    out.count("lines_offered", j.offered);
    out.count("lines_accepted", j.accepted);
    out.count("lines_refused_err", j.refused);
    out.count("lines_written_whole", j.written);
    out.count("lines_cost_by_injected_write_failure", j.faulted);
    out.count("lines_counted_dropped", j.dropped);
    out.count("lines_known_queued", j.sure_lines);
    out.count("lines_room_certain", j.room_certain_lines);
    out.count("lines_owed_at_guard_drop", j.pre_drop_must);
    out.count("interrupted_writes_retried", j.interrupted);
    out.count("underlying_flushes", j.flushes);
    out.count("underlying_flushes_failed", j.failed_flushes);
    out.count("writer_stalls", h.stalls);
    out.count("producer_writes_blocked_across_gate_opening", j.blocked_writes);
    out.count("writes_overlapping_guard_drop", j.overlap_lines);
    out.count("lines_spread_over_several_write_calls", j.multi_call_lines);
    out.count("f9_unaccounted_lines", j.f9_lines);
    out.count("f9_unaccounted_lines_called_before_drop_call_returned_after", j.f9_straddling);
    out.max("drop_us", h.drop.dur_us);
    out.max("lines_per_history", j.offered);
    if cfg.lossy && j.dropped > 0 {
        out.count("histories_with_full_queue_drops", 1);
    }
    if j.f9_lines > 0 {
        out.count(if cfg.lossy { "f9_histories_lossy" } else { "f9_histories_non_lossy" }, 1);
    }
    if j.f11 {
        out.count("f11_histories", 1);
    }
    if h.armed {
        out.count("histories_fail_next_flush_armed", 1);
    }
    if h.idle_wait_failed {
        out.count("f11_idle_wait_gave_up", 1);
    }
    if j.slow_drop {
        out.count("slow_drops_ge_100ms", 1);
    }
    if j.writer_released_before_drop {
        out.count("writer_released_before_guard_drop", 1);
    }
    if j.retried_ok > 0 {
        out.count("lines_failed_then_written", j.retried_ok);
    }
    out.set("drop_points", cfg.drop.name());
    out.set("producers", cfg.nprod.to_string());
    if j.pheno != 0 {
        let pace = match cfg.script.pace {
            Pace::None => 0,
            Pace::Yield => 1,
            Pace::Spin(_) => 2,
            Pace::SleepUs(_) => 3,
        };
        out.distinct_str(&format!(
            "{}|{}|{}|{}|{}|{}|{}",
            cfg.cap,
            cfg.lossy,
            cfg.nprod,
            cfg.drop.name(),
            pace,
            cfg.script.chunk.is_some(),
            j.pheno
        ));
        out.count("histories_nontrivial", 1);
    }
    if out.samples.len() < 2 && h.lines.len() <= 12 && j.pheno & (4 | 8) != 0 && j.violations.is_empty() {
        out.sample(witness(cfg, h, &[], &[], json!({"verdict": "held", "written": j.written, "failed": j.faulted, "dropped": j.dropped})));
    }
    let with_args = |mut w: Value| -> Value {
        if let Value::Object(m) = &mut w {
            m.insert("child_args".into(), json!(replay_args));
        }
        w
    };
    for (what, w) in j.violations {
        out.violation(what, with_args(w));
    }
    for (fid, what, w) in j.findings {
        out.finding(fid, what, with_args(w));
    }
    for why in j.inconclusive {
        out.inconclusive(why);
    }
}

/// The guard is dropped while the worker is stalled inside a write and the queue has room: the
/// shutdown message is enqueued at once, and the drop waits for the worker.  The writer is
/// released a few hundred milliseconds later (well inside the guard's patience): when the drop
/// returns, everything accepted has been written and flushed and the writer is gone.
/// Wall-clock use: the verdict needs the gate to have been opened within 700 ms of the drop's
/// start (measured); a later opening (a starved harness thread) makes the probe inconclusive.
fn stalled_drop_probe(out: &mut Out) {
    use std::io::Write;
    let mut script = Script::default();
    script.stall_at.insert(0);
    let (ctl, w) = ScriptedWriter::new(script);
    let (mut nb, guard) = tracing_appender::non_blocking::NonBlockingBuilder::default().buffered_lines_limit(64).lossy(false).finish(w);
    let lines: Vec<Vec<u8>> = (0..4).map(|i| format!("stalled-drop line {i}\n").into_bytes()).collect();
    for l in &lines {
        let _ = nb.write_all(l);
    }
    let t_wait = Instant::now();
    while !ctl.is_stalled() {
        if t_wait.elapsed() > Duration::from_secs(5) {
            out.inconclusive("stalled-drop probe: the worker never reached the closed gate".to_string());
            ctl.seal_open();
            drop(guard);
            return;
        }
        std::thread::yield_now();
    }
    let t0 = Instant::now();
    let dropper = std::thread::spawn(move || {
        drop(guard);
        t0.elapsed()
    });
    std::thread::sleep(Duration::from_millis(300));
    let early = dropper.is_finished();
    let opened_after = t0.elapsed();
    ctl.open();
    let took = dropper.join().expect("HARNESS: dropper thread");
    drop(nb);
    let _ = ctl.wait_dropped(Duration::from_secs(5));
    out.evals += 1;
    out.count("guard_drops_while_the_worker_is_stalled_in_a_write", 1);
    if opened_after > Duration::from_millis(700) {
        out.inconclusive(format!("stalled-drop probe: the harness opened the gate only after {} ms", opened_after.as_millis()));
        return;
    }
    let written_at_return = ctl.log().iter().filter(|c| matches!(c, Call::Write { .. })).count();
    if !early && written_at_return < lines.len() {
        out.violation(
            "drop(guard) waited for the stalled worker but returned before every accepted line was written",
            json!({"lines_accepted": lines.len(), "write_calls_seen": written_at_return, "drop_took_ms": took.as_millis() as u64}),
        );
        return;
    }
    if early {
        let written = written_at_return;
        out.violation(
            "drop(guard) returned while the worker was still stalled inside a write, although the queue had room for the shutdown message and the writer was released within 300 ms: accepted lines were neither written nor flushed when the drop returned",
            json!({"lines_accepted": lines.len(), "write_calls_seen_when_the_gate_was_opened": written, "drop_took_ms": took.as_millis() as u64,
                   "gate_opened_after_ms": opened_after.as_millis() as u64, "queue_capacity": 64}),
        );
    }
}

fn child(args: &Args, kind: &str) {
    let thorough = args.tier == vlib::Tier::Thorough;
    let only = args.get("only").and_then(|s| s.parse::<u64>().ok());
    let reps = args.get_u64("reps", 1);
    let indices: Vec<u64> = match (kind, only) {
        (_, Some(i)) => vec![i],
        ("rand", None) => (0..args.get_u64("runs", 100)).collect(),
        ("enum", None) => (0..enum_count(thorough)).filter(|i| i % args.nshards == args.shard).collect(),
        _ => {
            eprintln!("HARNESS: unknown child kind {kind}");
            std::process::exit(2);
        }
    };
    let out = Arc::new(Mutex::new(Out::new()));
    if kind == "rand" && only.is_none() && args.shard % 4 == 0 {
        stalled_drop_probe(&mut out.lock().unwrap());
    }
    let current = Arc::new(Mutex::new(String::new()));
    let (tx, rx) = std::sync::mpsc::channel::<()>();
    let (seed, shard) = (args.seed, args.shard);
    let kind_s = kind.to_string();
    let base_args: Vec<String> = run::raw_argv().into_iter().filter(|a| !a.starts_with("only=") && !a.starts_with("reps=")).collect();
    let (out2, cur2) = (out.clone(), current.clone());
    let dump = args.get("dump").is_some();
    let exec = std::thread::Builder::new()
        .name("executor".into())
        .spawn(move || {
            for idx in indices {
                let cfg = Arc::new(if kind_s == "rand" { gen_random(seed, shard, idx) } else { gen_enum(seed, idx, thorough) });
                let mut replay_args = base_args.clone();
                replay_args.push(format!("only={idx}"));
                replay_args.push("reps=25".into());
                for _ in 0..reps {
                    *cur2.lock().unwrap() = format!("{} {}", cfg.label, cfg.to_json());
                    let h = execute(&cfg);
                    let j = judge(&cfg, &h);
                    if dump && !j.inconclusive.is_empty() {
                        eprintln!("DUMP {:?}\n{}", j.inconclusive, serde_json::to_string_pretty(&witness(&cfg, &h, &[], &[], json!({}))).unwrap());
                    }
                    record(&mut out2.lock().unwrap(), &cfg, &h, j, &replay_args);
                    let _ = tx.send(());
                }
            }
        })
        .expect("HARNESS: spawn executor");
    // watchdog: every history must complete within 30 s of wall clock
    loop {
        match rx.recv_timeout(Duration::from_secs(30)) {
            Ok(()) => {}
            Err(std::sync::mpsc::RecvTimeoutError::Disconnected) => break,
            Err(std::sync::mpsc::RecvTimeoutError::Timeout) => {
                let mut o = out.lock().unwrap();
                o.inconclusive(format!("watchdog: history did not complete within 30 s: {}", current.lock().unwrap()));
                o.emit();
                std::process::exit(0);
            }
        }
    }
    if exec.join().is_err() {
        eprintln!("HARNESS: executor thread panicked (see message above)");
        std::process::exit(2);
    }
    out.lock().unwrap().emit();
}
