// Registry interpreter shared by C05 (close exactly once ...) and C06 (current / parent / scope).
// Random histories over span forests in `Registry + RecLayer A + RecLayer B + ErrorSubscriber`
// stacks on 1-3 threads, judged against a refcount / per-thread-stack / forest reference model.

use std::cell::RefCell;
use std::collections::{BTreeMap, HashMap};
use std::sync::{Arc, Mutex};
use tracing::span::EnteredSpan;
use tracing::Span;
use tracing_core::dispatch::{self, DefaultGuard, Dispatch};
use tracing_core::field::{Field, Visit};
use tracing_core::span::{Attributes, Id};
use tracing_core::{Collect, Event, Metadata};
use tracing_error::{ErrorSubscriber, SpanTrace};
use tracing_subscriber::registry::{LookupSpan, Registry};
use tracing_subscriber::subscribe::{CollectExt, Context, Subscribe};
use vcs::{Emitted, Fresh, Kind};
use vlib::Rng;

#[derive(Clone, Copy, Debug, PartialEq, Eq)]
pub enum Tag {
    C05,
    C06,
}

#[derive(Clone, Debug)]
struct Canary {
    serial: u64,
    layer: u8,
    text: String,
    /// updated in place (`ExtensionsMut::get_mut`) by every on_enter this layer sees
    enters: u32,
}
struct Marker(#[allow(dead_code)] u64);

#[derive(Clone, Debug)]
pub enum LEv {
    New { layer: u8, serial: u64, id: u64, parent: Option<u64>, cur: Option<u64>, scope: Vec<u64>, scope_root: Vec<u64> },
    Enter { layer: u8, serial: u64, cur: Option<u64> },
    Exit { layer: u8, serial: u64 },
    Close { layer: u8, serial: u64, cur: Option<u64> },
    Event { layer: u8, opid: u64, parent: Option<u64>, cur: Option<u64>, scope: Vec<u64>, scope_root: Vec<u64> },
}

#[derive(Default)]
pub struct LayerLog {
    pub entries: Mutex<Vec<LEv>>,
    pub errors: Mutex<Vec<(Tag, String)>>,
}
impl LayerLog {
    fn err(&self, t: Tag, s: String) {
        let mut e = self.errors.lock().unwrap();
        if e.len() < 8 {
            e.push((t, s));
        }
    }
}

struct IdVisit(Option<u64>);
impl Visit for IdVisit {
    fn record_u64(&mut self, f: &Field, v: u64) {
        if f.name() == "id" {
            self.0 = Some(v);
        }
    }
    fn record_debug(&mut self, _: &Field, _: &dyn std::fmt::Debug) {}
}

pub struct RecLayer {
    layer: u8,
    log: Arc<LayerLog>,
}

fn canary_of<'a, C: LookupSpan<'a>>(span: &tracing_subscriber::registry::SpanRef<'a, C>, layer: u8) -> Option<Canary> {
    let ext = span.extensions();
    // each layer stores its own canary type instance; distinguish by the `layer` tag
    match layer {
        0 => ext.get::<CanA>().map(|c| c.0.clone()),
        _ => ext.get::<CanB>().map(|c| c.0.clone()),
    }
}
struct CanA(Canary);
struct CanB(Canary);

impl RecLayer {
    fn serial_of<'a, C: LookupSpan<'a>>(&self, what: &str, span: Option<tracing_subscriber::registry::SpanRef<'a, C>>, id: &Id) -> Option<u64> {
        match span {
            None => {
                self.log.err(Tag::C05, format!("layer {}: {what}: ctx.span({:#x}) found no span", self.layer, id.into_u64()));
                None
            }
            Some(s) => match canary_of(&s, self.layer) {
                None => {
                    self.log.err(Tag::C05, format!("layer {}: {what}: span {:#x} has no stored data of this layer", self.layer, id.into_u64()));
                    None
                }
                Some(c) => {
                    if c.layer != self.layer || c.text != format!("canary-{}-{}", c.serial, c.layer) {
                        self.log.err(Tag::C05, format!("layer {}: {what}: stored data of span {:#x} is corrupt: {c:?}", self.layer, id.into_u64()));
                    }
                    Some(c.serial)
                }
            },
        }
    }
    fn chain<'a, C: LookupSpan<'a>>(&self, scope: tracing_subscriber::registry::Scope<'a, C>) -> Vec<u64> {
        scope.map(|s| canary_of(&s, self.layer).map(|c| c.serial).unwrap_or(u64::MAX)).collect()
    }
}

impl<C> Subscribe<C> for RecLayer
where
    C: Collect + for<'a> LookupSpan<'a>,
{
    fn on_new_span(&self, attrs: &Attributes<'_>, id: &Id, ctx: Context<'_, C>) {
        let mut v = IdVisit(None);
        attrs.record(&mut v);
        let serial = v.0.unwrap_or(u64::MAX);
        let Some(span) = ctx.span(id) else {
            self.log.err(Tag::C05, format!("layer {}: on_new_span: ctx.span({:#x}) found no span", self.layer, id.into_u64()));
            return;
        };
        {
            let mut ext = span.extensions_mut();
            let c = Canary { serial, layer: self.layer, text: format!("canary-{serial}-{}", self.layer), enters: 0 };
            let old = if self.layer == 0 { ext.replace(CanA(c)).map(|o| o.0) } else { ext.replace(CanB(c)).map(|o| o.0) };
            if let Some(old) = old {
                self.log.err(Tag::C05, format!("layer {}: new span serial {serial} (id {:#x}) sees stored data of an earlier span: {old:?}", self.layer, id.into_u64()));
            }
            if self.layer == 0 && ext.get_mut::<Marker>().is_some() {
                self.log.err(Tag::C05, format!("layer 0: new span serial {serial} (id {:#x}) sees an extension left by a previous tenant of its storage", id.into_u64()));
            }
        }
        let parent = span.parent().and_then(|p| canary_of(&p, self.layer).map(|c| c.serial));
        let cur = ctx.lookup_current().and_then(|s| canary_of(&s, self.layer).map(|c| c.serial));
        let scope = ctx.span_scope(id).map(|s| self.chain(s)).unwrap_or_default();
        let scope_root: Vec<u64> = ctx
            .span_scope(id)
            .map(|s| s.from_root().map(|s| canary_of(&s, self.layer).map(|c| c.serial).unwrap_or(u64::MAX)).collect())
            .unwrap_or_default();
        self.log.entries.lock().unwrap().push(LEv::New { layer: self.layer, serial, id: id.into_u64(), parent, cur, scope, scope_root });
    }
    fn on_enter(&self, id: &Id, ctx: Context<'_, C>) {
        if let Some(serial) = self.serial_of("on_enter", ctx.span(id), id) {
            if self.layer == 0 {
                if let Some(s) = ctx.span(id) {
                    s.extensions_mut().replace(Marker(serial));
                }
            }
            // in-place update of this layer's stored data
            if let Some(s) = ctx.span(id) {
                let mut ext = s.extensions_mut();
                let before = if self.layer == 0 { ext.get_mut::<CanA>().map(|c| { c.0.enters += 1; c.0.enters }) } else { ext.get_mut::<CanB>().map(|c| { c.0.enters += 1; c.0.enters }) };
                // read back under the same write lock (other threads may enter the span too)
                let after = if self.layer == 0 { ext.get_mut::<CanA>().map(|c| c.0.enters) } else { ext.get_mut::<CanB>().map(|c| c.0.enters) };
                drop(ext);
                if before.is_none() || before != after {
                    self.log.err(Tag::C05, format!("layer {}: on_enter: in-place update of the stored data of span {:#x} did not stick ({before:?} written, {after:?} read back)", self.layer, id.into_u64()));
                }
            }
            let cur = ctx.lookup_current().and_then(|s| canary_of(&s, self.layer).map(|c| c.serial));
            self.log.entries.lock().unwrap().push(LEv::Enter { layer: self.layer, serial, cur });
        }
    }
    fn on_exit(&self, id: &Id, ctx: Context<'_, C>) {
        // (one lookup: with the registry's exit running before the layers' on_exit - F28 - the span
        // may be closed by another thread at any moment of this callback)
        let Some(sref) = ctx.span(id) else {
            self.log.err(Tag::C05, format!("EXIT-AFTER-CLOSE layer {}: on_exit({:#x}) arrives after the span was closed and removed (ctx.span finds nothing)", self.layer, id.into_u64()));
            return;
        };
        if let Some(serial) = self.serial_of("on_exit", Some(sref), id) {
            self.log.entries.lock().unwrap().push(LEv::Exit { layer: self.layer, serial });
        }
    }
    fn on_close(&self, id: Id, ctx: Context<'_, C>) {
        if let Some(serial) = self.serial_of("on_close (the span's data must still be readable while a layer handles its close)", ctx.span(&id), &id) {
            // the parent (if any) must still be alive: children close before their parent
            if let Some(s) = ctx.span(&id) {
                #[allow(deprecated)]
                if let Some(pid) = s.parent_id() {
                    match ctx.span(pid) {
                        None => self.log.err(Tag::C05, format!("layer {}: on_close of serial {serial}: its parent {:#x} is already gone (parent closed before child)", self.layer, pid.into_u64())),
                        Some(p) => {
                            if canary_of(&p, self.layer).is_none() {
                                self.log.err(Tag::C05, format!("layer {}: on_close of serial {serial}: parent's stored data unreadable", self.layer));
                            }
                        }
                    }
                }
            }
            // what a layer may well do while handling a close: ask for the thread's current span
            // (both ways); the closing span itself is entered nowhere
            let cur = ctx.lookup_current().and_then(|s| canary_of(&s, self.layer).map(|c| c.serial));
            let cur_id = ctx.current_span().id().cloned();
            if cur_id != ctx.lookup_current().map(|s| s.id()) {
                self.log.err(Tag::C06, format!("layer {}: on_close of serial {serial}: current_span() names {cur_id:?}, lookup_current() another span", self.layer));
            }
            self.log.entries.lock().unwrap().push(LEv::Close { layer: self.layer, serial, cur });
        }
    }
    fn on_event(&self, event: &Event<'_>, ctx: Context<'_, C>) {
        let mut v = IdVisit(None);
        event.record(&mut v);
        let parent = ctx.event_span(event).and_then(|s| canary_of(&s, self.layer).map(|c| c.serial));
        let cur = ctx.lookup_current().and_then(|s| canary_of(&s, self.layer).map(|c| c.serial));
        let scope = ctx.event_scope(event).map(|s| self.chain(s)).unwrap_or_default();
        let scope_root: Vec<u64> = ctx
            .event_scope(event)
            .map(|s| s.from_root().map(|s| canary_of(&s, self.layer).map(|c| c.serial).unwrap_or(u64::MAX)).collect())
            .unwrap_or_default();
        self.log.entries.lock().unwrap().push(LEv::Event { layer: self.layer, opid: v.0.unwrap_or(u64::MAX), parent, cur, scope, scope_root });
    }
}

type Stack = tracing_subscriber::subscribe::Layered<
    ErrorSubscriber<tracing_subscriber::subscribe::Layered<RecLayer, tracing_subscriber::subscribe::Layered<RecLayer, Registry>>>,
    tracing_subscriber::subscribe::Layered<RecLayer, tracing_subscriber::subscribe::Layered<RecLayer, Registry>>,
>;

/// `how` (mod 3): the stack is handed to `Dispatch::new` as itself, behind `Arc`, or behind `Box`
/// (tracing-core's `Collect` implementations for the pointers forward every method).
fn mk_stack(log: Arc<LayerLog>, how: u64) -> Dispatch {
    let log2 = log.clone();
    let s: Stack = Registry::default()
        .with(RecLayer { layer: 0, log: log.clone() })
        .with(RecLayer { layer: 1, log })
        .with(ErrorSubscriber::default());
    match how % 6 {
        // tree-shaped: the two recording layers composed with `and_then` first (the
        // `Subscribe for Layered` implementation instead of `Collect for Layered`): every
        // notification still reaches layer 0 before layer 1
        5 => Dispatch::new(
            Registry::default()
                .with(RecLayer { layer: 0, log: log2.clone() }.and_then(RecLayer { layer: 1, log: log2 }))
                .with(ErrorSubscriber::default()),
        ),
        0 => Dispatch::new(s),
        1 => Dispatch::new(Arc::new(s)),
        2 => Dispatch::new(Box::new(s)),
        // the pointer INSIDE the stack: layers over `Arc<Registry>`, and an outer pair of layers
        // over a boxed inner stack (both are collectors with span lookup in their own right)
        3 => Dispatch::new(
            Arc::new(Registry::default())
                .with(RecLayer { layer: 0, log: log2.clone() })
                .with(RecLayer { layer: 1, log: log2 })
                .with(ErrorSubscriber::default()),
        ),
        _ => Dispatch::new(
            Box::new(Registry::default().with(RecLayer { layer: 0, log: log2.clone() }))
                .with(RecLayer { layer: 1, log: log2 })
                .with(ErrorSubscriber::default()),
        ),
    }
}

// ---------------------------------------------------------------------------------------------
// reference model

#[derive(Clone, Debug)]
struct MSpan {
    id: u64,
    parent: Option<u64>,
    handles: u32,
    /// number of (non-duplicate) threads on which it is entered
    entered: u32,
    children: u32,
    closed: bool,
    stack: usize,
    level: usize,
    /// spans a handle of which is stored in this span's extensions (dropped, in this order, when
    /// this span's data is cleared — after the reference to its parent was released)
    links: Vec<u64>,
}

/// The extension type that owns the stored handles of op 16.
struct Links(#[allow(dead_code)] Vec<Span>);

#[derive(Default)]
struct Model {
    spans: HashMap<u64, MSpan>,
    /// (stack, thread) -> entered serials, most recent last (duplicates included)
    tstack: HashMap<(usize, usize), Vec<u64>>,
}
impl Model {
    fn maybe_close(&mut self, s: u64, out: &mut Vec<u64>) {
        let sp = self.spans.get_mut(&s).unwrap();
        if !sp.closed && sp.handles == 0 && sp.entered == 0 && sp.children == 0 {
            sp.closed = true;
            out.push(s);
            let links = std::mem::take(&mut sp.links);
            if let Some(p) = sp.parent {
                self.spans.get_mut(&p).unwrap().children -= 1;
                self.maybe_close(p, out);
            }
            for z in links {
                self.spans.get_mut(&z).unwrap().handles -= 1;
                self.maybe_close(z, out);
            }
        }
    }
    /// does `from` (transitively) keep `to` open?  child -> parent, holder -> linked
    fn keeps_open(&self, from: u64, to: u64) -> bool {
        let mut todo = vec![from];
        let mut seen = std::collections::HashSet::new();
        while let Some(x) = todo.pop() {
            if x == to {
                return true;
            }
            if !seen.insert(x) {
                continue;
            }
            let m = &self.spans[&x];
            todo.extend(m.parent);
            todo.extend(m.links.iter().copied());
        }
        false
    }
    fn drop_handle(&mut self, s: u64) -> Vec<u64> {
        let mut out = vec![];
        self.spans.get_mut(&s).unwrap().handles -= 1;
        self.maybe_close(s, &mut out);
        out
    }
    /// returns true if this enter is the first entry of `s` on that thread (takes a reference)
    fn enter(&mut self, stack: usize, t: usize, s: u64) -> bool {
        let v = self.tstack.entry((stack, t)).or_default();
        let dup = v.contains(&s);
        v.push(s);
        if !dup {
            self.spans.get_mut(&s).unwrap().entered += 1;
        }
        !dup
    }
    fn exit(&mut self, stack: usize, t: usize, s: u64) -> Vec<u64> {
        let v = self.tstack.entry((stack, t)).or_default();
        let mut out = vec![];
        if let Some(p) = v.iter().rposition(|x| *x == s) {
            v.remove(p);
            if !v.contains(&s) {
                self.spans.get_mut(&s).unwrap().entered -= 1;
                self.maybe_close(s, &mut out);
            }
        }
        out
    }
    fn has_dup(&self, stack: usize, t: usize) -> bool {
        self.tstack.get(&(stack, t)).map(|v| (0..v.len()).any(|i| v[..i].contains(&v[i]))).unwrap_or(false)
    }
    fn current(&self, stack: usize, t: usize) -> Option<u64> {
        self.tstack.get(&(stack, t)).and_then(|v| v.last().copied())
    }
    fn chain(&self, s: Option<u64>) -> Vec<u64> {
        let mut out = vec![];
        let mut c = s;
        while let Some(x) = c {
            out.push(x);
            c = self.spans[&x].parent;
        }
        out
    }
}

// ---------------------------------------------------------------------------------------------

struct H {
    span: Span,
    serial: Option<u64>,
}

thread_local! {
    static GUARDS: RefCell<Vec<(EnteredSpan, Option<u64>)>> = const { RefCell::new(Vec::new()) };
    static DEFAULTS: RefCell<Vec<(DefaultGuard, Option<usize>)>> = const { RefCell::new(Vec::new()) };
    /// enters made through the collector API directly (no handle is owned by the entry)
    static RAW: RefCell<Vec<(Id, Dispatch, u64)>> = const { RefCell::new(Vec::new()) };
    static TID: std::cell::Cell<usize> = const { std::cell::Cell::new(0) };
}
fn cur_default() -> Option<usize> {
    DEFAULTS.with(|d| d.borrow().last().and_then(|x| x.1))
}

#[derive(Clone, Copy)]
pub struct Weights {
    pub foreign: bool,
    /// emphasis: true = C06 style (more enters / events / traces), false = C05 style
    pub c06: bool,
    /// with `foreign`: two registries used on the same threads, but every operation touches
    /// only handles / guards / traces of the registry that is the thread's default at that
    /// moment, and what a `with default {..}` block entered is exited before it ends - so no
    /// step ever closes a span through another collector (nothing of finding F2 is involved)
    pub own_only: bool,
}

pub struct World {
    disp: Vec<Dispatch>,
    logs: Vec<Arc<LayerLog>>,
    handles: Vec<Option<H>>,
    traces: Vec<Option<(SpanTrace, Option<u64>)>>,
    metas: Vec<&'static Metadata<'static>>,
    model: Model,
    pub trace: Vec<String>,
    pub errors: Vec<(Tag, String)>,
    pub stats: BTreeMap<String, u64>,
    pub sigs: Vec<String>,
    pub tainted: bool,
    /// known finding F28 matched in this history (exit that releases the last reference)
    pub f28: u64,
    rng: Rng,
    fresh: Arc<Fresh>,
    next_serial: u64,
    w: Weights,
    nthreads: usize,
    /// (op id, parent serial) of the explicit-parent event being judged
    xparent_of_op: Option<(u64, u64)>,
    /// own_only: (GUARDS.len(), RAW.len()) at the start of every open `with default` block
    block_base: Vec<(usize, usize)>,
}

impl World {
    fn stat(&mut self, k: &str) {
        *self.stats.entry(k.to_string()).or_insert(0) += 1;
    }
    fn err(&mut self, t: Tag, e: String) {
        if self.errors.len() < 8 {
            self.errors.push((t, format!("after op #{} `{}`: {e}", self.trace.len(), self.trace.last().cloned().unwrap_or_default())));
        }
    }
    fn live_handles(&self) -> Vec<usize> {
        (0..self.handles.len()).filter(|&i| self.handles[i].is_some()).collect()
    }
    fn stack_of(&self, serial: Option<u64>) -> Option<usize> {
        serial.map(|s| self.model.spans[&s].stack)
    }
    fn sig(&mut self, op: &str, serial: Option<u64>, depth: usize) {
        let t = TID.with(|t| t.get());
        let rel = match (self.stack_of(serial), cur_default()) {
            (None, _) => "nospan",
            (Some(o), Some(d)) if o == d => "own",
            (Some(_), Some(_)) => "foreign",
            (Some(_), None) => "nodefault",
        };
        let (st, ch, ent, hd) = match serial {
            Some(s) => {
                let m = &self.model.spans[&s];
                (m.parent.is_some(), m.children.min(2), m.entered.min(2), m.handles.min(3))
            }
            None => (false, 0, 0, 0),
        };
        let dup = cur_default().map(|d| self.model.has_dup(d, t)).unwrap_or(false);
        self.sigs.push(format!("{op}|{rel}|p{st}|c{ch}|e{ent}|h{hd}|dup{dup}|d{}|t{}", depth.min(2), self.nthreads));
    }

    /// Check what the layers logged during the last operation.
    /// `closes`: serials the model says closed during the op, in order.
    fn check(&mut self, closes: &[u64], new_serial: Option<(u64, usize)>, event_op: Option<(u64, usize)>) {
        let t = TID.with(|t| t.get());
        for st in 0..self.logs.len() {
            let entries = std::mem::take(&mut *self.logs[st].entries.lock().unwrap());
            let errs = std::mem::take(&mut *self.logs[st].errors.lock().unwrap());
            for (tag, e) in errs {
                self.err(tag, format!("stack {st}: {e}"));
            }
            // --- C05: close notifications: exactly the model's, children first, each layer once
            let want: Vec<(u8, u64)> = closes
                .iter()
                .filter(|s| self.model.spans[s].stack == st)
                .flat_map(|s| [(0u8, *s), (1u8, *s)])
                .collect();
            let got: Vec<(u8, u64)> = entries
                .iter()
                .filter_map(|e| if let LEv::Close { layer, serial, .. } = e { Some((*layer, *serial)) } else { None })
                .collect();
            if got != want {
                let describe = |v: &[(u8, u64)]| v.iter().map(|(l, s)| format!("L{l}:s{s}")).collect::<Vec<_>>().join(" ");
                self.err(
                    Tag::C05,
                    format!("stack {st}: close notifications [{}] but the reference model expects [{}] (last handle dropped + not entered anywhere + all children closed; children first)", describe(&got), describe(&want)),
                );
            }
            // --- C06 clauses on New / Event entries
            for e in &entries {
                match e {
                    LEv::Close { layer, serial, cur } => {
                        if !self.model.has_dup(st, t) {
                            let mc = self.model.current(st, t);
                            if *cur != mc {
                                self.err(Tag::C06, format!("layer {layer}: lookup_current() inside on_close of serial {serial} is {cur:?}, the thread's most recently entered unexited span is {mc:?}"));
                            }
                        }
                    }
                    LEv::New { layer, serial, id, parent, cur, scope, scope_root } => {
                        if let Some((ns, nst)) = new_serial {
                            if ns == *serial && nst == st {
                                // duplicate ids among live spans
                                if let Some((os, _)) = self.model.spans.iter().find(|(os, m)| **os != ns && !m.closed && m.stack == st && m.id == *id) {
                                    let os = *os;
                                    self.err(Tag::C05, format!("new span serial {ns} got id {id:#x} which the live span serial {os} also has"));
                                }
                                let m = self.model.spans.get(&ns).cloned();
                                if let Some(m) = m {
                                    if m.parent != *parent {
                                        self.err(Tag::C06, format!("layer {layer}: new span serial {ns}: stored parent is {parent:?}, the model says {:?}", m.parent));
                                    }
                                    let chain = self.model.chain(Some(ns));
                                    if *scope != chain {
                                        self.err(Tag::C06, format!("layer {layer}: scope() of new span serial {ns} is {scope:?}, ancestor chain leaf->root is {chain:?}"));
                                    }
                                    let mut r = chain.clone();
                                    r.reverse();
                                    if *scope_root != r {
                                        self.err(Tag::C06, format!("layer {layer}: scope().from_root() of new span serial {ns} is {scope_root:?}, expected {r:?}"));
                                    }
                                }
                                if !self.model.has_dup(st, t) {
                                    let mc = self.model.current(st, t);
                                    if *cur != mc {
                                        self.err(Tag::C06, format!("layer {layer}: lookup_current() inside on_new_span is {cur:?}, the thread's most recently entered unexited span is {mc:?}"));
                                    }
                                }
                            }
                        }
                    }
                    LEv::Event { layer, opid, parent, cur, scope, scope_root } => {
                        if let Some((eo, est)) = event_op {
                            if eo == *opid && est == st && self.xparent_of_op.map(|x| x.0) == Some(eo) {
                                // explicit parent: it overrides whatever is entered
                                let ps = self.xparent_of_op.unwrap().1;
                                if *parent != Some(ps) {
                                    self.err(Tag::C06, format!("layer {layer}: event_span() of an event with the explicit parent serial {ps} is {parent:?}"));
                                }
                                let chain = self.model.chain(Some(ps));
                                if *scope != chain {
                                    self.err(Tag::C06, format!("layer {layer}: event_scope() of an event with the explicit parent serial {ps} is {scope:?}, the parent's ancestor chain leaf->root is {chain:?}"));
                                }
                                let mut r = chain;
                                r.reverse();
                                if *scope_root != r {
                                    self.err(Tag::C06, format!("layer {layer}: event_scope().from_root() of an event with an explicit parent is {scope_root:?}, expected {r:?}"));
                                }
                                if !self.model.has_dup(st, t) {
                                    let mc = self.model.current(st, t);
                                    if *cur != mc {
                                        self.err(Tag::C06, format!("layer {layer}: lookup_current() inside on_event (explicit parent) is {cur:?}, expected {mc:?}"));
                                    }
                                }
                            } else if eo == *opid && est == st && !self.model.has_dup(st, t) {
                                let mc = self.model.current(st, t);
                                if *parent != mc {
                                    self.err(Tag::C06, format!("layer {layer}: event_span() of a contextual event is {parent:?}, expected the thread's current span {mc:?}"));
                                }
                                if *cur != mc {
                                    self.err(Tag::C06, format!("layer {layer}: lookup_current() inside on_event is {cur:?}, expected {mc:?}"));
                                }
                                let chain = self.model.chain(mc);
                                if *scope != chain {
                                    self.err(Tag::C06, format!("layer {layer}: event_scope() is {scope:?}, ancestor chain leaf->root is {chain:?}"));
                                }
                                let mut r = chain;
                                r.reverse();
                                if *scope_root != r {
                                    self.err(Tag::C06, format!("layer {layer}: event_scope().from_root() is {scope_root:?}, expected {r:?}"));
                                }
                            }
                        }
                    }
                    LEv::Enter { layer, serial, cur } => {
                        if !self.model.has_dup(st, t) && self.model.spans.get(serial).map(|m| m.stack) == Some(st) {
                            let mc = self.model.current(st, t);
                            if *cur != mc {
                                self.err(Tag::C06, format!("layer {layer}: lookup_current() inside on_enter(serial {serial}) is {cur:?}, the model says {mc:?}"));
                            }
                        }
                    }
                    _ => {}
                }
            }
        }
        // closed spans must be gone from the registry (quiescent point)
        for s in closes {
            let m = self.model.spans[s].clone();
            let d = self.disp[m.stack].clone();
            let still = d
                .downcast_ref::<Stack>()
                .and_then(|stack| stack.span(&Id::from_u64(m.id)).and_then(|sp| canary_of(&sp, 0).map(|c| c.serial)));
            if still == Some(*s) {
                self.err(Tag::C05, format!("span serial {s} (id {:#x}) is still found with its data after its close completed", m.id));
            }
            self.stat("closes");
        }
    }

    fn new_serial(&mut self) -> u64 {
        let s = self.next_serial;
        self.next_serial += 1;
        s
    }

    fn register_new(&mut self, serial: u64, span: &Span, stack: usize, parent: Option<u64>, level: usize) {
        let id = span.id().map(|i| i.into_u64()).unwrap_or(0);
        self.model.spans.insert(serial, MSpan { id, parent, handles: 1, entered: 0, children: 0, closed: false, stack, level, links: vec![] });
        if let Some(p) = parent {
            self.model.spans.get_mut(&p).unwrap().children += 1;
        }
        if let Some(m) = span.metadata() {
            if self.metas.len() < 12 {
                self.metas.push(m);
            }
        }
        self.stat("spans_created");
    }

    /// Contextual parent per the model; when the thread's stack holds a duplicate the property
    /// makes no claim, so the value observed by layer 0 is adopted.
    fn contextual_parent(&mut self, st: usize, t: usize, serial: u64) -> Option<u64> {
        if self.model.has_dup(st, t) {
            let e = self.logs[st].entries.lock().unwrap();
            for x in e.iter() {
                if let LEv::New { layer: 0, serial: s, parent, .. } = x {
                    if *s == serial {
                        return *parent;
                    }
                }
            }
            None
        } else {
            self.model.current(st, t)
        }
    }

    pub fn step(&mut self, depth: usize) {
        let t = TID.with(|t| t.get());
        let dflt = cur_default();
        let own = self.w.own_only;
        let mine = |w: &World, serial: Option<u64>| -> bool { !own || serial.map(|s| Some(w.model.spans[&s].stack) == dflt).unwrap_or(true) };
        let live: Vec<usize> = self.live_handles().into_iter().filter(|&i| mine(self, self.handles[i].as_ref().unwrap().serial)).collect();
        let has = !live.is_empty();
        // (own_only: only guards / collector-API enters made inside the innermost open block)
        let (gbase, rbase) = if own { self.block_base.last().copied().unwrap_or((0, 0)) } else { (0, 0) };
        let guard_idx: Vec<usize> = GUARDS.with(|g| g.borrow().iter().enumerate().filter(|(i, x)| *i >= gbase && mine(self, x.1)).map(|(i, _)| i).collect());
        let nguards = guard_idx.len();
        // (a captured SpanTrace is READ under any default - it walks its own collector; it is
        // dropped only under its own registry's default)
        let trace_idx: Vec<usize> = (0..self.traces.len()).filter(|&i| self.traces[i].is_some()).collect();
        let ntr = (0..self.traces.len()).filter(|&i| self.traces[i].as_ref().map(|x| mine(self, x.1)).unwrap_or(false)).count();
        let raw_idx: Vec<usize> = RAW.with(|r| r.borrow().iter().enumerate().filter(|(i, x)| *i >= rbase && mine(self, Some(x.2))).map(|(i, _)| i).collect());
        let deep = depth >= 3;
        let c6 = self.w.c06;
        let nraw = raw_idx.len();
        let w: [u32; 17] = [
            6,                                             // 0 new contextual (macro)
            if self.metas.is_empty() { 0 } else { 4 },     // 1 new root / explicit parent
            if has { 4 } else { 0 },                       // 2 clone
            if has { if c6 { 4 } else { 7 } } else { 0 },  // 3 drop
            if has && nguards < 5 { if c6 { 8 } else { 5 } } else { 0 }, // 4 enter (guard)
            if nguards > 0 { 3 } else { 0 },               // 5 guard exit (handle returned)
            if nguards > 0 { 4 } else { 0 },               // 6 guard drop
            if has && !deep { 3 } else { 0 },              // 7 scoped enter { body }
            if c6 { 6 } else { 2 },                        // 8 event
            2,                                             // 9 Span::current capture
            if c6 && ntr < 3 { 3 } else { 0 },             // 10 SpanTrace::capture
            if !trace_idx.is_empty() { 3 } else { 0 },                   // 11 check / drop trace
            if self.w.foreign && !deep { 2 } else { 0 },   // 12 with other default { body }
            if has { 1 } else { 0 },                       // 13 re-enter same span (duplicate) scoped
            if has && nraw < 4 { 3 } else { 0 },           // 14 enter through the collector API (owns no handle)
            if nraw > 0 { 4 } else { 0 },                  // 15 exit through the collector API
            if live.len() >= 2 && (!self.w.foreign || own) { 2 } else { 0 }, // 16 move a handle into another span's extensions
        ];
        let op = self.rng.weighted(&w);
        match op {
            0 => {
                let level = 1 + self.rng.usize(5);
                let Some(cs) = self.fresh.take(level, self.rng.usize(4), Kind::Span) else { return };
                let serial = self.new_serial();
                let span = match (cs.emit)(serial) {
                    Emitted::Span(s) => s,
                    _ => unreachable!(),
                };
                self.trace.push(format!("[w{t}] h{} = span!(serial {serial}) contextual, default {dflt:?}", self.handles.len()));
                match dflt {
                    Some(st) => {
                        let parent = self.contextual_parent(st, t, serial);
                        if let Some(p) = parent {
                            if self.model.spans.get(&p).map(|m| m.closed).unwrap_or(true) {
                                self.err(Tag::C06, format!("new span serial {serial} has parent {p} which is not a live span"));
                                return;
                            }
                        }
                        self.register_new(serial, &span, st, parent, level);
                        self.sig("new_ctx", Some(serial), depth);
                        self.check(&[], Some((serial, st)), None);
                        self.handles.push(Some(H { span, serial: Some(serial) }));
                    }
                    None => {
                        self.check(&[], None, None);
                        self.handles.push(Some(H { span, serial: None }));
                    }
                }
            }
            1 => {
                let Some(st) = dflt else { return };
                let meta = *self.rng.pick(&self.metas);
                let serial = self.new_serial();
                let fs = meta.fields();
                let f = fs.field("id").expect("HARNESS: id field");
                let vals = [(&f, Some(&serial as &dyn tracing::field::Value))];
                let vs = fs.value_set(&vals);
                let cands: Vec<usize> = live
                    .iter()
                    .copied()
                    .filter(|&i| self.handles[i].as_ref().unwrap().serial.map(|s| self.model.spans[&s].stack == st).unwrap_or(false))
                    .collect();
                let (span, parent, desc) = if !cands.is_empty() && self.rng.chance(2, 3) {
                    let p = *self.rng.pick(&cands);
                    let ps = self.handles[p].as_ref().unwrap().serial;
                    (Span::child_of(&self.handles[p].as_ref().unwrap().span, meta, &vs), ps, format!("child_of(h{p})"))
                } else {
                    (Span::new_root(meta, &vs), None, "new_root".to_string())
                };
                self.trace.push(format!("[w{t}] h{} = Span::{desc} (serial {serial}), default {dflt:?}", self.handles.len()));
                self.register_new(serial, &span, st, parent, vcs::level_of(meta.level()));
                self.sig("new_explicit", Some(serial), depth);
                self.check(&[], Some((serial, st)), None);
                self.handles.push(Some(H { span, serial: Some(serial) }));
            }
            2 => {
                let h = *self.rng.pick(&live);
                let serial = self.handles[h].as_ref().unwrap().serial;
                self.trace.push(format!("[w{t}] h{} = h{h}.clone()", self.handles.len()));
                let span = self.handles[h].as_ref().unwrap().span.clone();
                if let Some(s) = serial {
                    self.model.spans.get_mut(&s).unwrap().handles += 1;
                }
                self.sig("clone", serial, depth);
                self.check(&[], None, None);
                self.handles.push(Some(H { span, serial }));
            }
            3 => {
                let h = *self.rng.pick(&live);
                let x = self.handles[h].take().unwrap();
                self.trace.push(format!("[w{t}] drop(h{h}) [serial {:?}], default {dflt:?}", x.serial));
                self.sig("drop", x.serial, depth);
                if let Some(s) = x.serial {
                    // parent release goes through the thread's default collector (F2)
                    if self.model.spans[&s].parent.is_some() && dflt != Some(self.model.spans[&s].stack) {
                        self.tainted = true;
                    }
                }
                drop(x.span);
                let closes = x.serial.map(|s| self.model.drop_handle(s)).unwrap_or_default();
                self.stat("handle_drops");
                self.check(&closes, None, None);
            }
            4 => {
                let h = *self.rng.pick(&live);
                let serial = self.handles[h].as_ref().unwrap().serial;
                self.trace.push(format!("[w{t}] g{nguards} = h{h}.clone().entered() [serial {serial:?}]"));
                let g = self.handles[h].as_ref().unwrap().span.clone().entered();
                if let Some(s) = serial {
                    self.model.spans.get_mut(&s).unwrap().handles += 1;
                    let st = self.model.spans[&s].stack;
                    self.model.enter(st, t, s);
                    self.stat("enters");
                }
                self.sig("enter", serial, depth);
                self.check(&[], None, None);
                GUARDS.with(|gs| gs.borrow_mut().push((g, serial)));
            }
            5 | 6 => {
                let k = *self.rng.pick(&guard_idx);
                let (g, serial) = GUARDS.with(|gs| gs.borrow_mut().remove(k));
                self.sig(if op == 5 { "guard_exit" } else { "guard_drop" }, serial, depth);
                if let Some(s) = serial {
                    if dflt != Some(self.model.spans[&s].stack) {
                        self.tainted = true; // exit closes through the thread's default (F2)
                    }
                }
                if op == 5 {
                    self.trace.push(format!("[w{t}] h{} = guard[{k}].exit() [serial {serial:?}], default {dflt:?}", self.handles.len()));
                    let span = g.exit();
                    let closes = match serial {
                        Some(s) => {
                            let st = self.model.spans[&s].stack;
                            self.model.exit(st, t, s)
                        }
                        None => vec![],
                    };
                    self.check(&closes, None, None);
                    self.handles.push(Some(H { span, serial }));
                } else {
                    self.trace.push(format!("[w{t}] drop(guard[{k}]) [serial {serial:?}], default {dflt:?}"));
                    drop(g);
                    let mut closes = vec![];
                    if let Some(s) = serial {
                        let st = self.model.spans[&s].stack;
                        closes.extend(self.model.exit(st, t, s));
                        closes.extend(self.model.drop_handle(s));
                        self.stat("handle_drops");
                    }
                    self.check(&closes, None, None);
                }
            }
            7 | 13 => {
                let h = *self.rng.pick(&live);
                let x = self.handles[h].take().unwrap();
                let serial = x.serial;
                let n = 1 + self.rng.usize(3);
                self.trace.push(format!("[w{t}] h{h}.enter() {{ [serial {serial:?}]"));
                self.sig(if op == 13 { "enter_twice" } else { "enter_scope" }, serial, depth);
                {
                    let g = x.span.enter();
                    if let Some(s) = serial {
                        let st = self.model.spans[&s].stack;
                        self.model.enter(st, t, s);
                        self.stat("enters");
                    }
                    self.check(&[], None, None);
                    if op == 13 {
                        // enter the same span again on this thread (duplicate entry)
                        let g2 = x.span.enter();
                        if let Some(s) = serial {
                            let st = self.model.spans[&s].stack;
                            self.model.enter(st, t, s);
                            self.stat("duplicate_enters");
                        }
                        self.check(&[], None, None);
                        for _ in 0..n {
                            if !self.errors.is_empty() { break; }
                            self.step(depth + 1);
                        }
                        if let Some(s) = serial {
                            if cur_default() != Some(self.model.spans[&s].stack) { self.tainted = true; }
                        }
                        drop(g2);
                        let closes = match serial { Some(s) => { let st = self.model.spans[&s].stack; self.model.exit(st, t, s) } None => vec![] };
                        self.check(&closes, None, None);
                    } else {
                        for _ in 0..n {
                            if !self.errors.is_empty() { break; }
                            self.step(depth + 1);
                        }
                    }
                    self.trace.push(format!("[w{t}] }} // exit h{h}, default {:?}", cur_default()));
                    if let Some(s) = serial {
                        if cur_default() != Some(self.model.spans[&s].stack) { self.tainted = true; }
                    }
                    drop(g);
                }
                let closes = match serial { Some(s) => { let st = self.model.spans[&s].stack; self.model.exit(st, t, s) } None => vec![] };
                self.check(&closes, None, None);
                self.handles[h] = Some(x);
            }
            8 => {
                // a third of the events name an explicit parent: a live span of the default stack
                let xp: Option<(usize, u64)> = match dflt {
                    Some(d) if self.rng.chance(1, 3) => {
                        let cands: Vec<(usize, u64)> = live
                            .iter()
                            .filter_map(|&i| self.handles[i].as_ref().unwrap().serial.map(|s| (i, s)))
                            .filter(|(_, s)| self.model.spans[s].stack == d)
                            .collect();
                        if cands.is_empty() { None } else { Some(*self.rng.pick(&cands)) }
                    }
                    _ => None,
                };
                let (level, tgt) = (1 + self.rng.usize(5), self.rng.usize(4));
                let cs = match xp {
                    Some(_) => self.fresh.take_xparent_event(level, tgt),
                    None => None,
                };
                let xp = if cs.is_some() { xp } else { None };
                let Some(cs) = cs.or_else(|| self.fresh.take(level, tgt, Kind::Event)) else { return };
                let opid = self.new_serial();
                match xp {
                    Some((h, ps)) => {
                        self.trace.push(format!("[w{t}] event!(parent: h{h} [serial {ps}], op {opid}), default {dflt:?}"));
                        vcs::set_xparent(self.handles[h].as_ref().unwrap().span.id());
                        let _ = (cs.emit)(opid);
                        vcs::set_xparent(None);
                        self.sig("event_explicit_parent", Some(ps), depth);
                        self.stat("events");
                        self.stat("events_with_an_explicit_parent");
                        self.xparent_of_op = Some((opid, ps));
                        self.check(&[], None, dflt.map(|d| (opid, d)));
                        self.xparent_of_op = None;
                    }
                    None => {
                        self.trace.push(format!("[w{t}] event!(op {opid}), default {dflt:?}"));
                        let _ = (cs.emit)(opid);
                        self.sig("event", dflt.and_then(|d| self.model.current(d, t)), depth);
                        self.stat("events");
                        self.check(&[], None, dflt.map(|d| (opid, d)));
                    }
                }
            }
            9 => {
                self.trace.push(format!("[w{t}] h{} = Span::current(), default {dflt:?}", self.handles.len()));
                let span = Span::current();
                let want = dflt.and_then(|d| if self.model.has_dup(d, t) { None } else { self.model.current(d, t) });
                let dup = dflt.map(|d| self.model.has_dup(d, t)).unwrap_or(false);
                // which span did we get?  identify by id among the model's live spans of that stack
                let got = span.id().and_then(|i| {
                    let i = i.into_u64();
                    self.model.spans.iter().find(|(_, m)| !m.closed && Some(m.stack) == dflt && m.id == i).map(|(s, _)| *s)
                });
                if !dup && got != want {
                    self.err(Tag::C06, format!("Span::current() is span serial {got:?}, the thread's most recently entered unexited span is {want:?}"));
                }
                if let Some(s) = got {
                    self.model.spans.get_mut(&s).unwrap().handles += 1;
                }
                self.sig("current", got, depth);
                self.check(&[], None, None);
                self.handles.push(Some(H { span, serial: got }));
            }
            10 => {
                self.trace.push(format!("[w{t}] tr{} = SpanTrace::capture(), default {dflt:?}", self.traces.len()));
                let tr = SpanTrace::capture();
                let dup = dflt.map(|d| self.model.has_dup(d, t)).unwrap_or(false);
                let cur = dflt.and_then(|d| self.model.current(d, t));
                // identify through the first listed span's fields
                let mut first: Option<u64> = None;
                let mut any = false;
                tr.with_spans(|_, fields| {
                    any = true;
                    first = fields.strip_prefix("id=").and_then(|x| x.split_whitespace().next()).and_then(|x| x.parse().ok());
                    false
                });
                let got = if any { first } else { None };
                if !dup && got != cur {
                    self.err(Tag::C06, format!("SpanTrace::capture() starts at span serial {got:?}, the thread's current span is {cur:?}"));
                }
                if let Some(s) = got {
                    if let Some(m) = self.model.spans.get_mut(&s) { m.handles += 1; }
                }
                self.sig("trace_capture", got, depth);
                self.stat("span_traces");
                self.check(&[], None, None);
                self.traces.push(Some((tr, got)));
            }
            11 => {
                let k = *self.rng.pick(&trace_idx);
                let foreign_read = !mine(self, self.traces[k].as_ref().unwrap().1);
                let drop_it = !foreign_read && self.rng.chance(1, 3);
                if foreign_read {
                    self.stat("span_traces_read_under_another_registrys_default");
                }
                let (tr, s) = self.traces[k].take().unwrap();
                self.trace.push(format!("[w{t}] {}(tr{k}) [leaf serial {s:?}]", if drop_it { "drop" } else { "check" }));
                // the chain must still be fully readable: leaf -> root, right names and fields
                let mut listed: Vec<(u64, String)> = vec![];
                tr.with_spans(|m, fields| {
                    let ser = fields.strip_prefix("id=").and_then(|x| x.split_whitespace().next()).and_then(|x| x.parse().ok()).unwrap_or(u64::MAX);
                    listed.push((ser, format!("{}:{}", m.name(), m.level())));
                    true
                });
                let chain = self.model.chain(s);
                let got: Vec<u64> = listed.iter().map(|x| x.0).collect();
                if got != chain {
                    self.err(Tag::C06, format!("SpanTrace lists spans {got:?}, the ancestor chain leaf->root of the captured span is {chain:?}"));
                }
                for (ser, nl) in &listed {
                    if let Some(m) = self.model.spans.get(ser) {
                        let want = format!("sp:{}", ["", "ERROR", "WARN", "INFO", "DEBUG", "TRACE"][m.level]);
                        if *nl != want {
                            self.err(Tag::C06, format!("SpanTrace lists span serial {ser} with metadata {nl}, expected {want}"));
                        }
                    }
                }
                self.stat("span_trace_checks");
                if drop_it {
                    if let Some(s) = s {
                        if self.model.spans[&s].parent.is_some() && dflt != Some(self.model.spans[&s].stack) { self.tainted = true; }
                    }
                    drop(tr);
                    let closes = s.map(|s| self.model.drop_handle(s)).unwrap_or_default();
                    self.check(&closes, None, None);
                } else {
                    self.check(&[], None, None);
                    self.traces[k] = Some((tr, s));
                }
            }
            12 => {
                let k = if own { 1 - dflt.unwrap_or(1) } else { self.rng.usize(3) };
                let n = 1 + self.rng.usize(if own { 8 } else { 4 });
                let (g0, r0) = (GUARDS.with(|g| g.borrow().len()), RAW.with(|r| r.borrow().len()));
                self.block_base.push((g0, r0));
                self.trace.push(format!("[w{t}] with default {} {{", if k < 2 { format!("stack {k}") } else { "none".into() }));
                let g = if k < 2 { dispatch::set_default(&self.disp[k]) } else { dispatch::set_default(&Dispatch::none()) };
                DEFAULTS.with(|d| d.borrow_mut().push((g, if k < 2 { Some(k) } else { None })));
                for _ in 0..n {
                    if !self.errors.is_empty() { break; }
                    self.step(depth + 1);
                }
                if own && self.errors.is_empty() {
                    // what the block entered is exited before the default changes back
                    while RAW.with(|r| r.borrow().len()) > r0 {
                        let (id, d, serial) = RAW.with(|r| r.borrow_mut().pop()).unwrap();
                        self.trace.push(format!("[w{t}] dispatch.exit(raw) [serial {serial}] (end of block)"));
                        let m = self.model.spans[&serial].clone();
                        let last = m.handles == 0 && m.entered == 1 && m.children == 0
                            && self.model.tstack.get(&(m.stack, t)).map(|v| v.iter().filter(|x| **x == serial).count()).unwrap_or(0) == 1;
                        d.exit(&id);
                        let closes = self.model.exit(m.stack, t, serial);
                        let before = self.errors.len();
                        self.check(&closes, None, None);
                        if last {
                            let mut kept = vec![];
                            for (i, e) in std::mem::take(&mut self.errors).into_iter().enumerate() {
                                if i >= before && e.1.contains("EXIT-AFTER-CLOSE") { self.f28 += 1; } else { kept.push(e); }
                            }
                            self.errors = kept;
                        }
                    }
                    while GUARDS.with(|g| g.borrow().len()) > g0 {
                        let (g, serial) = GUARDS.with(|gs| gs.borrow_mut().pop()).unwrap();
                        self.trace.push(format!("[w{t}] drop(guard) [serial {serial:?}] (end of block)"));
                        drop(g);
                        let mut closes = vec![];
                        if let Some(s) = serial {
                            let st = self.model.spans[&s].stack;
                            closes.extend(self.model.exit(st, t, s));
                            closes.extend(self.model.drop_handle(s));
                        }
                        self.check(&closes, None, None);
                    }
                    self.stat("nested_registry_blocks");
                }
                self.block_base.pop();
                let g = DEFAULTS.with(|d| d.borrow_mut().pop());
                drop(g);
                self.trace.push(format!("[w{t}] }} // end default"));
                self.check(&[], None, None);
            }
            14 => {
                let cands: Vec<usize> = live.iter().copied().filter(|&i| self.handles[i].as_ref().unwrap().serial.is_some()).collect();
                if cands.is_empty() { return; }
                let h = *self.rng.pick(&cands);
                let serial = self.handles[h].as_ref().unwrap().serial.unwrap();
                self.trace.push(format!("[w{t}] raw{nraw} = dispatch.enter(id of h{h}) [serial {serial}] (no handle owned)"));
                let got = self.handles[h].as_ref().unwrap().span.with_collector(|(id, d)| {
                    d.enter(id);
                    (id.clone(), d.clone())
                });
                if let Some((id, d)) = got {
                    let st = self.model.spans[&serial].stack;
                    self.model.enter(st, t, serial);
                    self.stat("enters");
                    self.stat("raw_enters");
                    RAW.with(|r| r.borrow_mut().push((id, d, serial)));
                }
                self.sig("raw_enter", Some(serial), depth);
                self.check(&[], None, None);
            }
            15 => {
                let k = *self.rng.pick(&raw_idx);
                let (id, d, serial) = RAW.with(|r| r.borrow_mut().remove(k));
                let m = self.model.spans[&serial].clone();
                let last = m.handles == 0 && m.entered == 1 && m.children == 0
                    && self.model.tstack.get(&(m.stack, t)).map(|v| v.iter().filter(|x| **x == serial).count()).unwrap_or(0) == 1;
                self.trace.push(format!("[w{t}] dispatch.exit(raw[{k}]) [serial {serial}{}], default {dflt:?}", if last { ", this exit releases the last reference" } else { "" }));
                self.sig(if last { "raw_exit_last_ref" } else { "raw_exit" }, Some(serial), depth);
                if dflt != Some(m.stack) {
                    self.tainted = true;
                }
                if last {
                    self.stat("exits_that_release_the_last_reference");
                    if m.parent.is_some() { self.stat("exits_that_release_the_last_reference_of_a_child"); }
                }
                d.exit(&id);
                let closes = self.model.exit(m.stack, t, serial);
                let before = self.errors.len();
                self.check(&closes, None, None);
                if last {
                    // F28: Layered::exit runs the registry's exit (which closes the span when this
                    // exit releases the last reference) BEFORE the layers' on_exit
                    let n0 = self.errors.len();
                    let mut kept = vec![];
                    for (i, e) in std::mem::take(&mut self.errors).into_iter().enumerate() {
                        if i >= before && e.1.contains("EXIT-AFTER-CLOSE") { self.f28 += 1; } else { kept.push(e); }
                    }
                    self.errors = kept;
                    let _ = n0;
                }
            }
            16 => {
                // a handle of span Z is stored in the extensions of span H (a "link"): it is
                // dropped when H's data is cleared, which may close Z (and Z's ancestors) from
                // inside H's close
                let cands: Vec<usize> = live.iter().copied().filter(|&i| self.handles[i].as_ref().unwrap().serial.is_some()).collect();
                if cands.len() < 2 { return; }
                let hi = *self.rng.pick(&cands);
                let zi = *self.rng.pick(&cands);
                if hi == zi { return; }
                let hs = self.handles[hi].as_ref().unwrap().serial.unwrap();
                let zs = self.handles[zi].as_ref().unwrap().serial.unwrap();
                if self.model.spans[&hs].stack != self.model.spans[&zs].stack || self.model.keeps_open(zs, hs) {
                    return; // would make a reference cycle (a legitimate leak): not generated
                }
                let hid = self.model.spans[&hs].id;
                let d = self.disp[self.model.spans[&hs].stack].clone();
                let Some(stack) = d.downcast_ref::<Stack>() else { return };
                let Some(sref) = stack.span(&Id::from_u64(hid)) else {
                    self.err(Tag::C05, format!("span serial {hs} has a live handle but the registry no longer finds it"));
                    return;
                };
                let z = self.handles[zi].take().unwrap();
                self.trace.push(format!("[w{t}] extensions_mut(h{hi} [serial {hs}]).push(h{zi} [serial {zs}])  // handle stored in another span's extensions"));
                {
                    let mut ext = sref.extensions_mut();
                    if let Some(l) = ext.get_mut::<Links>() {
                        l.0.push(z.span);
                    } else {
                        ext.insert(Links(vec![z.span]));
                    }
                }
                drop(sref);
                self.model.spans.get_mut(&hs).unwrap().links.push(zs);
                self.stat("handles_stored_in_another_spans_extensions");
                self.sig("link", Some(zs), depth);
                self.check(&[], None, None);
            }
            _ => unreachable!(),
        }
        // probe: the collector's own notion of the current span on this thread
        if self.errors.is_empty() {
            if let Some(d) = cur_default() {
                if !self.model.has_dup(d, t) {
                    let want = self.model.current(d, t).map(|s| self.model.spans[&s].id);
                    let got = dispatch::get_default(|dd| dd.current_span().id().map(|i| i.into_u64()));
                    if got != want {
                        let ws = self.model.current(d, t);
                        self.err(Tag::C06, format!("the collector's current span on this thread has id {got:?}, the most recently entered unexited span is serial {ws:?} (id {want:?})"));
                    }
                }
            }
        }
    }

    pub fn unwind_thread(&mut self) {
        let t = TID.with(|t| t.get());
        loop {
            let r = RAW.with(|r| r.borrow_mut().pop());
            let Some((id, d, serial)) = r else { break };
            self.trace.push(format!("[w{t}] dispatch.exit(raw) [serial {serial}] (end of history)"));
            let st = self.model.spans[&serial].stack;
            if cur_default() != Some(st) { self.tainted = true; }
            let m = self.model.spans[&serial].clone();
            let last = m.handles == 0 && m.entered == 1 && m.children == 0
                && self.model.tstack.get(&(st, t)).map(|v| v.iter().filter(|x| **x == serial).count()).unwrap_or(0) == 1;
            d.exit(&id);
            let closes = self.model.exit(st, t, serial);
            let before = self.errors.len();
            self.check(&closes, None, None);
            if last {
                let mut kept = vec![];
                for (i, e) in std::mem::take(&mut self.errors).into_iter().enumerate() {
                    if i >= before && e.1.contains("EXIT-AFTER-CLOSE") { self.f28 += 1; } else { kept.push(e); }
                }
                self.errors = kept;
            }
            if !self.errors.is_empty() { return; }
        }
        loop {
            let g = GUARDS.with(|gs| gs.borrow_mut().pop());
            let Some((g, serial)) = g else { break };
            self.trace.push(format!("[w{t}] drop(guard) [serial {serial:?}] (end of history)"));
            if let Some(s) = serial {
                if cur_default() != Some(self.model.spans[&s].stack) { self.tainted = true; }
            }
            drop(g);
            let mut closes = vec![];
            if let Some(s) = serial {
                let st = self.model.spans[&s].stack;
                closes.extend(self.model.exit(st, t, s));
                closes.extend(self.model.drop_handle(s));
            }
            self.check(&closes, None, None);
            if !self.errors.is_empty() { break; }
        }
    }
    pub fn finish(&mut self) {
        let dflt = cur_default();
        for i in 0..self.traces.len() {
            if let Some((tr, s)) = self.traces[i].take() {
                self.trace.push(format!("drop(tr{i}) (end of history)"));
                let _own = if self.w.own_only { s.map(|s| dispatch::set_default(&self.disp[self.model.spans[&s].stack])) } else { None };
                if let Some(s) = s { if self.model.spans[&s].parent.is_some() && dflt != Some(self.model.spans[&s].stack) && _own.is_none() { self.tainted = true; } }
                drop(tr);
                let closes = s.map(|s| self.model.drop_handle(s)).unwrap_or_default();
                self.check(&closes, None, None);
            }
        }
        // drop handles in random order (parents before children happens)
        let mut order = self.live_handles();
        self.rng.shuffle(&mut order);
        for i in order {
            if !self.errors.is_empty() { break; }
            let x = self.handles[i].take().unwrap();
            self.trace.push(format!("drop(h{i}) [serial {:?}] (end of history)", x.serial));
            let _own = if self.w.own_only { x.serial.map(|s| dispatch::set_default(&self.disp[self.model.spans[&s].stack])) } else { None };
            if let Some(s) = x.serial { if self.model.spans[&s].parent.is_some() && dflt != Some(self.model.spans[&s].stack) && _own.is_none() { self.tainted = true; } }
            drop(x.span);
            let closes = x.serial.map(|s| self.model.drop_handle(s)).unwrap_or_default();
            self.check(&closes, None, None);
        }
        if self.errors.is_empty() {
            let open: Vec<u64> = self.model.spans.iter().filter(|(_, m)| !m.closed).map(|(s, _)| *s).collect();
            if !open.is_empty() {
                self.err(Tag::C05, format!("HARNESS: model still has open spans {open:?} after every handle was dropped"));
            }
        }
    }
}

pub struct Outcome {
    pub trace: Vec<String>,
    pub errors: Vec<(Tag, String)>,
    pub stats: BTreeMap<String, u64>,
    pub sigs: Vec<String>,
    pub tainted: bool,
    pub f28: u64,
    pub ops: u64,
}

pub fn run_history(seed: u64, idx: u64, fresh: Arc<Fresh>, w: Weights, max_ops: usize) -> Outcome {
    let mut r0 = Rng::derive(seed, 0xC05A, idx);
    let nthreads = 1 + r0.usize(3);
    let logs: Vec<Arc<LayerLog>> = (0..2).map(|_| Arc::new(LayerLog::default())).collect();
    let how0 = r0.below(6);
    let disp: Vec<Dispatch> = logs.iter().enumerate().map(|(i, l)| mk_stack(l.clone(), how0 + i as u64)).collect();
    let world = Arc::new(Mutex::new(World {
        disp,
        logs,
        handles: vec![],
        traces: vec![],
        metas: vec![],
        model: Model::default(),
        trace: vec![],
        errors: vec![],
        stats: BTreeMap::new(),
        sigs: vec![],
        tainted: false,
        f28: 0,
        rng: Rng::derive(seed, 0xC05B, idx),
        fresh,
        next_serial: 1,
        w,
        nthreads,
        xparent_of_op: None,
        block_base: vec![],
    }));
    let workers = vlib::exec::Workers::new(nthreads);
    for t in 0..nthreads {
        let w = world.clone();
        workers
            .run(t, move || {
                TID.with(|x| x.set(t));
                let w = w.lock().unwrap();
                let g = dispatch::set_default(&w.disp[0]);
                DEFAULTS.with(|ds| ds.borrow_mut().push((g, Some(0))));
            })
            .expect("HARNESS: setup");
    }
    let nseg = 2 + r0.usize(7);
    let mut panic: Option<String> = None;
    for _ in 0..nseg {
        let t = r0.usize(nthreads);
        let n = 1 + r0.usize(max_ops / 4 + 1);
        let w = world.clone();
        let r = workers.run(t, move || {
            let mut w = match w.lock() { Ok(g) => g, Err(p) => p.into_inner() };
            for _ in 0..n {
                if !w.errors.is_empty() { break; }
                w.step(0);
            }
        });
        if let Err(p) = r {
            panic = Some(p);
            break;
        }
        if !world.lock().map(|w| w.errors.is_empty()).unwrap_or(false) {
            break;
        }
    }
    if panic.is_none() {
        for t in 0..nthreads {
            let w = world.clone();
            if let Err(p) = workers.run(t, move || {
                let mut w = match w.lock() { Ok(g) => g, Err(p) => p.into_inner() };
                if w.errors.is_empty() { w.unwind_thread(); }
            }) {
                panic = Some(p);
                break;
            }
        }
    }
    if panic.is_none() {
        let w = world.clone();
        if let Err(p) = workers.run(0, move || {
            let mut w = match w.lock() { Ok(g) => g, Err(p) => p.into_inner() };
            if w.errors.is_empty() { w.finish(); }
        }) {
            panic = Some(p);
        }
    }
    for t in 0..nthreads {
        let _ = workers.run(t, move || {
            // leak guards left behind by an aborted history rather than running their drops
            GUARDS.with(|gs| { for g in gs.borrow_mut().drain(..) { std::mem::forget(g); } });
            RAW.with(|r| r.borrow_mut().clear());
            DEFAULTS.with(|ds| { while let Some(g) = ds.borrow_mut().pop() { drop(g); } });
        });
    }
    drop(workers);
    let mut w = match world.lock() { Ok(g) => g, Err(p) => p.into_inner() };
    if let Some(p) = panic {
        w.errors.push((Tag::C05, format!("panic: {p}")));
    }
    let out = Outcome {
        trace: std::mem::take(&mut w.trace),
        errors: std::mem::take(&mut w.errors),
        stats: std::mem::take(&mut w.stats),
        sigs: std::mem::take(&mut w.sigs),
        tainted: w.tainted,
        f28: w.f28,
        ops: w.next_serial - 1,
    };
    // an aborted history may leave handles whose drop would panic again: leak them
    if !out.errors.is_empty() {
        for h in w.handles.drain(..) { std::mem::forget(h); }
        for t in w.traces.drain(..) { std::mem::forget(t); }
    }
    out
}

/// A fresh stack + its layer log (for the racing scenarios of C05).
#[allow(dead_code)]
pub fn mk_stack_pub() -> (Dispatch, Arc<LayerLog>) {
    let log = Arc::new(LayerLog::default());
    static HOW: std::sync::atomic::AtomicU64 = std::sync::atomic::AtomicU64::new(0);
    (mk_stack(log.clone(), HOW.fetch_add(1, std::sync::atomic::Ordering::Relaxed)), log)
}
